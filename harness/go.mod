module verifharness

go 1.24.5

require (
	github.com/go-i2p/common v0.0.0
	github.com/go-i2p/crypto v0.1.4-0.20260218221204-a8834457f3f1
	go.step.sm/crypto v0.76.0
	golang.org/x/crypto v0.47.0
)

require (
	filippo.io/edwards25519 v1.1.0 // indirect
	github.com/cespare/xxhash/v2 v2.3.0 // indirect
	github.com/go-i2p/elgamal v0.0.2 // indirect
	github.com/go-i2p/logger v0.1.2 // indirect
	github.com/oklog/ulid/v2 v2.1.1 // indirect
	github.com/samber/lo v1.52.0 // indirect
	github.com/samber/oops v1.21.0 // indirect
	github.com/sirupsen/logrus v1.9.4 // indirect
	go.opentelemetry.io/otel v1.39.0 // indirect
	go.opentelemetry.io/otel/trace v1.39.0 // indirect
	golang.org/x/sys v0.40.0 // indirect
	golang.org/x/text v0.33.0 // indirect
)

replace github.com/go-i2p/common => /repo
