package main

import (
	"fmt"
	"math/rand"
	"reflect"
	"runtime"
	"time"

	"github.com/go-i2p/common/base32"
	"github.com/go-i2p/common/base64"
	"github.com/go-i2p/common/certificate"
	"github.com/go-i2p/common/data"
	"github.com/go-i2p/common/key_certificate"
	"github.com/go-i2p/common/offline_signature"
	"github.com/go-i2p/common/signature"
)

// guarded runs f under recover() and the per-call deadline: "" = returned normally.
func guarded(f func()) string {
	ch := make(chan string, 1)
	go func() {
		defer func() {
			if p := recover(); p != nil {
				buf := make([]byte, 1200)
				n := runtime.Stack(buf, false)
				ch <- fmt.Sprintf("panic: %v\n%s", p, buf[:n])
			}
		}()
		f()
		ch <- ""
	}()
	select {
	case s := <-ch:
		return s
	case <-time.After(deadline):
		return "hang"
	}
}

type sweepStats struct {
	n, nok, ncalls, nargcalls, npartial int
	partial                             bool
	bad                                 []any
	// accepted values of this sweep (fresh parses, distinct serialisations, a bounded number): arguments for each other's methods
	pool      []reflect.Value
	poolWhat  []string
	poolSer   map[string]bool
	poolShape map[string]int
	ncross    int
	hangs     int
}

const maxPool = 14

// keep: a second, untouched parse of an accepted input joins the pool
func (st *sweepStats) keep(rd Reader, in []byte, a Args, o ReadOut, what string) {
	// one value per shape (length of serialisation and of the remainder) and content class, so that the pool is not filled by the
	// first few single-byte variants of the same shape
	key := fmt.Sprint(len(o.Ser), "|", len(o.Rem), "|", st.poolShape[fmt.Sprint(len(o.Ser), "|", len(o.Rem))])
	if len(st.pool) >= maxPool || st.poolSer[string(o.Ser)] || st.poolShape[fmt.Sprint(len(o.Ser), "|", len(o.Rem))] >= 2 {
		return
	}
	if st.poolShape == nil {
		st.poolShape = map[string]int{}
	}
	st.poolShape[fmt.Sprint(len(o.Ser), "|", len(o.Rem))]++
	key = string(o.Ser)
	var o2 ReadOut
	if msg := guarded(func() { o2 = rd(append([]byte{}, in...), a) }); msg != "" || !o2.OK || o2.Val == nil {
		return
	}
	if st.poolSer == nil {
		st.poolSer = map[string]bool{}
	}
	st.poolSer[key] = true
	st.pool = append(st.pool, reflect.ValueOf(o2.Val))
	st.poolWhat = append(st.poolWhat, what)
}

// cross: every method of an accepted value that takes one value of its own type (Equals and the like) is called with every OTHER
// accepted value of the sweep as the argument ("every exported method then invoked on a value that was returned without error")
func (st *sweepStats) cross() {
	for i, v := range st.pool {
		t := v.Type()
		for mi := 0; mi < t.NumMethod(); mi++ {
			m := t.Method(mi)
			if m.Type.NumIn() != 2 || m.Type.IsVariadic() {
				continue
			}
			pt := m.Type.In(1)
			for j, w := range st.pool {
				if i == j {
					continue
				}
				var arg reflect.Value
				switch {
				case w.Type() == pt:
					arg = w
				case w.Kind() == reflect.Pointer && !w.IsNil() && w.Type().Elem() == pt:
					arg = w.Elem()
				case pt.Kind() == reflect.Interface && w.Type().Implements(pt):
					arg = w
				default:
					continue
				}
				st.ncalls++
				st.ncross++
				if msg := guarded(func() { v.Method(mi).Call([]reflect.Value{arg}) }); msg != "" {
					st.add(st.poolWhat[i]+" with "+st.poolWhat[j], "method "+m.Name+"(other accepted value)", msg)
				}
			}
		}
	}
	st.pool = nil
}

func (st *sweepStats) add(what, site, msg string) {
	if msg == "hang" {
		st.hangs++ // every call that does not come back costs a full deadline (and leaves a spinning goroutine): a sweep stops after a few
	}
	if len(st.bad) < 10 {
		if len(msg) > 700 {
			msg = msg[:700]
		}
		st.bad = append(st.bad, map[string]any{"what": what, "site": site, "msg": msg})
	}
}

// parseAndTouch: one parser call; if a value came back without error, every exported argument-free method on it.
func parseAndTouch(st *sweepStats, rd Reader, in []byte, a Args, what string) {
	if st.hangs >= 5 {
		return
	}
	st.n++
	var o ReadOut
	if msg := guarded(func() { o = rd(in, a) }); msg != "" {
		st.add(what, "parser", msg)
		return
	}
	if o.Val == nil {
		return
	}
	v := reflect.ValueOf(o.Val)
	if v.Kind() == reflect.Pointer && v.IsNil() {
		return
	}
	if !o.OK {
		// the value a parser hands back TOGETHER WITH an error (C20): only when the sweep asks for it, argument-free methods only
		if st.partial {
			st.npartial++
			for _, mo := range callAllMethods(v) {
				st.ncalls++
				if mo.Panicked {
					st.add(what, "partial method "+mo.Method, mo.Msg)
				} else if mo.Hung {
					st.add(what, "partial method "+mo.Method, "hang")
				} else if mo.IsVerify && mo.VerifySuccess {
					st.add(what, "partial verify "+mo.Method, "verification succeeded on a value returned with an error")
				}
			}
		}
		return
	}
	st.nok++
	st.keep(rd, in, a, o, what)
	for _, mo := range callAllMethods(v) {
		st.ncalls++
		if mo.Panicked {
			st.add(what, "method "+mo.Method, mo.Msg)
		} else if mo.Hung {
			st.add(what, "method "+mo.Method, "hang")
		}
	}
	// then the methods that take arguments (after the argument-free ones: some of them modify the value)
	argOuts, _ := callArgMethods(v)
	for _, mo := range argOuts {
		st.ncalls++
		st.nargcalls++
		if mo.Panicked {
			st.add(what, "method "+mo.Method, mo.Msg)
		} else if mo.Hung {
			st.add(what, "method "+mo.Method, "hang")
		}
	}
}

func (st *sweepStats) res() Res {
	st.cross()
	if st.bad == nil {
		st.bad = []any{}
	}
	return Res{"n": st.n, "nok": st.nok, "ncalls": st.ncalls, "nargcalls": st.nargcalls, "npartial": st.npartial, "ncross": st.ncross, "bad": st.bad}
}

type codeFunc func(code int, in []byte)

var codeFuncs = map[string]codeFunc{
	"signature.SignatureSize":                            func(c int, in []byte) { signature.SignatureSize(c) },
	"signature.ReadSignature":                            func(c int, in []byte) { signature.ReadSignature(in, c) },
	"signature.NewSignature":                             func(c int, in []byte) { signature.NewSignature(in, c) },
	"signature.NewSignatureFromBytes":                    func(c int, in []byte) { signature.NewSignatureFromBytes(in, c) },
	"key_certificate.GetKeySizes(sig)":                   func(c int, in []byte) { key_certificate.GetKeySizes(c, 0) },
	"key_certificate.GetKeySizes(crypto)":                func(c int, in []byte) { key_certificate.GetKeySizes(0, c) },
	"key_certificate.GetSigningKeySize":                  func(c int, in []byte) { key_certificate.GetSigningKeySize(c) },
	"key_certificate.GetCryptoKeySize":                   func(c int, in []byte) { key_certificate.GetCryptoKeySize(c) },
	"key_certificate.GetSignatureSize":                   func(c int, in []byte) { key_certificate.GetSignatureSize(c) },
	"key_certificate.ConstructSigningPublicKeyByType":    func(c int, in []byte) { key_certificate.ConstructSigningPublicKeyByType(in, c) },
	"key_certificate.NewKeyCertificateWithTypes(sig)":    func(c int, in []byte) { key_certificate.NewKeyCertificateWithTypes(c, 4) },
	"key_certificate.NewKeyCertificateWithTypes(crypto)": func(c int, in []byte) { key_certificate.NewKeyCertificateWithTypes(7, c) },
	"offline_signature.SigningPublicKeySize":             func(c int, in []byte) { offline_signature.SigningPublicKeySize(uint16(c)) },
	"offline_signature.SignatureSize":                    func(c int, in []byte) { offline_signature.SignatureSize(uint16(c)) },
	"offline_signature.ReadOfflineSignature":             func(c int, in []byte) { offline_signature.ReadOfflineSignature(in, uint16(c)) },
	"offline_signature.NewOfflineSignature(tst)": func(c int, in []byte) {
		offline_signature.NewOfflineSignature(1, uint16(c), in, in, 7)
	},
	"offline_signature.NewOfflineSignature(dst)": func(c int, in []byte) {
		offline_signature.NewOfflineSignature(1, 7, in, in, uint16(c))
	},
	"certificate.BuildKeyTypePayload": func(c int, in []byte) { certificate.BuildKeyTypePayload(c, c) },
	"certificate.WithKeyTypes": func(c int, in []byte) {
		cb := certificate.NewCertificateBuilder()
		if _, err := cb.WithKeyTypes(c, c); err == nil {
			cb.Build()
		}
	},
	"certificate.NewCertificateWithType": func(c int, in []byte) { certificate.NewCertificateWithType(uint8(c), in) },
	"data.ReadInteger":                   func(c int, in []byte) { data.ReadInteger(in, c) },
	"data.NewInteger":                    func(c int, in []byte) { data.NewInteger(in, c) },
	"data.NewIntegerFromInt":             func(c int, in []byte) { data.NewIntegerFromInt(int(u64(in)), c) },
	"data.EncodeIntN":                    func(c int, in []byte) { data.EncodeIntN(int(u64(in)), c) },
	"base32.DecodeString(byte)":          func(c int, in []byte) { base32.DecodeString(string(append(append([]byte{}, in...), byte(c)))) },
	"base32.DecodeStringNoPadding(byte)": func(c int, in []byte) { base32.DecodeStringNoPadding(string(append(append([]byte{}, in...), byte(c)))) },
	"base64.DecodeString(byte)":          func(c int, in []byte) { base64.DecodeString(string(append(append([]byte{}, in...), byte(c)))) },
}

func init() {
	// ByteSweep: every offset of the input set to each of the given values (1-byte) and, at every offset, each
	// 2-byte value; the mutant is parsed and, if accepted, every method of the result is called.
	register("ByteSweep", func(s *Session, a Args) Res {
		rd, ok := readers[a.Str("fn")]
		if !ok {
			return Res{"unknown_fn": true}
		}
		base := a.Bytes("in")
		st := &sweepStats{partial: a.Bool("partial")}
		parseAndTouch(st, rd, append([]byte{}, base...), a, "base")
		step := a.Int("step")
		if step < 1 {
			step = 1
		}
		for off := 0; off < len(base); off += step {
			for _, v := range a.List("values") {
				m := append([]byte{}, base...)
				m[off] = byte(int(v.(float64)))
				parseAndTouch(st, rd, m, a, fmt.Sprintf("byte@%d=%d", off, int(v.(float64))))
			}
			if off+1 < len(base) {
				for _, v := range a.List("values2") {
					m := append([]byte{}, base...)
					x := int(v.(float64))
					m[off], m[off+1] = byte(x>>8), byte(x)
					parseAndTouch(st, rd, m, a, fmt.Sprintf("u16@%d=%d", off, x))
				}
			}
		}
		// every cut point, with the methods called on accepted prefixes
		for k := 0; k <= len(base); k += step {
			parseAndTouch(st, rd, append([]byte{}, base[:k]...), a, fmt.Sprintf("cut=%d", k))
		}
		return st.res()
	})
	// RandomSweep: seeded random byte strings (optionally grafted onto a prefix of a well-formed encoding)
	register("RandomSweep", func(s *Session, a Args) Res {
		rd, ok := readers[a.Str("fn")]
		if !ok {
			return Res{"unknown_fn": true}
		}
		rng := rand.New(rand.NewSource(s.Seed*1000003 + int64(a.Int("stream"))))
		base := a.Bytes("in")
		st := &sweepStats{}
		for i := 0; i < a.Int("count"); i++ {
			n := rng.Intn(a.Int("maxlen") + 1)
			b := make([]byte, n)
			rng.Read(b)
			if len(base) > 0 && i%2 == 0 {
				k := rng.Intn(len(base) + 1)
				b = append(append([]byte{}, base[:k]...), b...)
			}
			parseAndTouch(st, rd, b, a, fmt.Sprintf("random#%d", i))
		}
		return st.res()
	})
	// MappingBodies: EVERY byte string over the given alphabet up to maxlen as a mapping body (size field prepended),
	// through ReadMapping; per string: accepted without any error?, number of pairs, re-serialisation equals the input?
	// Results are bit strings in enumeration order (length-major, then lexicographic in alphabet order).
	register("MappingBodies", func(s *Session, a Args) Res {
		alpha := a.Bytes("alphabet")
		length := a.Int("len")
		first := a.Int("first") // index into the alphabet of the first character, -1 = all
		var accepted, same []int
		npanic := 0
		firstPanic := ""
		total := 0
		var rec func(cur []byte, n int)
		eval := func(body []byte) {
			in := append([]byte{byte(len(body) >> 8), byte(len(body))}, body...)
			acc, sm := 0, 0
			msg := guarded(func() {
				m, rem, errs := data.ReadMapping(append([]byte{}, in...))
				if len(errs) == 0 && len(rem) == 0 {
					acc = 1
					if string(m.Data()) == string(in) {
						sm = 1
					}
				}
				m.Values()
				m.ToGoMap()
				m.HasDuplicateKeys()
				m.Validate()
			})
			if msg != "" {
				npanic++
				if firstPanic == "" {
					firstPanic = fmt.Sprintf("%v: %s", in, msg)
					if len(firstPanic) > 600 {
						firstPanic = firstPanic[:600]
					}
				}
			}
			accepted = append(accepted, acc)
			same = append(same, sm)
			total++
		}
		rec = func(cur []byte, n int) {
			if len(cur) == n {
				eval(cur)
				return
			}
			for _, c := range alpha {
				rec(append(cur, c), n)
			}
		}
		if first >= 0 && length >= 1 {
			rec([]byte{alpha[first]}, length)
		} else {
			rec([]byte{}, length)
		}
		if accepted == nil {
			accepted, same = []int{}, []int{}
		}
		return Res{"n": total, "accepted": accepted, "same": same, "npanic": npanic, "first_panic": firstPanic}
	})
	// CodeSweep: a function with a type/size parameter for every code in from..to
	register("CodeSweep", func(s *Session, a Args) Res {
		f, ok := codeFuncs[a.Str("fn")]
		if !ok {
			return Res{"unknown_fn": true}
		}
		in := a.Bytes("in")
		st := &sweepStats{}
		for c := a.Int("from"); c <= a.Int("to"); c++ {
			st.n++
			if msg := guarded(func() { f(c, in) }); msg != "" {
				st.add(fmt.Sprintf("code=%d", c), "function", msg)
			}
		}
		return st.res()
	})
}

func init() {
	// CrossSweep: a FAMILY of related accepted encodings of one structure (computed by the specification: one is a prefix / an extension /
	// a one-field variant of the other).  Each is parsed; every method is touched; then every method that takes another value of the type
	// is called with every other member of the family as the argument, in both directions.
	register("CrossSweep", func(s *Session, a Args) Res {
		rd, ok := readers[a.Str("fn")]
		if !ok {
			return Res{"unknown_fn": true}
		}
		st := &sweepStats{}
		var mine []reflect.Value
		var mineWhat []string
		for k, it := range a.List("items") {
			in := toBytes(it)
			what := fmt.Sprintf("family member %d", k+1)
			parseAndTouch(st, rd, in, a, what)
			var o2 ReadOut
			if msg := guarded(func() { o2 = rd(append([]byte{}, in...), a) }); msg == "" && o2.OK && o2.Val != nil {
				mine = append(mine, reflect.ValueOf(o2.Val))
				mineWhat = append(mineWhat, what)
			}
		}
		st.pool, st.poolWhat = mine, mineWhat
		st.cross()
		return st.res()
	})
}
