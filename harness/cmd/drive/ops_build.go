package main

import (
	"time"

	"github.com/go-i2p/common/certificate"
	"github.com/go-i2p/common/data"
	"github.com/go-i2p/common/destination"
	"github.com/go-i2p/common/key_certificate"
	"github.com/go-i2p/common/keys_and_cert"
	"github.com/go-i2p/common/lease"
	"github.com/go-i2p/common/lease_set2"
	"github.com/go-i2p/common/offline_signature"
	"github.com/go-i2p/common/router_address"
	"github.com/go-i2p/common/router_identity"
	"github.com/go-i2p/crypto/curve25519"
	"github.com/go-i2p/crypto/dsa"
	"github.com/go-i2p/crypto/ecdsa"
	"github.com/go-i2p/crypto/ed25519"
	elgamal "github.com/go-i2p/crypto/elg"
	"github.com/go-i2p/crypto/types"
)

// Key objects by type code (API knowledge: which Go type carries which I2P key type; no layout).
func mkPub(ct int, b []byte) types.ReceivingPublicKey {
	switch ct {
	case 0:
		var k elgamal.ElgPublicKey
		if len(b) != len(k) {
			return rawPub(b)
		}
		copy(k[:], b)
		return k
	default:
		k := make(curve25519.Curve25519PublicKey, len(b))
		copy(k, b)
		return k
	}
}

// rawPub: a receiving public key of arbitrary length (for size-mismatch defects).
type rawPub []byte

func (r rawPub) Len() int      { return len(r) }
func (r rawPub) Bytes() []byte { return []byte(r) }
func (r rawPub) NewEncrypter() (types.Encrypter, error) {
	return nil, nil
}

type rawSpk []byte

func (r rawSpk) Len() int      { return len(r) }
func (r rawSpk) Bytes() []byte { return []byte(r) }
func (r rawSpk) NewVerifier() (types.Verifier, error) {
	return nil, nil
}

func mkSpk(st int, b []byte) types.SigningPublicKey {
	switch st {
	case 0:
		var k dsa.DSAPublicKey
		if len(b) != len(k) {
			return rawSpk(b)
		}
		copy(k[:], b)
		return k
	case 1:
		var k ecdsa.ECP256PublicKey
		if len(b) != len(k) {
			return rawSpk(b)
		}
		copy(k[:], b)
		return k
	case 2:
		var k ecdsa.ECP384PublicKey
		if len(b) != len(k) {
			return rawSpk(b)
		}
		copy(k[:], b)
		return k
	case 7, 8, 11:
		k := make(ed25519.Ed25519PublicKey, len(b))
		copy(k, b)
		return k
	}
	return rawSpk(b)
}

func sub(a Args, k string) Args {
	m, _ := a[k].(map[string]any)
	return Args(m)
}

func pairsToMap(a Args, k string) (map[string]string, [][2][]byte) {
	m := map[string]string{}
	var seq [][2][]byte
	for _, p := range a.List(k) {
		pp, _ := p.([]any)
		if len(pp) != 2 {
			continue
		}
		kb, vb := toBytes(pp[0]), toBytes(pp[1])
		m[string(kb)] = string(vb)
		seq = append(seq, [2][]byte{kb, vb})
	}
	return m, seq
}

func unixTime(a Args, k, neg string, ns int) time.Time {
	return time.Unix(sint(a, k, neg), int64(ns))
}

// buildKAC builds a KeysAndCert from a model identity {st, ct, pub, padding, spk}.
func buildKAC(m Args) (*keys_and_cert.KeysAndCert, error) {
	kc, err := key_certificate.NewKeyCertificateWithTypes(m.Int("st"), m.Int("ct"))
	if err != nil {
		return nil, err
	}
	var pub types.ReceivingPublicKey
	var spk types.SigningPublicKey
	if !m.Bool("nilpub") {
		pub = mkPub(m.Int("ct"), m.Bytes("pub"))
	}
	if !m.Bool("nilspk") {
		spk = mkSpk(m.Int("st"), m.Bytes("spk"))
	}
	if m.Bool("literal") {
		// a KeysAndCert assembled by the caller from its exported fields (no constructor in between): the wrappers that take a
		// *KeysAndCert have to apply their own checks to it
		return &keys_and_cert.KeysAndCert{KeyCertificate: kc, ReceivingPublic: pub, Padding: m.Bytes("padding"), SigningPublic: spk}, nil
	}
	return keys_and_cert.NewKeysAndCert(kc, pub, m.Bytes("padding"), spk)
}

func buildDest(m Args) (*destination.Destination, error) {
	k, err := buildKAC(m)
	if err != nil {
		return nil, err
	}
	return destination.NewDestination(k)
}

// lifecycle: constructor result -> Validate -> Bytes -> parse back (C14), all through the public API.
type built struct {
	ok       bool
	err      string
	ser      []byte
	serOK    bool
	hasValid bool
	validOK  bool
	validErr string
	reader   string // entry point used to parse the serialisation back
	val      any    // the constructed value itself (query stability: all read-only methods twice, then serialised again)
	typ      int
}

func (b built) res(extra map[string]any) Res {
	r := Res{"ok": b.ok, "err": b.err, "ser": ints(b.ser), "serok": b.serOK, "hasvalid": b.hasValid, "validok": b.validOK, "validerr": b.validErr}
	r["rt"] = map[string]any{"done": false}
	if b.ok && b.serOK && b.reader != "" {
		if rd, ok := readers[b.reader]; ok {
			in := append([]byte{}, b.ser...)
			o := rd(in, Args{"typ": float64(b.typ)})
			same := o.OK && o.SerOK && string(o.Ser) == string(b.ser)
			r["rt"] = map[string]any{"done": true, "ok": o.OK, "remlen": len(o.Rem), "same": same, "err": o.Err, "reader": b.reader}
		}
	}
	r["#val"] = b.val
	if b.ok && b.serOK && b.val != nil {
		queryStability(ReadOut{OK: true, SerOK: true, Val: b.val, Ser: b.ser}, r)
	}
	for k, v := range extra {
		r[k] = v
	}
	return r
}

func init() {
	// Build: one constructor call.  With "again": the call is made, everything a caller can reach from the result is overwritten
	// (it is the caller's), and the SAME call is made once more: the event reports the second result, which is judged like any other.
	register("Build", func(s *Session, a Args) Res {
		r := buildOnce(s, a)
		v := r["#val"]
		delete(r, "#val")
		if a.Bool("again") {
			n := 0
			if v != nil {
				n = scribbleReachable(v)
			}
			r = buildOnce(s, a)
			delete(r, "#val")
			r["scribbled"] = n
		}
		return r
	})
}

func buildOnce(s *Session, a Args) Res {
	{
		m := sub(a, "m")
		switch a.Str("fn") {
		case "NewCertificateWithType":
			c, err := certificate.NewCertificateWithType(uint8(m.Int("type")), m.Bytes("payload"))
			b := built{ok: err == nil && c != nil, err: errStr(err), reader: "ReadCertificate"}
			if b.ok {
				b.ser, b.serOK, b.val = c.Bytes(), true, c
			}
			return b.res(nil)
		case "CertificateBuilder":
			cb := certificate.NewCertificateBuilder()
			var err error
			if m.Has("type") {
				_, err = cb.WithType(uint8(m.Int("type")))
			}
			if m.Bool("payloadfirst") && m.Has("payload") {
				cb.WithPayload(m.Bytes("payload"))
			}
			if err == nil && m.Has("st") {
				_, err = cb.WithKeyTypes(m.Int("st"), m.Int("ct"))
			}
			if err == nil && m.Has("payload") && !m.Bool("payloadfirst") {
				cb.WithPayload(m.Bytes("payload"))
			}
			var c *certificate.Certificate
			verr := error(nil)
			if err == nil {
				verr = cb.Validate()
				c, err = cb.Build()
			}
			b := built{ok: err == nil && c != nil, err: errStr(err), reader: "ReadCertificate", hasValid: true, validOK: verr == nil, validErr: errStr(verr)}
			if b.ok {
				b.ser, b.serOK, b.val = c.Bytes(), true, c
			}
			return b.res(nil)
		case "BuildKeyTypePayload":
			p, err := certificate.BuildKeyTypePayload(m.Int("st"), m.Int("ct"))
			return built{ok: err == nil, err: errStr(err), ser: p, serOK: err == nil}.res(nil)
		case "NewKeyCertificateWithTypes", "NewEd25519X25519KeyCertificate", "NewECDSAP256KeyCertificate", "NewECDSAP384KeyCertificate",
			"NewDSAElGamalKeyCertificate", "NewRedDSAX25519KeyCertificate":
			var k *key_certificate.KeyCertificate
			var err error
			switch a.Str("fn") {
			case "NewKeyCertificateWithTypes":
				k, err = key_certificate.NewKeyCertificateWithTypes(m.Int("st"), m.Int("ct"))
			case "NewEd25519X25519KeyCertificate":
				k, err = key_certificate.NewEd25519X25519KeyCertificate()
			case "NewECDSAP256KeyCertificate":
				k, err = key_certificate.NewECDSAP256KeyCertificate()
			case "NewECDSAP384KeyCertificate":
				k, err = key_certificate.NewECDSAP384KeyCertificate()
			case "NewDSAElGamalKeyCertificate":
				k, err = key_certificate.NewDSAElGamalKeyCertificate()
			case "NewRedDSAX25519KeyCertificate":
				k, err = key_certificate.NewRedDSAX25519KeyCertificate()
			}
			b := built{ok: err == nil && k != nil, err: errStr(err), reader: "NewKeyCertificate"}
			extra := map[string]any{}
			if b.ok {
				b.ser, b.serOK, b.val = k.Certificate.Bytes(), true, k
				extra["acc"] = accKeyCert(k)
			}
			return b.res(extra)
		case "NewKeysAndCert":
			k, err := buildKAC(m)
			b := built{ok: err == nil && k != nil, err: errStr(err), reader: "ReadKeysAndCert"}
			extra := map[string]any{}
			if b.ok {
				verr := k.Validate()
				b.hasValid, b.validOK, b.validErr = true, verr == nil, errStr(verr)
				ser, serr := k.Bytes()
				b.val = k
				b.ser, b.serOK = ser, serr == nil
				extra["acc"] = accKAC(k)
			}
			return b.res(extra)
		case "NewDestination":
			d, err := buildDest(m)
			b := built{ok: err == nil && d != nil, err: errStr(err), reader: "ReadDestination"}
			extra := map[string]any{}
			if b.ok {
				verr := d.Validate()
				b.hasValid, b.validOK, b.validErr = true, verr == nil, errStr(verr)
				ser, serr := d.Bytes()
				b.val = d
				b.ser, b.serOK = ser, serr == nil
				extra["acc"] = accDest(d)
			}
			addShaOf(extra, b.ser)
			return b.res(extra)
		case "NewRouterIdentityFromKeysAndCert", "NewRouterIdentity":
			var ri *router_identity.RouterIdentity
			var err error
			if a.Str("fn") == "NewRouterIdentity" {
				var kc *key_certificate.KeyCertificate
				kc, err = key_certificate.NewKeyCertificateWithTypes(m.Int("st"), m.Int("ct"))
				if err == nil {
					ri, err = router_identity.NewRouterIdentity(mkPub(m.Int("ct"), m.Bytes("pub")), mkSpk(m.Int("st"), m.Bytes("spk")), &kc.Certificate, m.Bytes("padding"))
				}
			} else {
				var k *keys_and_cert.KeysAndCert
				k, err = buildKAC(m)
				if err == nil {
					ri, err = router_identity.NewRouterIdentityFromKeysAndCert(k)
				}
			}
			b := built{ok: err == nil && ri != nil, err: errStr(err), reader: "ReadRouterIdentity"}
			extra := map[string]any{}
			if b.ok {
				verr := ri.Validate()
				b.hasValid, b.validOK, b.validErr = true, verr == nil, errStr(verr)
				ser, serr := ri.KeysAndCert.Bytes()
				b.val = ri
				b.ser, b.serOK = ser, serr == nil
				d := ri.AsDestination()
				extra["acc"] = accDest(&d)
			}
			addShaOf(extra, b.ser)
			return b.res(extra)
		case "NewRouterIdentityWithCompressiblePadding":
			var ri *router_identity.RouterIdentity
			kc, err := key_certificate.NewKeyCertificateWithTypes(m.Int("st"), m.Int("ct"))
			if err == nil {
				ri, err = router_identity.NewRouterIdentityWithCompressiblePadding(mkPub(m.Int("ct"), m.Bytes("pub")), mkSpk(m.Int("st"), m.Bytes("spk")), &kc.Certificate)
			}
			b := built{ok: err == nil && ri != nil, err: errStr(err), reader: "ReadRouterIdentity"}
			extra := map[string]any{}
			if b.ok {
				verr := ri.Validate()
				b.hasValid, b.validOK, b.validErr = true, verr == nil, errStr(verr)
				ser, serr := ri.KeysAndCert.Bytes()
				b.val = ri
				b.ser, b.serOK = ser, serr == nil
				d := ri.AsDestination()
				extra["acc"] = accDest(&d)
			}
			addShaOf(extra, b.ser)
			return b.res(extra)
		case "NewPrivateKeysAndCert":
			kc, err := key_certificate.NewKeyCertificateWithTypes(m.Int("st"), m.Int("ct"))
			var pk *keys_and_cert.PrivateKeysAndCert
			if err == nil {
				var encPriv, sigPriv any
				if !m.Bool("nilencpriv") {
					encPriv = []byte{1, 2, 3}
				}
				if !m.Bool("nilsigpriv") {
					sigPriv = []byte{4, 5, 6}
				}
				pk, err = keys_and_cert.NewPrivateKeysAndCert(kc, mkPub(m.Int("ct"), m.Bytes("pub")), m.Bytes("padding"), mkSpk(m.Int("st"), m.Bytes("spk")), encPriv, sigPriv)
			}
			b := built{ok: err == nil && pk != nil, err: errStr(err), reader: "ReadKeysAndCert"}
			extra := map[string]any{}
			if b.ok {
				verr := pk.Validate()
				b.hasValid, b.validOK, b.validErr = true, verr == nil, errStr(verr)
				ser, serr := pk.KeysAndCert.Bytes()
				b.val = pk
				b.ser, b.serOK = ser, serr == nil
				extra["acc"] = accKAC(&pk.KeysAndCert)
				extra["privs"] = pk.PrivateKey() != nil && pk.SigningPrivateKey() != nil
			}
			return b.res(extra)
		case "NewCertificate":
			c := certificate.NewCertificate()
			b := built{ok: c != nil, reader: "ReadCertificate"}
			if b.ok {
				b.ser, b.serOK, b.val = c.Bytes(), true, c
			}
			return b.res(nil)
		case "NewRouterAddress":
			opts, _ := pairsToMap(m, "pairs")
			ra, err := router_address.NewRouterAddress(uint8(m.Int("cost")), unixTime(m, "exp", "expneg", m.Int("expns")), string(m.Bytes("style")), opts)
			b := built{ok: err == nil && ra != nil, err: errStr(err), reader: "ReadRouterAddress"}
			extra := map[string]any{}
			if b.ok {
				verr := ra.Validate()
				b.hasValid, b.validOK, b.validErr = true, verr == nil, errStr(verr)
				b.ser, b.serOK, b.val = ra.Bytes(), true, ra
				extra["acc"] = accRouterAddress(ra)
			}
			return b.res(extra)
		case "NewLease", "NewLease2":
			var gw data.Hash
			copy(gw[:], m.Bytes("gw"))
			tid := uint32(u64(m.Bytes("tid")))
			t := unixTime(m, "sec", "neg", m.Int("ns"))
			if a.Str("fn") == "NewLease" {
				l, err := lease.NewLease(gw, tid, t)
				b := built{ok: err == nil && l != nil, err: errStr(err), reader: "ReadLease"}
				extra := map[string]any{}
				if b.ok {
					verr := l.Validate()
					b.hasValid, b.validOK, b.validErr = true, verr == nil, errStr(verr)
					b.ser, b.serOK, b.val = l.Bytes(), true, l
					extra["acc"] = accLease(*l)
				}
				return b.res(extra)
			}
			l, err := lease.NewLease2(gw, tid, t)
			b := built{ok: err == nil && l != nil, err: errStr(err), reader: "ReadLease2"}
			extra := map[string]any{}
			if b.ok {
				verr := l.Validate()
				b.hasValid, b.validOK, b.validErr = true, verr == nil, errStr(verr)
				b.ser, b.serOK, b.val = l.Bytes(), true, l
				extra["acc"] = accLease2(*l)
			}
			return b.res(extra)
		case "NewOfflineSignature":
			o, err := offline_signature.NewOfflineSignature(uint32(u64(m.Bytes("expires"))), uint16(m.Int("tst")), m.Bytes("tkey"), m.Bytes("sig"), uint16(m.Int("dst")))
			b := built{ok: err == nil, err: errStr(err), reader: "ReadOfflineSignature", typ: m.Int("dst")}
			extra := map[string]any{}
			if b.ok {
				verr := o.ValidateStructure()
				b.hasValid, b.validOK, b.validErr = true, verr == nil, errStr(verr)
				b.ser, b.serOK, b.val = o.Bytes(), true, o
				extra["acc"] = accOffline(&o)
			}
			return b.res(extra)
		case "NewLeaseSet2":
			d, err := buildDest(sub(m, "dest"))
			if err != nil || d == nil {
				return built{ok: false, err: "dest: " + errStr(err)}.res(map[string]any{"desterr": true})
			}
			var off *offline_signature.OfflineSignature
			if m.Has("off") {
				om := sub(m, "off")
				o, oerr := offline_signature.NewOfflineSignature(uint32(u64(om.Bytes("expires"))), uint16(om.Int("tst")), om.Bytes("tkey"), om.Bytes("sig"), uint16(om.Int("dst")))
				if oerr != nil {
					return built{ok: false, err: "off: " + errStr(oerr)}.res(map[string]any{"offerr": true})
				}
				off = &o
			}
			opts, optSeq := pairsToMap(m, "pairs")
			mp, merr := data.GoMapToMapping(opts)
			if m.Bool("rawopts") {
				// a Mapping as a parser hands it out: the pairs in the order given (wire order), not re-sorted
				var body []byte
				for _, kv := range optSeq {
					body = append(body, byte(len(kv[0])))
					body = append(body, kv[0]...)
					body = append(body, '=', byte(len(kv[1])))
					body = append(body, kv[1]...)
					body = append(body, ';')
				}
				wire := append([]byte{byte(len(body) >> 8), byte(len(body))}, body...)
				pm, _, perrs := data.ReadMapping(wire)
				if len(perrs) > 0 {
					return built{ok: false, err: "options: " + errStr(perrs[0])}.res(map[string]any{"opterr": true})
				}
				mp, merr = &pm, nil
			}
			if merr != nil || mp == nil {
				return built{ok: false, err: "options: " + errStr(merr)}.res(map[string]any{"opterr": true})
			}
			var keys []lease_set2.EncryptionKey
			for _, k := range m.List("keys") {
				km := Args(k.(map[string]any))
				keys = append(keys, lease_set2.EncryptionKey{KeyType: uint16(km.Int("type")), KeyLen: uint16(km.Int("len")), KeyData: km.Bytes("data")})
			}
			var leases []lease.Lease2
			for _, l := range m.List("leases") {
				var l2 lease.Lease2
				copy(l2[:], toBytes(l))
				leases = append(leases, l2)
			}
			ls, err := lease_set2.NewLeaseSet2(*d, uint32(u64(m.Bytes("published"))), uint16(m.Int("expires")), uint16(m.Int("flags")), off, *mp, keys, leases, nil)
			b := built{ok: err == nil, err: errStr(err), reader: "ReadLeaseSet2"}
			if b.ok {
				verr := ls.Validate()
				b.hasValid, b.validOK, b.validErr = true, verr == nil, errStr(verr)
				ser, serr := ls.Bytes()
				b.val = ls
				b.ser, b.serOK = ser, serr == nil
			}
			return b.res(nil)
		}
		return Res{"unknown_fn": true}
	}
}

func init() {
	// GoMapToMapping repeated (Go's randomised map iteration): every repetition must give the same bytes.
	register("BuildMapping", func(s *Session, a Args) Res {
		gomap, seq := pairsToMap(a, "pairs")
		reps := a.Int("reps")
		if reps < 1 {
			reps = 1
		}
		var first, firstCopy []byte
		allSame, ok := true, true
		errs := ""
		for i := 0; i < reps; i++ {
			var m *data.Mapping
			var err error
			if a.Str("fn") == "ValuesToMapping" {
				var mv data.MappingValues
				// rotate the insertion order per repetition
				for j := range seq {
					p := seq[(j+i)%len(seq)]
					ks, kerr := data.ToI2PString(string(p[0]))
					vs, verr := data.ToI2PString(string(p[1]))
					if kerr != nil {
						err = kerr
					}
					if verr != nil {
						err = verr
					}
					mv = append(mv, [2]data.I2PString{ks, vs})
				}
				if err == nil {
					m, err = data.ValuesToMapping(mv)
				}
			} else {
				m, err = data.GoMapToMapping(gomap)
			}
			if err != nil || m == nil {
				ok = false
				errs = errStr(err)
				break
			}
			b := m.Data()
			if i == 0 {
				first = b
				firstCopy = append([]byte{}, b...)
			} else if string(b) != string(first) {
				allSame = false
			}
		}
		// the first serialisation is kept by the caller while OTHER mappings (smaller and of other content) are built and serialised
		keptSame := true
		if ok {
			for i := 0; i < 3; i++ {
				if sm, serr := data.GoMapToMapping(map[string]string{"host": "192.0.2.1", "port": "4567"}); serr == nil && sm != nil {
					_ = sm.Data()
				}
				if i == 0 {
					if pm, _, _ := data.ReadMapping([]byte{0, 6, 1, 'z', '=', 1, 'y', ';'}); len(pm.Values()) == 1 {
						_ = pm.Data()
					}
				}
			}
			keptSame = string(first) == string(firstCopy)
		}
		r := Res{"ok": ok, "err": errs, "same": allSame, "ser": ints(firstCopy), "kept_same": keptSame}
		if ok {
			m2, rem, perrs := data.ReadMapping(append([]byte{}, first...))
			back, berr := m2.ToGoMap()
			eq := berr == nil && len(back) == len(gomap)
			if eq {
				for k, v := range gomap {
					if bv, has := back[k]; !has || bv != v {
						eq = false
					}
				}
			}
			// the map handed out belongs to the caller: after the caller has edited it, the same Mapping still decodes to the original map
			if berr == nil {
				for k := range back {
					delete(back, k)
					break
				}
				back["\x00injected"] = "x"
			}
			again, aerr := m2.ToGoMap()
			eq2 := aerr == nil && len(again) == len(gomap)
			if eq2 {
				for k, v := range gomap {
					if bv, has := again[k]; !has || bv != v {
						eq2 = false
					}
				}
			}
			r["rt"] = map[string]any{"nerr": len(perrs), "remlen": len(rem), "mapeq": eq, "mapeq_after_caller_edit": eq2, "ser2": ints(m2.Data())}
		} else {
			r["rt"] = map[string]any{"nerr": -1, "remlen": 0, "mapeq": false, "mapeq_after_caller_edit": false, "ser2": []int{}}
		}
		return r
	})
}
