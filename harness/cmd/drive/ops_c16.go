package main

import (
	stded "crypto/ed25519"
	"math/big"
	"math/rand"
	"sync"
	"time"

	"github.com/go-i2p/common/destination"
	"github.com/go-i2p/common/encrypted_leaseset"
	"github.com/go-i2p/common/lease_set2"
	"github.com/go-i2p/crypto/kdf"
	"go.step.sm/crypto/x25519"
	xchacha "golang.org/x/crypto/chacha20poly1305"
)

var localZoneMu sync.Mutex

// order of the Ed25519 base point group
var ed25519L, _ = new(big.Int).SetString("7237005577332262213973186563042994240857116359379907606001950938285454250989", 10)

// scalarPlusL: the little-endian 32-byte string for alpha + k*L, if it still fits 32 bytes
func scalarPlusL(alpha [32]byte, k int64) ([32]byte, bool) {
	be := make([]byte, 32)
	for i := range be {
		be[i] = alpha[31-i]
	}
	v := new(big.Int).SetBytes(be)
	v.Add(v, new(big.Int).Mul(ed25519L, big.NewInt(k)))
	var out [32]byte
	if v.BitLen() > 256 {
		return out, false
	}
	b := v.FillBytes(make([]byte, 32))
	for i := range out {
		out[i] = b[31-i]
	}
	return out, true
}

// sealIndependently: eph(32) | nonce(12) | ciphertext | tag(16) for the recipient, built without the library under test
func sealIndependently(rng *rand.Rand, recipient x25519.PublicKey, plaintext []byte) ([]byte, error) {
	ephPub, ephPriv, err := x25519.GenerateKey(rng)
	if err != nil {
		return nil, err
	}
	shared, err := ephPriv.SharedKey(recipient)
	if err != nil {
		return nil, err
	}
	var root [32]byte
	copy(root[:], shared)
	key, err := kdf.NewKeyDerivation(root).DeriveForPurpose(kdf.PurposeEncryptedLeaseSetEncryption)
	if err != nil {
		return nil, err
	}
	aead, err := xchacha.New(key[:])
	if err != nil {
		return nil, err
	}
	nonce := make([]byte, 12)
	rng.Read(nonce)
	out := append(append([]byte{}, ephPub...), nonce...)
	return aead.Seal(out, nonce, plaintext, nil), nil
}

func init() {
	// EncDec: encrypt a parsed LeaseSet2 to a fresh recipient key, decrypt with the matching key, with a wrong key,
	// and with the ciphertext modified at each given position (xor with each mask) and truncated.
	register("EncDec", func(s *Session, a Args) Res {
		rng := rand.New(rand.NewSource(s.Seed*31337 + int64(a.Int("stream"))))
		ls, _, err := lease_set2.ReadLeaseSet2(append([]byte{}, a.Bytes("in")...))
		if err != nil {
			return Res{"setup": false, "err": "parse: " + errStr(err)}
		}
		plain, err := ls.Bytes()
		if err != nil {
			return Res{"setup": false, "err": "bytes: " + errStr(err)}
		}
		pub, priv, err := x25519.GenerateKey(rng)
		if err != nil {
			return Res{"setup": false, "err": errStr(err)}
		}
		_, wrongPriv, _ := x25519.GenerateKey(rng)
		var cookie [32]byte
		rng.Read(cookie[:])
		var recipient any = pub
		switch a.Int("keyform") {
		case 1:
			recipient = []byte(pub)
		case 2:
			recipient = &pub
		}
		ctLive, err := encrypted_leaseset.EncryptInnerLeaseSet2(&ls, cookie, recipient)
		if err != nil {
			return Res{"setup": true, "enc_ok": false, "err": errStr(err)}
		}
		// the ciphertext is kept while the next encryption runs (straight away, nothing in between): it is still what it was, and the
		// second ciphertext is another one (fresh ephemeral key and nonce)
		ct := append([]byte{}, ctLive...)
		ct2Live, _ := encrypted_leaseset.EncryptInnerLeaseSet2(&ls, cookie, recipient)
		ct2 := append([]byte{}, ct2Live...)
		keptUnchanged := string(ctLive) == string(ct)
		seed := make([]byte, 32)
		rng.Read(seed)
		signer := stded.NewKeyFromSeed(seed)
		mkELS := func(inner []byte) (*encrypted_leaseset.EncryptedLeaseSet, error) {
			return encrypted_leaseset.NewEncryptedLeaseSet(11, signer[32:], 1700000000, 600, 0, nil, inner, signer)
		}
		decrypt := func(innerArg []byte, key any) (ok bool, same bool, nilValue bool) {
			// (every probe works on its own copy of the ciphertext: the constructor keeps the slice it is given)
			inner := append([]byte{}, innerArg...)
			els, err := mkELS(inner)
			if err != nil || els == nil {
				return false, false, true
			}
			out, err := els.DecryptInnerData(cookie[:], key)
			if err != nil {
				return false, false, out == nil
			}
			if out == nil {
				return true, false, true
			}
			b, berr := out.Bytes()
			return true, berr == nil && string(b) == string(plain), false
		}
		res := Res{"setup": true, "enc_ok": true, "plainlen": len(plain), "ctlen": len(ct)}
		ok, same, _ := decrypt(ct, priv)
		res["dec_ok"], res["dec_same"] = ok, same
		// the matching private key in the other forms DecryptInnerData documents: pointer and 32-byte slice
		okp, samep, _ := decrypt(ct, &priv)
		okb, sameb, _ := decrypt(ct, []byte(append([]byte{}, priv...)))
		res["dec_forms_same"] = okp && samep && okb && sameb
		// an independent sealing of the same layout (X25519, the dependency's HKDF purpose, ChaCha20-Poly1305 from x/crypto): what the
		// library decrypts is what a peer encrypted, and the plaintext a peer chose may carry bytes after the LeaseSet2
		craft := []any{}
		res["indep_sealed_decrypts"] = false
		for _, extra := range []int{0, 1, 3, 7, 8, 20} {
			pt := append(append([]byte{}, plain...), fillBytes(extra, 0xC3)...)
			sealed, serr := sealIndependently(rng, pub, pt)
			if serr != nil {
				continue
			}
			out := map[string]any{"extra": extra, "panicked": false, "ok": false, "same": false}
			func() {
				defer func() {
					if p := recover(); p != nil {
						out["panicked"] = true
					}
				}()
				okd, samed, _ := decrypt(sealed, priv)
				out["ok"], out["same"] = okd, samed
			}()
			if extra == 0 {
				res["indep_sealed_decrypts"] = out["ok"].(bool) && out["same"].(bool)
			}
			craft = append(craft, out)
		}
		res["craft"] = craft
		// one value, a history of calls: decryption (successful or refused) is a read-only operation on the EncryptedLeaseSet - the value
		// serialises, verifies and decrypts afterwards exactly as it did before, and the caller's ciphertext slice is left alone
		res["history_done"] = false
		inner := append([]byte{}, ct...)
		if els, herr := mkELS(inner); herr == nil && els != nil {
			ser0, _ := els.Bytes()
			ver0 := els.Verify() == nil
			step := func(key any) (bool, bool) {
				out, derr := els.DecryptInnerData(cookie[:], key)
				if derr != nil || out == nil {
					return false, false
				}
				b, berr := out.Bytes()
				return true, berr == nil && string(b) == string(plain)
			}
			ok1, same1 := step(priv)
			ser1, _ := els.Bytes()
			ver1 := els.Verify() == nil
			ok2, same2 := step(priv)
			okw, _ := step(wrongPriv)
			ok3, same3 := step(priv)
			ser3, _ := els.Bytes()
			ver3 := els.Verify() == nil
			res["history_done"] = true
			res["history_decrypts"] = ok1 && same1 && ok2 && same2 && !okw && ok3 && same3
			res["history_value_unchanged"] = string(ser1) == string(ser0) && string(ser3) == string(ser0) && ver0 && ver1 && ver3
			res["history_caller_slice_unchanged"] = string(inner) == string(ct)
			// ... and after the wire
			res["history_reparsed_decrypts"] = false
			if p, _, perr := encrypted_leaseset.ReadEncryptedLeaseSet(append([]byte{}, ser3...)); perr == nil {
				if out, derr := p.DecryptInnerData(cookie[:], priv); derr == nil && out != nil {
					b, _ := out.Bytes()
					res["history_reparsed_decrypts"] = string(b) == string(plain) && p.Verify() == nil
				}
			}
		}
		ok, _, nv := decrypt(ct, wrongPriv)
		res["wrongkey_rejected"] = !ok && nv
		ok, _, nv = decrypt(ct, []byte(wrongPriv))
		res["wrongkey_bytes_rejected"] = !ok && nv
		// a second encryption of the same value differs (fresh ephemeral key and nonce) but decrypts to the same bytes
		ok2, same2, _ := decrypt(ct2, priv)
		res["second_same"] = ok2 && same2
		res["second_differs"] = string(ct2) != string(ct)
		res["first_kept_unchanged"] = keptUnchanged
		accepted := []any{}
		n := 0
		for _, p := range a.List("positions") {
			pos := int(p.(float64))
			if pos < 0 || pos >= len(ct) {
				continue
			}
			for _, mk := range a.List("masks") {
				m := append([]byte{}, ct...)
				m[pos] ^= byte(int(mk.(float64)))
				n++
				if ok, _, nv := decrypt(m, priv); ok || !nv {
					if len(accepted) < 20 {
						accepted = append(accepted, []any{pos, int(mk.(float64))})
					}
				}
			}
		}
		for _, cut := range a.List("cuts") {
			k := int(cut.(float64))
			if k >= 61 && k < len(ct) {
				n++
				if ok, _, nv := decrypt(ct[:k], priv); ok || !nv {
					accepted = append(accepted, []any{-k, 0})
				}
			}
		}
		res["nmods"], res["accepted_mods"] = n, accepted
		return res
	})
	// Blind: CreateBlindedDestination for a list of instants in given zones; the library's own check with the factor
	// derived for the UTC day the specification computed, with another day's factor and with a random factor.
	register("Blind", func(s *Session, a Args) Res {
		// (the process's local time zone must not matter: vectors may carry "localoffset", applied by runOp)
		rng := rand.New(rand.NewSource(s.Seed*271 + int64(a.Int("stream"))))
		base := append([]byte{}, a.Bytes("in")...)
		seed := make([]byte, 32)
		rng.Read(seed)
		key := stded.NewKeyFromSeed(seed)
		sl := slotOf(a, "idkey")
		if !put(base, sl, key[32:]) {
			return Res{"setup": false, "err": "key slot"}
		}
		dest, _, err := destination.ReadDestination(append([]byte{}, base...))
		if err != nil {
			return Res{"setup": false, "err": "parse: " + errStr(err)}
		}
		secret := a.Bytes("secret")
		var randomAlpha [32]byte
		rng.Read(randomAlpha[:])
		randomAlpha[31] &= 0x0f
		outs := []any{}
		for _, it := range a.List("instants") {
			im := Args(it.(map[string]any))
			t := time.Unix(int64(im.Int("sec")), 0).In(time.FixedZone("z", im.Int("tzsec")))
			b, err := encrypted_leaseset.CreateBlindedDestination(dest, secret, t)
			o := map[string]any{"ok": err == nil, "ser": []int{}, "check": false, "check_other": false, "check_random": false, "err": errStr(err)}
			if err == nil {
				ser, _ := b.Bytes()
				o["ser"] = ints(ser)
				if alpha, aerr := kdf.DeriveBlindingFactor(secret, string(im.Bytes("day"))); aerr == nil {
					o["check"] = encrypted_leaseset.VerifyBlindedSignature(b, dest, alpha)
				}
				if alpha2, aerr := kdf.DeriveBlindingFactor(secret, string(im.Bytes("otherday"))); aerr == nil {
					o["check_other"] = encrypted_leaseset.VerifyBlindedSignature(b, dest, alpha2)
				}
				o["check_random"] = encrypted_leaseset.VerifyBlindedSignature(b, dest, randomAlpha)
				// other 32-byte strings that denote the same scalar modulo the group order (alpha + k*L): still "another factor"
				o["check_equivalent"] = false
				if alpha, aerr := kdf.DeriveBlindingFactor(secret, string(im.Bytes("day"))); aerr == nil {
					for k := int64(1); k <= 15; k++ {
						if eq, ok := scalarPlusL(alpha, k); ok && encrypted_leaseset.VerifyBlindedSignature(b, dest, eq) {
							o["check_equivalent"] = true
						}
					}
				}
			}
			outs = append(outs, o)
		}
		return Res{"setup": true, "orig": ints(base), "outs": outs}
	})
}
