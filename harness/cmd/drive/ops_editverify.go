package main

import (
	"reflect"
)

// Edit-after-verify (C05): the value a parser returned is verified (anything the library memoises is now warm), then one
// byte that is reachable from the value through its public surface - exported fields and the results of argument-free
// accessors, followed through pointers, slices, arrays and exported fields - is changed in place.  When the value's OWN
// serialisation changed with it and the signature is, by the independent decision, not valid over that serialisation,
// Verify() on the value must no longer succeed.  The byte is put back afterwards.

type bytePlace struct {
	name string
	b    reflect.Value // a []byte-kind slice that can be written through
}

func safeCall(m reflect.Value) (out []reflect.Value, ok bool) {
	defer func() {
		if recover() != nil {
			out, ok = nil, false
		}
	}()
	return m.Call(nil), true
}

func reachBytes(v reflect.Value, name string, depth int, methods bool, out *[]bytePlace) {
	if depth > 5 || len(*out) >= 60 || !v.IsValid() {
		return
	}
	switch v.Kind() {
	case reflect.Pointer, reflect.Interface:
		if !v.IsNil() {
			reachBytes(v.Elem(), name, depth, methods, out)
			if methods && v.Kind() == reflect.Pointer {
				reachMethods(v, name, depth, out)
			}
		}
	case reflect.Slice:
		if v.Type().Elem().Kind() == reflect.Uint8 {
			if v.Len() > 0 {
				*out = append(*out, bytePlace{name, v})
			}
			return
		}
		for i := 0; i < v.Len() && i < 3; i++ {
			reachBytes(v.Index(i), name+"[]", depth+1, methods, out)
		}
	case reflect.Array:
		if v.Type().Elem().Kind() == reflect.Uint8 {
			if v.CanAddr() && v.Len() > 0 {
				*out = append(*out, bytePlace{name, v.Slice(0, v.Len())})
			}
			return
		}
		for i := 0; i < v.Len() && i < 3; i++ {
			reachBytes(v.Index(i), name+"[]", depth+1, methods, out)
		}
	case reflect.Struct:
		t := v.Type()
		for i := 0; i < t.NumField(); i++ {
			if t.Field(i).IsExported() {
				reachBytes(v.Field(i), name+"."+t.Field(i).Name, depth+1, methods, out)
			}
		}
		if methods && !v.CanAddr() {
			reachMethods(v, name, depth, out)
		}
	}
}

func reachMethods(v reflect.Value, name string, depth int, out *[]bytePlace) {
	if depth > 2 {
		return
	}
	t := v.Type()
	for i := 0; i < t.NumMethod(); i++ {
		mt := t.Method(i)
		if mt.Type.NumIn() != 1 || mt.Type.NumOut() == 0 || mt.Name == "Bytes" || mt.Name == "Verify" || mt.Name == "VerifySignature" {
			continue
		}
		switch mt.Type.Out(0).Kind() {
		case reflect.Pointer, reflect.Slice, reflect.Struct, reflect.Interface:
		default:
			continue
		}
		res, ok := safeCall(v.Method(i))
		if !ok || len(res) == 0 {
			continue
		}
		reachBytes(res[0], name+"."+mt.Name+"()", depth+1, depth < 1, out)
	}
}

func valueSer(v reflect.Value) ([]byte, bool) {
	m := v.MethodByName("Bytes")
	if !m.IsValid() || m.Type().NumIn() != 0 {
		return nil, false
	}
	res, ok := safeCall(m)
	if !ok || len(res) == 0 || res[0].Kind() != reflect.Slice || res[0].Type().Elem().Kind() != reflect.Uint8 {
		return nil, false
	}
	if len(res) > 1 && !res[1].IsNil() {
		return nil, false
	}
	return append([]byte{}, res[0].Bytes()...), true
}

func valueVerify(v reflect.Value) (bool, bool) {
	for _, name := range []string{"Verify", "VerifySignature"} {
		m := v.MethodByName(name)
		if m.IsValid() && m.Type().NumIn() == 0 {
			res, ok := safeCall(m)
			if !ok {
				return false, false
			}
			return verifySuccess(res), true
		}
	}
	return false, false
}

// editAfterVerify: authentic decides independently whether a serialisation of unchanged length carries valid signatures
func editAfterVerify(fn string, signed []byte, a Args, authentic func([]byte) bool) map[string]any {
	r := map[string]any{"done": false, "nplaces": 0, "neffective": 0, "stale": []any{}}
	rd, ok := readers[fn]
	if !ok {
		return r
	}
	o := rd(append([]byte{}, signed...), a)
	if !o.OK || o.Val == nil {
		return r
	}
	v := reflect.ValueOf(o.Val)
	if v.Kind() != reflect.Pointer {
		p := reflect.New(v.Type())
		p.Elem().Set(v)
		v = p
	}
	ser0, sok := valueSer(v)
	ver0, vok := valueVerify(v)
	if !sok || !vok || !ver0 || string(ser0) != string(signed) {
		return r
	}
	var places []bytePlace
	reachBytes(v, "v", 0, true, &places)
	stale := []any{}
	neff := 0
	for _, pl := range places {
		for _, idx := range []int{0, pl.b.Len() - 1} {
			e := pl.b.Index(idx)
			if !e.CanSet() {
				continue
			}
			old := e.Uint()
			e.SetUint(old ^ 1)
			ser1, ok1 := valueSer(v)
			if ok1 && len(ser1) == len(signed) && string(ser1) != string(signed) && !authentic(ser1) {
				neff++
				if good, called := valueVerify(v); called && good && len(stale) < 8 {
					stale = append(stale, map[string]any{"place": pl.name, "index": idx})
				}
			}
			e.SetUint(old)
			if idx == pl.b.Len()-1 {
				break
			}
		}
	}
	r["done"], r["nplaces"], r["neffective"], r["stale"] = true, len(places), neff, stale
	return r
}
