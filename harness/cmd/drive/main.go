// Command drive replays TLC-generated behaviours (one JSON vector per line)
// against the go-i2p/common library built from /repo's working tree and
// records one ndjson event per API call, at the call's return.
//
// The driver contains no knowledge of the wire layout: offsets, sizes, cut
// points, regions and expected values all come from the TLA+ specification
// (generation) or are judged by it (trace validation).
package main

import (
	"bufio"
	"bytes"
	"encoding/json"
	"flag"
	"fmt"
	"os"
	"runtime"
	"runtime/debug"
	"sort"
	"sync"
	"time"
)

type Args map[string]any
type Res map[string]any

// Session is the driver side of one TLC behaviour.
type Session struct {
	Sid  int
	Seed int64
	Vals map[string]any    // live library values by handle name
	Bufs map[string][]byte // caller-owned buffers by name
}

type OpFunc func(s *Session, a Args) Res

var ops = map[string]OpFunc{}

func register(name string, f OpFunc) { ops[name] = f }

var deadline = 5 * time.Second

// ints renders bytes as a JSON array of numbers (TLC reads it as a sequence).
func ints(b []byte) []int {
	out := make([]int, len(b))
	for i, x := range b {
		out[i] = int(x)
	}
	return out
}

func (a Args) Str(k string) string {
	if v, ok := a[k].(string); ok {
		return v
	}
	return ""
}

func (a Args) Int(k string) int {
	switch v := a[k].(type) {
	case float64:
		return int(v)
	case int:
		return v
	}
	return 0
}

func (a Args) Bool(k string) bool {
	v, _ := a[k].(bool)
	return v
}

func toBytes(v any) []byte {
	arr, ok := v.([]any)
	if !ok {
		return []byte{}
	}
	out := make([]byte, len(arr))
	for i, x := range arr {
		f, _ := x.(float64)
		out[i] = byte(int(f))
	}
	return out
}

func (a Args) Bytes(k string) []byte { return toBytes(a[k]) }

func (a Args) List(k string) []any {
	v, _ := a[k].([]any)
	return v
}

func (a Args) Has(k string) bool { _, ok := a[k]; return ok }

// runOp executes one op under recover() and a deadline.
func runOp(s *Session, a Args) (res Res) {
	f, ok := ops[a.Str("op")]
	if !ok {
		return Res{"panic": false, "hang": false, "unknown_op": true}
	}
	// process-level state that must not matter: an op may ask for a local time zone (time.Local is process-wide, so such ops are
	// serialised among themselves; the lock is taken before the deadline starts to run)
	if a.Has("localoffset") {
		localZoneMu.Lock()
		defer localZoneMu.Unlock()
		saved := time.Local
		time.Local = time.FixedZone("local", a.Int("localoffset"))
		defer func() { time.Local = saved }()
	}
	type out struct {
		r   Res
		pan string
	}
	ch := make(chan out, 1)
	go func() {
		defer func() {
			if p := recover(); p != nil {
				buf := make([]byte, 2048)
				n := runtime.Stack(buf, false)
				ch <- out{nil, fmt.Sprintf("%v\n%s", p, buf[:n])}
			}
		}()
		ch <- out{f(s, a), ""}
	}()
	select {
	case o := <-ch:
		if o.pan != "" {
			return Res{"panic": true, "hang": false, "msg": o.pan}
		}
		if o.r == nil {
			o.r = Res{}
		}
		o.r["panic"] = false
		o.r["hang"] = false
		return o.r
	case <-time.After(opDeadline(a.Str("op"))):
		return Res{"panic": false, "hang": true}
	}
}

// sweep ops make thousands of library calls, each under its own per-call deadline
var longOps = map[string]bool{"ConcurrentSign": true, "ApiSweep": true, "ConcurrentVerify": true, "SignedMutSweep": true, "Chain": true, "ByteSweep": true, "CrossSweep": true, "MappingBodies": true, "RandomSweep": true, "CodeSweep": true, "PartialMethods": true, "ZeroMethods": true,
	"Sweep": true, "Concurrent": true, "EncRange": true, "DecChunks": true, "TextEncChunks": true, "TextDecMutate": true, "TextGuard": true, "TextBig": true, "Tables": true}

func opDeadline(op string) time.Duration {
	if longOps[op] {
		return 30 * time.Minute
	}
	return deadline
}

func main() {
	in := flag.String("in", "", "vectors ndjson")
	out := flag.String("out", "", "trace ndjson")
	workers := flag.Int("workers", runtime.NumCPU(), "parallel sessions")
	seed := flag.Int64("seed", 1, "seed")
	dl := flag.Int("deadline_ms", 5000, "per call deadline")
	jn := flag.String("journal", "", "journal of started / finished ops (lets the runner attribute a fatal runtime error to a call)")
	flag.Parse()
	if *jn != "" {
		if jf, err := os.OpenFile(*jn, os.O_CREATE|os.O_WRONLY|os.O_APPEND|os.O_TRUNC, 0o644); err == nil {
			journal = jf
		}
	}
	deadline = time.Duration(*dl) * time.Millisecond
	// runaway recursion ends in a fatal error after 64 MB of stack rather than the default 1 GB (16 workers could exhaust memory first)
	debug.SetMaxStack(64 << 20)
	initKeys(*seed)

	f, err := os.Open(*in)
	if err != nil {
		fmt.Fprintln(os.Stderr, "drive:", err)
		os.Exit(2)
	}
	defer f.Close()
	var vectors []map[string]any
	sc := bufio.NewScanner(f)
	sc.Buffer(make([]byte, 1<<20), 1<<30)
	for sc.Scan() {
		line := sc.Bytes()
		if len(line) == 0 {
			continue
		}
		var v map[string]any
		if err := json.Unmarshal(line, &v); err != nil {
			fmt.Fprintln(os.Stderr, "drive: bad vector:", err)
			os.Exit(2)
		}
		vectors = append(vectors, v)
	}
	results := make([][]string, len(vectors))
	var wg sync.WaitGroup
	jobs := make(chan int)
	for w := 0; w < *workers; w++ {
		wg.Add(1)
		go func() {
			defer wg.Done()
			for i := range jobs {
				results[i] = runVector(vectors[i], *seed)
			}
		}()
	}
	for i := range vectors {
		jobs <- i
	}
	close(jobs)
	wg.Wait()

	o, err := os.Create(*out)
	if err != nil {
		fmt.Fprintln(os.Stderr, "drive:", err)
		os.Exit(2)
	}
	w := bufio.NewWriterSize(o, 1<<20)
	n := 0
	for _, evs := range results {
		for _, e := range evs {
			w.WriteString(e)
			w.WriteByte('\n')
			n++
		}
	}
	w.Flush()
	o.Close()
	fmt.Fprintf(os.Stderr, "drive: %d vectors, %d events\n", len(vectors), n)
}

// journal: one line when an op starts and one when it has returned.  A fatal runtime error (concurrent map writes, stack
// exhaustion) cannot be recovered, takes the whole process down and leaves no trace file; the ops that had started and not
// finished are then the candidates the runner re-drives one by one.
var journal *os.File
var journalMu sync.Mutex

func note(what string, sid, seq int) {
	if journal == nil {
		return
	}
	journalMu.Lock()
	fmt.Fprintf(journal, "%s %d %d\n", what, sid, seq)
	journalMu.Unlock()
}

func runVector(v map[string]any, seed int64) []string {
	sid := Args(v).Int("sid")
	s := &Session{Sid: sid, Seed: seed, Vals: map[string]any{}, Bufs: map[string][]byte{}}
	if bufs, ok := v["bufs"].(map[string]any); ok {
		names := make([]string, 0, len(bufs))
		for k := range bufs {
			names = append(names, k)
		}
		sort.Strings(names)
		for _, k := range names {
			s.Bufs[k] = toBytes(bufs[k])
		}
	}
	var evs []string
	opsList, _ := v["ops"].([]any)
	for i, o := range opsList {
		a, _ := o.(map[string]any)
		ev := map[string]any{}
		for k, x := range a {
			ev[k] = x
		}
		ev["sid"] = sid
		ev["seq"] = i + 1
		note("S", sid, i+1)
		ev["r"] = runOp(s, Args(a))
		note("E", sid, i+1)
		b, err := json.Marshal(ev)
		if err == nil && bytes.Contains(b, []byte("null")) {
			// TLC's JSON reader has no null: absent values are empty arrays
			var generic any
			if json.Unmarshal(b, &generic) == nil {
				b, err = json.Marshal(denull(generic))
			}
		}
		if err != nil {
			b, _ = json.Marshal(map[string]any{"sid": sid, "seq": i + 1, "op": a["op"], "fn": a["fn"],
				"r": Res{"panic": false, "hang": false, "marshal_error": err.Error()}})
		}
		evs = append(evs, string(b))
	}
	return evs
}

func denull(v any) any {
	switch x := v.(type) {
	case nil:
		return []any{}
	case map[string]any:
		for k, e := range x {
			x[k] = denull(e)
		}
		return x
	case []any:
		for i, e := range x {
			x[i] = denull(e)
		}
		return x
	}
	return v
}
