package main

import (
	"bytes"
	"sync"

	"github.com/go-i2p/common/data"
)

// Chain: a sequence of calls whose returned byte slices are all KEPT (the slices themselves, as a caller would keep
// them) while the later calls run.  Afterwards every kept slice is compared with the copy taken when it was returned
// (a result must not be overwritten by a later call), then garbage is appended into the spare capacity of every kept
// slice (which a caller is free to do) and the whole sequence is run again: every result must come out as before.
// Before the last round the kept slices themselves are overwritten: freshly obtained results must still be right.
// All calls run on this goroutine, several rounds, so that recycled buffers actually get recycled.
type chainCall func() ([]byte, bool)

func runChain(calls []chainCall, rounds int) Res {
	changed, differs, spare := map[int]bool{}, map[int]bool{}, 0
	n := len(calls)
	firstCopy := make([][]byte, n)
	firstOK := make([]bool, n)
	for round := 0; round < rounds; round++ {
		kept := make([][]byte, n)
		copies := make([][]byte, n)
		oks := make([]bool, n)
		for i, c := range calls {
			b, ok := c()
			kept[i], oks[i] = b, ok
			copies[i] = append([]byte{}, b...)
		}
		for i := range calls {
			if !bytes.Equal(kept[i], copies[i]) {
				changed[i] = true
			}
			if round == 0 {
				firstCopy[i], firstOK[i] = copies[i], oks[i]
			} else if oks[i] != firstOK[i] || !bytes.Equal(copies[i], firstCopy[i]) {
				differs[i] = true
			}
		}
		// the caller writes into what it was given (last round only: the slices are the caller's; a value obtained AFTERWARDS must not care)
		if round == rounds-2 {
			for i := range kept {
				for k := range kept[i] {
					kept[i][k] ^= 0xFF
				}
			}
		}
		// the caller appends to what it was given
		for i := range kept {
			if b := kept[i]; cap(b) > len(b) {
				if round == 0 {
					spare++
				}
				ext := b[len(b):cap(b)]
				for k := range ext {
					ext[k] = 0xAA
				}
			}
		}
	}
	// finally several goroutines make the same calls at the same time: every answer must be the one obtained alone
	// (pure functions share no scratch state; run before the kept slices are looked at again)
	var cm sync.Mutex
	concurrentBad := map[int]bool{}
	var wg sync.WaitGroup
	gate := make(chan struct{})
	for g := 0; g < 8; g++ {
		wg.Add(1)
		go func(g int) {
			defer wg.Done()
			defer func() { recover() }()
			<-gate
			for r := 0; r < 40; r++ {
				for k := range calls {
					i := (k + g*3 + r) % n
					b, ok := calls[i]()
					if ok != firstOK[i] || !bytes.Equal(b, firstCopy[i]) {
						cm.Lock()
						concurrentBad[i] = true
						cm.Unlock()
					}
				}
			}
		}(g)
	}
	close(gate)
	wg.Wait()
	idx := func(m map[int]bool) []int {
		out := []int{}
		for i := 0; i < n; i++ {
			if m[i] {
				out = append(out, i+1)
			}
		}
		return out
	}
	first := []any{}
	for i := range calls {
		first = append(first, map[string]any{"ok": firstOK[i], "out": ints(firstCopy[i])})
	}
	return Res{"ncalls": n * rounds, "changed": idx(changed), "differs": idx(differs), "spare": spare, "first": first, "concurrent_bad": idx(concurrentBad)}
}

func init() {
	register("Chain", func(s *Session, a Args) Res {
		var calls []chainCall
		for _, it := range a.List("items") {
			im := Args(it.(map[string]any))
			switch a.Str("kind") {
			case "textdec":
				pkg, fn, in := im.Str("pkg"), im.Str("fn"), string(im.Bytes("in"))
				calls = append(calls, func() ([]byte, bool) { ok, b := textDec(pkg, fn, in); return b, ok })
			case "mapping":
				m, _ := pairsToMap(im, "pairs")
				calls = append(calls, func() ([]byte, bool) {
					mp, err := data.GoMapToMapping(m)
					if err != nil || mp == nil {
						return nil, false
					}
					return mp.Data(), true
				})
			case "ser":
				// parse (private copy of the bytes), then the value's own serialisation: the slice it hands out is what is kept
				fn, in := im.Str("fn"), im.Bytes("in")
				args := im
				calls = append(calls, func() ([]byte, bool) {
					rd, ok := readers[fn]
					if !ok {
						return nil, false
					}
					o := rd(append([]byte{}, in...), args)
					if !o.OK || !o.SerOK {
						return nil, false
					}
					return o.Ser, true
				})
			case "build":
				// a constructor call (the Build op's own code path) and the serialisation of what it returns
				bargs := im
				calls = append(calls, func() ([]byte, bool) {
					r := buildOnce(s, bargs)
					delete(r, "#val")
					ok, _ := r["ok"].(bool)
					sok, _ := r["serok"].(bool)
					if !ok || !sok {
						return nil, false
					}
					si, _ := r["ser"].([]int)
					out := make([]byte, len(si))
					for k, x := range si {
						out[k] = byte(x)
					}
					return out, true
				})
			case "int":
				fn, v, sz := im.Str("fn"), im.Int("value"), im.Int("size")
				calls = append(calls, func() ([]byte, bool) { ok, b := encInt(fn, v, sz); return b, ok })
			case "intdec":
				fn, in := im.Str("fn"), im.Bytes("in")
				calls = append(calls, func() ([]byte, bool) {
					ok, v := decInt(fn, append([]byte{}, in...))
					return be8(v), ok
				})
			case "string":
				fn, in := im.Str("fn"), string(im.Bytes("in"))
				calls = append(calls, func() ([]byte, bool) {
					var st data.I2PString
					var err error
					if fn == "NewI2PString" {
						st, err = data.NewI2PString(in)
					} else {
						st, err = data.ToI2PString(in)
					}
					return []byte(st), err == nil
				})
			case "date":
				ms := u64(im.Bytes("ms"))
				calls = append(calls, func() ([]byte, bool) {
					d, err := data.NewDateFromMillis(int64(ms))
					if err != nil || d == nil {
						return nil, false
					}
					return d.Bytes(), true
				})
			}
		}
		if len(calls) == 0 {
			return Res{"ncalls": 0, "changed": []int{}, "differs": []int{}, "spare": 0, "first": []any{}, "concurrent_bad": []int{}}
		}
		return runChain(calls, 6)
	})
}
