package main

import (
	"bytes"
	"strings"

	"github.com/go-i2p/common/base32"
	"github.com/go-i2p/common/base64"
)

func textEnc(pkg, fn string, in []byte) (bool, string) {
	switch pkg + "." + fn {
	case "b32.EncodeToString":
		return true, base32.EncodeToString(in)
	case "b32.EncodeToStringNoPadding":
		return true, base32.EncodeToStringNoPadding(in)
	case "b32.EncodeToStringSafe":
		s, err := base32.EncodeToStringSafe(in)
		return err == nil, s
	case "b64.EncodeToString":
		return true, base64.EncodeToString(in)
	case "b64.EncodeToStringSafe":
		s, err := base64.EncodeToStringSafe(in)
		return err == nil, s
	}
	panic("unknown text encoder " + pkg + "." + fn)
}

func textDec(pkg, fn string, s string) (bool, []byte) {
	var b []byte
	var err error
	switch pkg + "." + fn {
	case "b32.DecodeString":
		b, err = base32.DecodeString(s)
	case "b32.DecodeStringNoPadding":
		b, err = base32.DecodeStringNoPadding(s)
	case "b32.DecodeStringSafe":
		b, err = base32.DecodeStringSafe(s)
	case "b32.DecodeStringSafeNoPadding":
		b, err = base32.DecodeStringSafeNoPadding(s)
	case "b64.DecodeString":
		b, err = base64.DecodeString(s)
	case "b64.DecodeStringSafe":
		b, err = base64.DecodeStringSafe(s)
	default:
		panic("unknown text decoder " + pkg + "." + fn)
	}
	if err != nil {
		return false, nil
	}
	return true, b
}

func init() {
	register("TextEnc", func(s *Session, a Args) Res {
		ok, out := textEnc(a.Str("pkg"), a.Str("fn"), a.Bytes("in"))
		return Res{"ok": ok, "out": ints([]byte(out))}
	})
	register("TextDec", func(s *Session, a Args) Res {
		ok, out := textDec(a.Str("pkg"), a.Str("fn"), string(a.Bytes("in")))
		return Res{"ok": ok, "out": ints(out)}
	})
	// every width-byte chunk of blob encoded; outputs concatenated (all have the same length)
	register("TextEncChunks", func(s *Session, a Args) Res {
		blob, w := a.Bytes("blob"), a.Int("width")
		var outs []byte
		n := 0
		allok := true
		for i := 0; i+w <= len(blob); i += w {
			ok, o := textEnc(a.Str("pkg"), a.Str("fn"), blob[i:i+w])
			allok = allok && ok
			outs = append(outs, o...)
			n++
		}
		return Res{"allok": allok, "n": n, "outs": ints(outs)}
	})
	// the character at pos replaced by each of the 256 byte values, decoded
	register("TextDecMutate", func(s *Session, a Args) Res {
		base := a.Bytes("in")
		pos := a.Int("pos")
		oks := make([]int, 256)
		var outs []byte
		for b := 0; b < 256; b++ {
			m := append([]byte{}, base...)
			m[pos] = byte(b)
			ok, o := textDec(a.Str("pkg"), a.Str("fn"), string(m))
			if ok {
				oks[b] = 1
				outs = append(outs, o...)
			}
		}
		return Res{"oks": oks, "outs": ints(outs)}
	})
	// size guards: n bytes (encoders) or n alphabet characters (decoders); content elided
	// TextBig: encode then decode a large input (pattern bytes; the length comes from the specification); only equality,
	// the output length and the alphabet are observed (the strings are far too long to pass through the trace)
	register("TextBig", func(s *Session, a Args) Res {
		n := a.Int("n")
		in := make([]byte, n)
		for i := range in {
			in[i] = byte(i*131 + i/251 + 7)
		}
		ok, enc := textEnc(a.Str("pkg"), a.Str("fn"), in)
		if !ok {
			return Res{"enc_ok": false, "outlen": 0, "dec_ok": false, "equal": false, "alphabet_ok": false}
		}
		alpha := "abcdefghijklmnopqrstuvwxyz234567="
		if a.Str("pkg") == "b64" {
			alpha = "ABCDEFGHIJKLMNOPQRSTUVWXYZabcdefghijklmnopqrstuvwxyz0123456789-~="
		}
		alphaOK := true
		for i := 0; i < len(enc); i++ {
			if !strings.ContainsRune(alpha, rune(enc[i])) {
				alphaOK = false
				break
			}
		}
		dok, dec := textDec(a.Str("pkg"), a.Str("dec"), enc)
		return Res{"enc_ok": true, "outlen": len(enc), "dec_ok": dok, "equal": dok && bytes.Equal(dec, in), "alphabet_ok": alphaOK}
	})
	register("TextGuard", func(s *Session, a Args) Res {
		n := a.Int("n")
		if strings.HasPrefix(a.Str("fn"), "Encode") {
			ok, out := textEnc(a.Str("pkg"), a.Str("fn"), make([]byte, n))
			return Res{"ok": ok, "outlen": len(out)}
		}
		ch := "a"
		if a.Str("pkg") == "b64" {
			ch = "A"
		}
		in := strings.Repeat(ch, n)
		// line breaks count towards the documented size limit like any other byte of the string
		if k := a.Int("crlf"); k > 0 {
			switch a.Str("crlfpos") {
			case "start":
				in = strings.Repeat("\n", k) + in
			case "middle":
				in = in[:n/2] + strings.Repeat("\r\n", k/2) + strings.Repeat("\n", k%2) + in[n/2:]
			default:
				in = in + strings.Repeat("\n", k)
			}
		}
		ok, out := textDec(a.Str("pkg"), a.Str("fn"), in)
		return Res{"ok": ok, "outlen": len(out), "inlen": len(in)}
	})
}
