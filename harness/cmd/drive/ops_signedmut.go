package main

import (
	"fmt"
	"reflect"
)

// SignedMutSweep: "mutate, then sign".  Every offset of the covered region of a signed skeleton is set to each boundary
// value (and each 16-bit boundary value) BEFORE keys and signatures are put into the slots, so the result is genuinely
// signed content with one structural defect.  Whatever the parser then returns TOGETHER WITH an error must not verify,
// and its argument-free methods must return normally (C20); what it accepts must verify only if authentic (C05 keeps
// judging that elsewhere).
func init() {
	register("SignedMutSweep", func(s *Session, a Args) Res {
		rd, ok := readers[a.Str("fn")]
		if !ok {
			return Res{"unknown_fn": true}
		}
		base := a.Bytes("base")
		sigslot := slotOf(a, "sig")
		n, npartial, nverified, ncalls := 0, 0, 0, 0
		bad := []any{}
		try := func(what string, mut []byte) {
			n++
			args := Args{}
			for k, v := range a {
				args[k] = v
			}
			args["base"] = intsAny(mut)
			signed, serr := buildSigned(s, args)
			if serr != "" {
				return
			}
			var o ReadOut
			if msg := guarded(func() { o = rd(append([]byte{}, signed...), a) }); msg != "" {
				if len(bad) < 10 {
					bad = append(bad, map[string]any{"what": what, "site": "parser", "msg": trunc(msg, 500)})
				}
				return
			}
			if o.OK || o.Val == nil {
				return
			}
			v := reflect.ValueOf(o.Val)
			if v.Kind() == reflect.Pointer && v.IsNil() {
				return
			}
			npartial++
			for _, mo := range callAllMethods(v) {
				ncalls++
				switch {
				case mo.Panicked:
					if len(bad) < 10 {
						bad = append(bad, map[string]any{"what": what, "site": "partial method " + mo.Method, "msg": trunc(mo.Msg, 500)})
					}
				case mo.Hung:
					if len(bad) < 10 {
						bad = append(bad, map[string]any{"what": what, "site": "partial method " + mo.Method, "msg": "hang"})
					}
				case mo.IsVerify && mo.VerifySuccess:
					nverified++
					if len(bad) < 10 {
						bad = append(bad, map[string]any{"what": what, "site": "partial verify " + mo.Method, "msg": "verification succeeded on a value returned with an error: " + o.Err})
					}
				}
			}
		}
		step := a.Int("step")
		if step < 1 {
			step = 1
		}
		limit := sigslot.off
		if limit > len(base) {
			limit = len(base)
		}
		for off := 0; off < limit; off += step {
			for _, val := range a.List("values") {
				m := append([]byte{}, base...)
				m[off] = byte(int(val.(float64)))
				if m[off] == base[off] {
					continue
				}
				try(fmt.Sprintf("byte@%d=%d", off, m[off]), m)
			}
			if off+1 < limit {
				for _, val := range a.List("values2") {
					x := int(val.(float64))
					m := append([]byte{}, base...)
					m[off], m[off+1] = byte(x>>8), byte(x)
					try(fmt.Sprintf("u16@%d=%d", off, x), m)
				}
			}
		}
		// multi-byte defects named by the specification (e.g. the second option key overwritten with the first: a duplicate key)
		for i, pt := range a.List("patches") {
			pm := Args(pt.(map[string]any))
			o, b := pm.Int("off"), pm.Bytes("bytes")
			if o < 0 || o+len(b) > limit {
				continue
			}
			m := append([]byte{}, base...)
			copy(m[o:], b)
			try(fmt.Sprintf("patch#%d@%d", i, o), m)
		}
		return Res{"n": n, "npartial": npartial, "nverified": nverified, "ncalls": ncalls, "bad": bad}
	})
}

func trunc(s string, n int) string {
	if len(s) > n {
		return s[:n]
	}
	return s
}

func intsAny(b []byte) []any {
	out := make([]any, len(b))
	for i, x := range b {
		out[i] = float64(x)
	}
	return out
}
