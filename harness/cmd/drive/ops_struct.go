package main

import (
	"strings"

	"github.com/go-i2p/common/certificate"
	"github.com/go-i2p/common/data"
	"github.com/go-i2p/common/destination"
	"github.com/go-i2p/common/key_certificate"
	"github.com/go-i2p/common/keys_and_cert"
	"github.com/go-i2p/common/router_identity"
)

// ---- projections through public accessors only -------------------------------------------

func accCert(c *certificate.Certificate) map[string]any {
	if c == nil {
		return map[string]any{"nil": true}
	}
	t, terr := c.Type()
	l, lerr := c.Length()
	d, derr := c.Data()
	gs, gserr := certificate.GetSignatureTypeFromCertificate(*c)
	gc, gcerr := certificate.GetCryptoTypeFromCertificate(*c)
	return map[string]any{"nil": false, "type": t, "type_ok": terr == nil, "len": l, "len_ok": lerr == nil,
		"data": ints(d), "data_ok": derr == nil, "raw": ints(c.RawBytes()), "excess": ints(c.ExcessBytes()),
		"bytes": ints(c.Bytes()), "valid": c.IsValid(),
		"getsig": gs, "getsig_ok": gserr == nil, "getcrypto": gc, "getcrypto_ok": gcerr == nil}
}

func accKeyCert(k *key_certificate.KeyCertificate) map[string]any {
	if k == nil {
		return map[string]any{"nil": true}
	}
	cps, cpsErr := k.CryptoPublicKeySize()
	d, _ := k.Data()
	m := accCert(&k.Certificate)
	m["st"] = k.SigningPublicKeyType()
	m["ct"] = k.PublicKeyType()
	m["sigsize"] = k.SignatureSize()
	m["cryptosize"] = k.CryptoSize()
	m["spksize"] = k.SigningPublicKeySize()
	m["cpksize"] = cps
	m["cpksize_ok"] = cpsErr == nil
	m["kcdata"] = ints(d)
	// keys constructed from a full 256-byte encryption-key field / a 128-byte signing-key field / an exact-size signing key
	field256, field128 := fillBytes(256, 40), fillBytes(128, 90)
	m["field256"], m["field128"] = ints(field256), ints(field128)
	if pk, err := k.ConstructPublicKey(field256); err == nil && pk != nil {
		m["cpk_ok"], m["cpk"] = true, ints(pk.Bytes())
	} else {
		m["cpk_ok"], m["cpk"] = false, []int{}
	}
	_, shortErr := k.ConstructPublicKey(field256[:255])
	m["cpk_short_rejected"] = shortErr != nil
	if sk, err := k.ConstructSigningPublicKey(field128); err == nil && sk != nil {
		m["cspk128_ok"], m["cspk128"] = true, ints(sk.Bytes())
	} else {
		m["cspk128_ok"], m["cspk128"] = false, []int{}
	}
	m["cspk_exact_ok"], m["cspk_exact"] = false, []int{}
	if n := k.SigningPublicKeySize(); n > 0 && n <= 128 {
		if sk, err := k.ConstructSigningPublicKey(field128[:n]); err == nil && sk != nil {
			m["cspk_exact_ok"], m["cspk_exact"] = true, ints(sk.Bytes())
		}
		_, e := k.ConstructSigningPublicKey(field128[:n-1])
		m["cspk_short_rejected"] = e != nil
	} else {
		m["cspk_short_rejected"] = true
	}
	return m
}

func accKAC(k *keys_and_cert.KeysAndCert) map[string]any {
	if k == nil {
		return map[string]any{"nil": true}
	}
	m := map[string]any{"nil": false, "valid": k.IsValid()}
	pk, e1 := k.PublicKey()
	sk, e2 := k.SigningPublicKey()
	m["pub_ok"], m["spk_ok"] = e1 == nil && pk != nil, e2 == nil && sk != nil
	m["pub"], m["spk"] = []int{}, []int{}
	if e1 == nil && pk != nil {
		m["pub"] = ints(pk.Bytes())
		m["publen"] = pk.Len()
	}
	if e2 == nil && sk != nil {
		m["spk"] = ints(sk.Bytes())
		m["spklen"] = sk.Len()
	}
	m["padding"] = ints(k.Padding)
	if k.KeyCertificate != nil {
		m["st"] = k.KeyCertificate.SigningPublicKeyType()
		m["ct"] = k.KeyCertificate.PublicKeyType()
		m["cert"] = ints(k.Certificate().Bytes())
		ct, _ := k.Certificate().Type()
		m["certtype"] = ct
	} else {
		m["st"], m["ct"], m["cert"], m["certtype"] = -1, -1, []int{}, -1
	}
	return m
}

func accDest(d *destination.Destination) map[string]any {
	if d == nil || d.KeysAndCert == nil {
		return map[string]any{"nil": true}
	}
	m := accKAC(d.KeysAndCert)
	h, herr := d.Hash()
	b32, e32 := d.Base32Address()
	b64, e64 := d.Base64()
	m["hash"], m["hash_ok"] = ints(h[:]), herr == nil
	m["b32"], m["b32_ok"] = ints([]byte(b32)), e32 == nil
	m["b64"], m["b64_ok"] = ints([]byte(b64)), e64 == nil
	return m
}

func accMapping(m *data.Mapping, errs []error) map[string]any {
	out := map[string]any{}
	var pairs [][]any
	if m != nil {
		for _, p := range m.Values() {
			pairs = append(pairs, []any{ints(p[0]), ints(p[1])})
		}
	}
	if pairs == nil {
		pairs = [][]any{}
	}
	out["pairs"] = pairs
	es := []string{}
	for _, e := range errs {
		es = append(es, errStr(e))
	}
	out["errs"] = es
	out["nerr"] = len(errs)
	return out
}

// mappingAccepted: the []error of ReadMapping is empty, or contains only the documented
// warning that bytes follow the mapping (which is the normal case for an embedded mapping).
func mappingAccepted(errs []error) bool {
	for _, e := range errs {
		if !strings.Contains(e.Error(), "data exists beyond length of mapping") {
			return false
		}
	}
	return true
}

func kacOut(k *keys_and_cert.KeysAndCert, rem []byte, err error) ReadOut {
	o := ReadOut{OK: err == nil && k != nil, Val: k, Rem: rem, HasRem: true, Err: errStr(err)}
	if o.OK {
		b, e := k.Bytes()
		o.Ser, o.SerOK = b, e == nil
		o.Acc = accKAC(k)
	}
	return o
}

func init() {
	regReader("ReadCertificate", func(in []byte, a Args) ReadOut {
		c, rem, err := certificate.ReadCertificate(in)
		o := ReadOut{OK: err == nil && c != nil, Val: c, Rem: rem, HasRem: true, Err: errStr(err)}
		if o.OK {
			o.Ser, o.SerOK = c.Bytes(), true
			o.Acc = accCert(c)
		}
		return o
	})
	regReader("NewKeyCertificate", func(in []byte, a Args) ReadOut {
		k, rem, err := key_certificate.NewKeyCertificate(in)
		o := ReadOut{OK: err == nil && k != nil, Val: k, Rem: rem, HasRem: true, Err: errStr(err)}
		if o.OK {
			o.Ser, o.SerOK = k.Certificate.Bytes(), true
			o.Acc = accKeyCert(k)
		}
		return o
	})
	regReader("KeyCertificateFromCertificate", func(in []byte, a Args) ReadOut {
		c, rem, err := certificate.ReadCertificate(in)
		if err != nil || c == nil {
			return ReadOut{OK: false, Rem: rem, HasRem: true, Err: errStr(err)}
		}
		k, err := key_certificate.KeyCertificateFromCertificate(c)
		o := ReadOut{OK: err == nil && k != nil, Val: k, Rem: rem, HasRem: true, Err: errStr(err)}
		if o.OK {
			o.Ser, o.SerOK = k.Certificate.Bytes(), true
			o.Acc = accKeyCert(k)
		}
		return o
	})
	regReader("ReadKeysAndCert", func(in []byte, a Args) ReadOut {
		return kacOut(keys_and_cert.ReadKeysAndCert(in))
	})
	regReader("ReadKeysAndCertElgAndEd25519", func(in []byte, a Args) ReadOut {
		return kacOut(keys_and_cert.ReadKeysAndCertElgAndEd25519(in))
	})
	regReader("ReadKeysAndCertX25519AndEd25519", func(in []byte, a Args) ReadOut {
		return kacOut(keys_and_cert.ReadKeysAndCertX25519AndEd25519(in))
	})
	regReader("ReadDestination", func(in []byte, a Args) ReadOut {
		d, rem, err := destination.ReadDestination(in)
		o := ReadOut{OK: err == nil, Val: &d, Rem: rem, HasRem: true, Err: errStr(err)}
		if o.OK {
			b, e := d.Bytes()
			o.Ser, o.SerOK = b, e == nil
			o.Acc = accDest(&d)
		}
		return o
	})
	regReader("NewDestinationFromBytes", func(in []byte, a Args) ReadOut {
		d, rem, err := destination.NewDestinationFromBytes(in)
		o := ReadOut{OK: err == nil && d != nil, Val: d, Rem: rem, HasRem: true, Err: errStr(err)}
		if o.OK {
			b, e := d.Bytes()
			o.Ser, o.SerOK = b, e == nil
			o.Acc = accDest(d)
		}
		return o
	})
	regReader("NewDestination(ReadKeysAndCert)", func(in []byte, a Args) ReadOut {
		k, rem, err := keys_and_cert.ReadKeysAndCert(in)
		if err != nil || k == nil {
			return ReadOut{OK: false, Rem: rem, HasRem: true, Err: errStr(err)}
		}
		d, err := destination.NewDestination(k)
		o := ReadOut{OK: err == nil && d != nil, Val: d, Rem: rem, HasRem: true, Err: errStr(err)}
		if o.OK {
			b, e := d.Bytes()
			o.Ser, o.SerOK = b, e == nil
			o.Acc = accDest(d)
		}
		return o
	})
	riOut := func(ri *router_identity.RouterIdentity, rem []byte, err error) ReadOut {
		o := ReadOut{OK: err == nil && ri != nil, Val: ri, Rem: rem, HasRem: true, Err: errStr(err)}
		if o.OK && ri.KeysAndCert != nil {
			b, e := ri.KeysAndCert.Bytes()
			o.Ser, o.SerOK = b, e == nil
			d := ri.AsDestination()
			o.Acc = accDest(&d)
		}
		return o
	}
	regReader("ReadRouterIdentity", func(in []byte, a Args) ReadOut {
		return riOut(router_identity.ReadRouterIdentity(in))
	})
	regReader("NewRouterIdentityFromBytes", func(in []byte, a Args) ReadOut {
		return riOut(router_identity.NewRouterIdentityFromBytes(in))
	})
	regReader("NewRouterIdentityFromKeysAndCert(ReadKeysAndCert)", func(in []byte, a Args) ReadOut {
		k, rem, err := keys_and_cert.ReadKeysAndCert(in)
		if err != nil || k == nil {
			return ReadOut{OK: false, Rem: rem, HasRem: true, Err: errStr(err)}
		}
		ri, err := router_identity.NewRouterIdentityFromKeysAndCert(k)
		return riOut(ri, rem, err)
	})
	regReader("ReadMapping", func(in []byte, a Args) ReadOut {
		m, rem, errs := data.ReadMapping(in)
		o := ReadOut{OK: mappingAccepted(errs), Val: &m, Rem: rem, HasRem: true, Err: errStr(data.WrapErrors(errs))}
		o.Ser, o.SerOK = m.Data(), true
		if m.Data() == nil {
			o.OK = false
		}
		o.Acc = accMapping(&m, errs)
		return o
	})
	regReader("NewMapping", func(in []byte, a Args) ReadOut {
		m, rem, errs := data.NewMapping(in)
		o := ReadOut{OK: mappingAccepted(errs) && m != nil, Val: m, Rem: rem, HasRem: true, Err: errStr(data.WrapErrors(errs))}
		if m != nil {
			o.Ser, o.SerOK = m.Data(), true
			if m.Data() == nil {
				o.OK = false
			}
		}
		o.Acc = accMapping(m, errs)
		return o
	})
}
