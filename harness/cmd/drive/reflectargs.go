package main

import (
	"fmt"
	"reflect"
	"runtime"
	"time"
)

// Argument domains for exported methods that take arguments (C04: "every exported method then invoked on a value
// that was returned without error also returns normally").  Only the argument values are invented here; what is
// called is whatever the method set of the value contains.
var intDomain = []int64{-1, 0, 1, 2, 3, 7, 255, 256, 65535, 65536, 1 << 31, -(1 << 31), 1<<62 + 5}
var uintDomain = []uint64{0, 1, 2, 4, 7, 255, 256, 65535, 1<<32 - 1, 1<<64 - 1}
var bytesDomain = [][]byte{nil, {}, {0}, {1, 'a'}, {5, 'a'}, {4, 'h', 'o', 's', 't'}, fillBytes(16, 3), fillBytes(32, 4), fillBytes(64, 5), fillBytes(96, 6),
	fillBytes(128, 7), fillBytes(256, 8), fillBytes(391, 9)}
var stringDomain = []string{"", "a", "host", "port", "caps", "ih0", "\x00", string(fillBytes(255, 'k')), string(fillBytes(256, 'k'))}

func fillBytes(n int, b byte) []byte {
	out := make([]byte, n)
	for i := range out {
		out[i] = b + byte(i)
	}
	return out
}

// candidates for one parameter type; nil = cannot synthesise (method skipped and reported as such)
func argCandidates(t reflect.Type, recv reflect.Value) []reflect.Value {
	var out []reflect.Value
	switch t.Kind() {
	case reflect.Int, reflect.Int8, reflect.Int16, reflect.Int32, reflect.Int64:
		for _, x := range intDomain {
			v := reflect.New(t).Elem()
			v.SetInt(x) // wraps for the narrow kinds, which is fine: any value of the type is admissible
			out = append(out, v)
		}
	case reflect.Uint, reflect.Uint8, reflect.Uint16, reflect.Uint32, reflect.Uint64:
		for _, x := range uintDomain {
			v := reflect.New(t).Elem()
			v.SetUint(x)
			out = append(out, v)
		}
	case reflect.Bool:
		out = append(out, reflect.ValueOf(false).Convert(t), reflect.ValueOf(true).Convert(t))
	case reflect.String:
		for _, s := range stringDomain {
			out = append(out, reflect.ValueOf(s).Convert(t))
		}
	case reflect.Slice:
		if t.Elem().Kind() == reflect.Uint8 {
			for _, b := range bytesDomain {
				if b == nil {
					out = append(out, reflect.Zero(t))
				} else {
					out = append(out, reflect.ValueOf(append([]byte{}, b...)).Convert(t))
				}
			}
		} else {
			out = append(out, reflect.Zero(t), reflect.MakeSlice(t, 0, 0))
		}
	case reflect.Interface:
		out = append(out, reflect.Zero(t))
		if t.NumMethod() == 0 {
			for _, x := range []any{[]byte{}, fillBytes(32, 1), [32]byte{}, 7, "x"} {
				v := reflect.New(t).Elem()
				v.Set(reflect.ValueOf(x))
				out = append(out, v)
			}
		}
	case reflect.Pointer:
		out = append(out, reflect.Zero(t), reflect.New(t.Elem()))
		if recv.IsValid() {
			if recv.Type() == t {
				out = append(out, recv)
			} else if recv.Kind() != reflect.Pointer && recv.Type() == t.Elem() && recv.CanAddr() {
				out = append(out, recv.Addr())
			}
		}
	case reflect.Struct, reflect.Array:
		out = append(out, reflect.Zero(t))
		if recv.IsValid() {
			if recv.Type() == t {
				out = append(out, recv)
			} else if recv.Kind() == reflect.Pointer && !recv.IsNil() && recv.Type().Elem() == t {
				out = append(out, recv.Elem())
			}
		}
	default:
		return nil
	}
	return out
}

const maxCombosPerMethod = 60

// callArgMethods invokes every exported method of v that takes arguments, with combinations of the candidate
// arguments (at most maxCombosPerMethod per method, spread over the product), each under recover() and a deadline.
// Methods are called on v itself: anything they change is changed through the value's own public API.
func callArgMethods(v reflect.Value) (outs []methodOutcome, skipped []string) {
	t := v.Type()
	for i := 0; i < t.NumMethod(); i++ {
		m := t.Method(i)
		nin := m.Type.NumIn() - 1
		if nin < 1 || m.Type.IsVariadic() {
			continue
		}
		cands := make([][]reflect.Value, nin)
		total := 1
		ok := true
		for k := 0; k < nin; k++ {
			cands[k] = argCandidates(m.Type.In(k+1), v)
			if len(cands[k]) == 0 {
				ok = false
				break
			}
			total *= len(cands[k])
		}
		if !ok {
			skipped = append(skipped, m.Name)
			continue
		}
		stride := 1
		if total > maxCombosPerMethod {
			stride = total/maxCombosPerMethod + 1
		}
		for c := 0; c < total; c += stride {
			args := make([]reflect.Value, nin)
			x := c
			desc := ""
			for k := 0; k < nin; k++ {
				idx := x % len(cands[k])
				args[k] = cands[k][idx]
				x /= len(cands[k])
				desc += fmt.Sprintf("#%d", idx)
			}
			mo := methodOutcome{Method: m.Name + "(" + desc + ")"}
			ch := make(chan string, 1)
			go func() {
				defer func() {
					if p := recover(); p != nil {
						buf := make([]byte, 1500)
						n := runtime.Stack(buf, false)
						ch <- fmt.Sprintf("%v\n%s", p, buf[:n])
					}
				}()
				v.Method(i).Call(args)
				ch <- ""
			}()
			select {
			case r := <-ch:
				if r != "" {
					mo.Panicked, mo.Msg = true, r
				}
			case <-time.After(deadline):
				mo.Hung = true
			}
			outs = append(outs, mo)
		}
	}
	return
}
