package main

import (
	"encoding/binary"
	"time"

	"github.com/go-i2p/common/data"
	"github.com/go-i2p/common/encrypted_leaseset"
	"github.com/go-i2p/common/lease"
	"github.com/go-i2p/common/lease_set"
	"github.com/go-i2p/common/lease_set2"
	"github.com/go-i2p/common/meta_leaseset"
	"github.com/go-i2p/common/offline_signature"
	"github.com/go-i2p/common/router_address"
	"github.com/go-i2p/common/router_info"
	"github.com/go-i2p/common/session_key"
	"github.com/go-i2p/common/session_tag"
	"github.com/go-i2p/common/signature"
)

func be4(v uint32) []int {
	b := make([]byte, 4)
	binary.BigEndian.PutUint32(b, v)
	return ints(b)
}

// timeOut renders a time.Time as exact Unix seconds (8-byte magnitude + sign) and nanoseconds.
func timeOut(t time.Time) map[string]any {
	mag, neg := sintOut(t.Unix())
	return map[string]any{"sec": mag, "neg": neg, "ns": t.Nanosecond()}
}

func accSig(s *signature.Signature) map[string]any {
	if s == nil {
		return map[string]any{"nil": true}
	}
	return map[string]any{"nil": false, "type": s.Type(), "len": s.Len(), "bytes": ints(s.Bytes()), "valid": s.IsValid()}
}

func accOffline(o *offline_signature.OfflineSignature) map[string]any {
	if o == nil {
		return map[string]any{"nil": true}
	}
	return map[string]any{"nil": false, "expires": be4(o.Expires()), "tst": int(o.TransientSigType()), "dst": int(o.DestinationSigType()),
		"tkey": ints(o.TransientPublicKey()), "sig": ints(o.Signature()), "bytes": ints(o.Bytes()), "len": o.Len(),
		"signed": ints(o.SignedData()), "expires_time": timeOut(o.ExpiresTime())}
}

func accLease(l lease.Lease) map[string]any {
	gw := l.TunnelGateway()
	d := l.Date()
	return map[string]any{"gw": ints(gw[:]), "tid": be4(l.TunnelID()), "date": ints(d[:]), "time": timeOut(l.Time()), "bytes": ints(l.Bytes())}
}

func accLease2(l lease.Lease2) map[string]any {
	gw := l.TunnelGateway()
	d := l.Date()
	return map[string]any{"gw": ints(gw[:]), "tid": be4(l.TunnelID()), "end": be4(l.EndDate()), "date": ints(d[:]), "time": timeOut(l.Time()), "bytes": ints(l.Bytes())}
}

func pairsOf(m data.Mapping) [][]any {
	out := [][]any{}
	for _, p := range m.Values() {
		out = append(out, []any{ints(p[0]), ints(p[1])})
	}
	return out
}

func accRouterAddress(ra *router_address.RouterAddress) map[string]any {
	if ra == nil {
		return map[string]any{"nil": true}
	}
	m := map[string]any{"nil": false, "cost": ra.Cost(), "style": ints(ra.TransportStyle()), "bytes": ints(ra.Bytes())}
	exp := ra.Expiration()
	m["expiration"] = ints(exp[:])
	m["pairs"] = pairsOf(ra.Options())
	return m
}

func accRouterInfo(ri *router_info.RouterInfo) map[string]any {
	m := map[string]any{"nil": false}
	if id := ri.RouterIdentity(); id != nil && id.KeysAndCert != nil {
		b, _ := id.KeysAndCert.Bytes()
		m["identity"] = ints(b)
		m["st"] = id.KeysAndCert.KeyCertificate.SigningPublicKeyType()
		m["ct"] = id.KeysAndCert.KeyCertificate.PublicKeyType()
	} else {
		m["identity"], m["st"], m["ct"] = []int{}, -1, -1
	}
	if p := ri.Published(); p != nil {
		m["published"] = ints(p[:])
	} else {
		m["published"] = []int{}
	}
	m["naddr"] = ri.RouterAddressCount()
	addrs := []any{}
	for _, a := range ri.RouterAddresses() {
		addrs = append(addrs, accRouterAddress(a))
	}
	m["addrs"] = addrs
	m["peersize"] = ri.PeerSize()
	m["pairs"] = pairsOf(ri.Options())
	s := ri.Signature()
	m["sig"] = accSig(&s)
	h, herr := ri.IdentHash()
	m["identhash"], m["identhash_ok"] = ints(h[:]), herr == nil
	// capability / version accessors and the queries derived from them (C02 accessor predicate, extension family X01)
	m["caps"] = ints([]byte(ri.RouterCapabilities()))
	m["version"] = ints([]byte(ri.RouterVersion()))
	gv, gverr := ri.GoodVersion()
	m["q"] = map[string]any{
		"floodfill": ri.IsFloodfill(), "medium": ri.IsMediumCongested(), "high": ri.IsHighCongested(), "rejecting": ri.IsRejectingTunnels(),
		"uncongested": ri.UnCongested(), "reachable": ri.Reachable(), "bw": ints([]byte(ri.SharedBandwidthCategory())),
		"bwflags": []any{ri.IsLowBandwidthRouter(), ri.IsMediumLowBandwidthRouter(), ri.IsMediumBandwidthRouter(),
			ri.IsMediumHighBandwidthRouter(), ri.IsHighBandwidthRouter(), ri.IsUnlimitedBandwidthRouter()},
		"ntcp2": ri.SupportsNTCP2(), "ssu2": ri.SupportsSSU2(), "ipv4": ri.HasIPv4(), "ipv6": ri.HasIPv6(),
		"goodversion": gv, "goodversion_err": gverr != nil,
	}
	return m
}

func accLS2Keys(keys []lease_set2.EncryptionKey) []any {
	out := []any{}
	for _, k := range keys {
		out = append(out, map[string]any{"type": int(k.KeyType), "len": int(k.KeyLen), "data": ints(k.KeyData)})
	}
	return out
}

func init() {
	regReader("ReadLease", func(in []byte, a Args) ReadOut {
		l, rem, err := lease.ReadLease(in)
		o := ReadOut{OK: err == nil, Val: l, Ser: l.Bytes(), SerOK: true, Rem: rem, HasRem: true, Err: errStr(err)}
		if o.OK {
			o.Acc = accLease(l)
		}
		return o
	})
	regReader("NewLeaseFromBytes", func(in []byte, a Args) ReadOut {
		l, rem, err := lease.NewLeaseFromBytes(in)
		o := ReadOut{OK: err == nil && l != nil, Val: l, Rem: rem, HasRem: true, Err: errStr(err)}
		if o.OK {
			o.Ser, o.SerOK = l.Bytes(), true
			o.Acc = accLease(*l)
		}
		return o
	})
	regReader("ReadLease2", func(in []byte, a Args) ReadOut {
		l, rem, err := lease.ReadLease2(in)
		o := ReadOut{OK: err == nil, Val: l, Ser: l.Bytes(), SerOK: true, Rem: rem, HasRem: true, Err: errStr(err)}
		if o.OK {
			o.Acc = accLease2(l)
		}
		return o
	})
	regReader("NewLease2FromBytes", func(in []byte, a Args) ReadOut {
		l, rem, err := lease.NewLease2FromBytes(in)
		o := ReadOut{OK: err == nil && l != nil, Val: l, Rem: rem, HasRem: true, Err: errStr(err)}
		if o.OK {
			o.Ser, o.SerOK = l.Bytes(), true
			o.Acc = accLease2(*l)
		}
		return o
	})
	regReader("ReadSignature", func(in []byte, a Args) ReadOut {
		s, rem, err := signature.ReadSignature(in, a.Int("typ"))
		o := ReadOut{OK: err == nil, Val: &s, Rem: rem, HasRem: true, Err: errStr(err)}
		if o.OK {
			o.Ser, o.SerOK = s.Bytes(), true
			o.Acc = accSig(&s)
		}
		return o
	})
	regReader("NewSignature", func(in []byte, a Args) ReadOut {
		s, rem, err := signature.NewSignature(in, a.Int("typ"))
		o := ReadOut{OK: err == nil && s != nil, Val: s, Rem: rem, HasRem: true, Err: errStr(err)}
		if o.OK {
			o.Ser, o.SerOK = s.Bytes(), true
			o.Acc = accSig(s)
		}
		return o
	})
	// NewSignatureFromBytes takes exactly one signature (no remainder).
	regReader("NewSignatureFromBytes", func(in []byte, a Args) ReadOut {
		s, err := signature.NewSignatureFromBytes(in, a.Int("typ"))
		o := ReadOut{OK: err == nil, Val: &s, HasRem: false, Err: errStr(err)}
		if o.OK {
			o.Ser, o.SerOK = s.Bytes(), true
			o.Acc = accSig(&s)
		}
		return o
	})
	regReader("ReadOfflineSignature", func(in []byte, a Args) ReadOut {
		os, rem, err := offline_signature.ReadOfflineSignature(in, uint16(a.Int("typ")))
		o := ReadOut{OK: err == nil, Val: &os, Rem: rem, HasRem: true, Err: errStr(err)}
		if o.OK {
			o.Ser, o.SerOK = os.Bytes(), true
			o.Acc = accOffline(&os)
		}
		return o
	})
	regReader("ReadRouterAddress", func(in []byte, a Args) ReadOut {
		ra, rem, err := router_address.ReadRouterAddress(in)
		o := ReadOut{OK: err == nil, Val: &ra, Rem: rem, HasRem: true, Err: errStr(err)}
		if o.OK {
			o.Ser, o.SerOK = ra.Bytes(), true
			o.Acc = accRouterAddress(&ra)
		}
		return o
	})
	regReader("ReadRouterInfo", func(in []byte, a Args) ReadOut {
		ri, rem, err := router_info.ReadRouterInfo(in)
		o := ReadOut{OK: err == nil, Val: &ri, Rem: rem, HasRem: true, Err: errStr(err)}
		if o.OK {
			b, e := ri.Bytes()
			o.Ser, o.SerOK = b, e == nil
			o.Acc = accRouterInfo(&ri)
		}
		return o
	})
	regReader("ReadLeaseSet", func(in []byte, a Args) ReadOut {
		ls, err := lease_set.ReadLeaseSet(in)
		o := ReadOut{OK: err == nil, Val: &ls, HasRem: false, Err: errStr(err)}
		if o.OK {
			b, e := ls.Bytes()
			o.Ser, o.SerOK = b, e == nil
			d := ls.Destination()
			m := map[string]any{"nil": false, "dest": accDest(&d), "n": ls.LeaseCount()}
			pk, e1 := ls.PublicKey()
			m["enc"], m["enc_ok"] = ints(pk[:]), e1 == nil
			sk, e2 := ls.SigningKey()
			m["spk_ok"] = e2 == nil && sk != nil
			m["spk"] = []int{}
			if e2 == nil && sk != nil {
				m["spk"] = ints(sk.Bytes())
			}
			leases := []any{}
			for _, l := range ls.Leases() {
				leases = append(leases, accLease(l))
			}
			m["leases"] = leases
			s := ls.Signature()
			m["sig"] = accSig(&s)
			o.Acc = m
		}
		return o
	})
	regReader("ReadDestinationFromLeaseSet", func(in []byte, a Args) ReadOut {
		d, rem, err := lease_set.ReadDestinationFromLeaseSet(in)
		o := ReadOut{OK: err == nil, Val: &d, Rem: rem, HasRem: true, Err: errStr(err)}
		if o.OK {
			b, e := d.Bytes()
			o.Ser, o.SerOK = b, e == nil
			o.Acc = accDest(&d)
		}
		return o
	})
	regReader("ReadLeaseSet2", func(in []byte, a Args) ReadOut {
		ls, rem, err := lease_set2.ReadLeaseSet2(in)
		o := ReadOut{OK: err == nil, Val: &ls, Rem: rem, HasRem: true, Err: errStr(err)}
		if o.OK {
			b, e := ls.Bytes()
			o.Ser, o.SerOK = b, e == nil
			d := ls.Destination()
			m := map[string]any{"nil": false, "dest": accDest(&d), "published": be4(ls.Published()), "expires": int(ls.Expires()),
				"flags": int(ls.Flags()), "hasoff": ls.HasOfflineKeys(), "unpub": ls.IsUnpublished(), "blinded": ls.IsBlinded(),
				"off": accOffline(ls.OfflineSignature()), "pairs": pairsOf(ls.Options()), "nk": ls.EncryptionKeyCount(),
				"keys": accLS2Keys(ls.EncryptionKeys()), "nl": ls.LeaseCount(), "published_time": timeOut(ls.PublishedTime()),
				"expiration_time": timeOut(ls.ExpirationTime())}
			leases := []any{}
			for _, l := range ls.Leases() {
				leases = append(leases, accLease2(l))
			}
			m["leases"] = leases
			s := ls.Signature()
			m["sig"] = accSig(&s)
			o.Acc = m
		}
		return o
	})
	regReader("ReadMetaLeaseSet", func(in []byte, a Args) ReadOut {
		ls, rem, err := meta_leaseset.ReadMetaLeaseSet(in)
		o := ReadOut{OK: err == nil, Val: &ls, Rem: rem, HasRem: true, Err: errStr(err)}
		if o.OK {
			b, e := ls.Bytes()
			o.Ser, o.SerOK = b, e == nil
			d := ls.Destination()
			m := map[string]any{"nil": false, "dest": accDest(&d), "published": be4(ls.Published()), "expires": int(ls.Expires()),
				"flags": int(ls.Flags()), "hasoff": ls.HasOfflineKeys(), "unpub": ls.IsUnpublished(),
				"off": accOffline(ls.OfflineSignature()), "pairs": pairsOf(ls.Options()), "ne": ls.NumEntries(),
				"published_time": timeOut(ls.PublishedTime()), "expiration_time": timeOut(ls.ExpirationTime())}
			entries := []any{}
			for _, en := range ls.Entries() {
				en := en
				h := en.Hash()
				eb, _ := en.Bytes()
				entries = append(entries, map[string]any{"hash": ints(h[:]), "type": int(en.Type()), "expires": be4(en.Expires()),
					"cost": int(en.Cost()), "pairs": pairsOf(en.Properties()), "bytes": ints(eb), "expires_time": timeOut(en.ExpiresTime())})
			}
			m["entries"] = entries
			// indexed and by-type lookups (index range and the type codes are judged by the specification)
			ge := []any{}
			for i := -2; i <= len(ls.Entries())+1; i++ {
				en, err := ls.GetEntry(i)
				eb, _ := en.Bytes()
				ge = append(ge, map[string]any{"i": i, "ok": err == nil, "bytes": ints(eb)})
			}
			m["getentry"] = ge
			bt := []any{}
			for _, t := range []uint8{0, 1, 3, 5, 7, 255} {
				var bs []any
				for _, en := range ls.FindEntriesByType(t) {
					eb, _ := en.Bytes()
					bs = append(bs, ints(eb))
				}
				if bs == nil {
					bs = []any{}
				}
				bt = append(bt, map[string]any{"t": int(t), "entries": bs})
			}
			m["bytype"] = bt
			s := ls.Signature()
			m["sig"] = accSig(&s)
			o.Acc = m
		}
		return o
	})
	regReader("ReadEncryptedLeaseSet", func(in []byte, a Args) ReadOut {
		ls, rem, err := encrypted_leaseset.ReadEncryptedLeaseSet(in)
		o := ReadOut{OK: err == nil, Val: &ls, Rem: rem, HasRem: true, Err: errStr(err)}
		if o.OK {
			b, e := ls.Bytes()
			o.Ser, o.SerOK = b, e == nil
			m := map[string]any{"nil": false, "st": int(ls.SigType()), "bkey": ints(ls.BlindedPublicKey()), "published": be4(ls.Published()),
				"expires": int(ls.Expires()), "flags": int(ls.Flags()), "hasoff": ls.HasOfflineKeys(), "unpub": ls.IsUnpublished(),
				"off": accOffline(ls.OfflineSignature()), "innerlen": int(ls.InnerLength()), "inner": ints(ls.EncryptedInnerData()),
				"published_time": timeOut(ls.PublishedTime()), "expiration_time": timeOut(ls.ExpirationTime())}
			s := ls.Signature()
			m["sig"] = accSig(&s)
			o.Acc = m
		}
		return o
	})
	regReader("ReadSessionKey", func(in []byte, a Args) ReadOut {
		k, rem, err := session_key.ReadSessionKey(in)
		return ReadOut{OK: err == nil, Val: k, Ser: k.Bytes(), SerOK: true, Rem: rem, HasRem: true, Err: errStr(err)}
	})
	regReader("NewSessionKey", func(in []byte, a Args) ReadOut {
		k, rem, err := session_key.NewSessionKey(in)
		o := ReadOut{OK: err == nil && k != nil, Val: k, Rem: rem, HasRem: true, Err: errStr(err)}
		if o.OK {
			o.Ser, o.SerOK = k.Bytes(), true
		}
		return o
	})
	regReader("ReadSessionTag", func(in []byte, a Args) ReadOut {
		k, rem, err := session_tag.ReadSessionTag(in)
		return ReadOut{OK: err == nil, Val: k, Ser: k.Bytes(), SerOK: true, Rem: rem, HasRem: true, Err: errStr(err)}
	})
	regReader("NewSessionTag", func(in []byte, a Args) ReadOut {
		k, rem, err := session_tag.NewSessionTag(in)
		o := ReadOut{OK: err == nil && k != nil, Val: k, Rem: rem, HasRem: true, Err: errStr(err)}
		if o.OK {
			o.Ser, o.SerOK = k.Bytes(), true
		}
		return o
	})
	regReader("NewSessionTagFromBytes", func(in []byte, a Args) ReadOut {
		k, err := session_tag.NewSessionTagFromBytes(in)
		return ReadOut{OK: err == nil, Val: k, Ser: k.Bytes(), SerOK: true, HasRem: false, Err: errStr(err)}
	})
	regReader("ReadECIESSessionTag", func(in []byte, a Args) ReadOut {
		k, rem, err := session_tag.ReadECIESSessionTag(in)
		return ReadOut{OK: err == nil, Val: k, Ser: k.Bytes(), SerOK: true, Rem: rem, HasRem: true, Err: errStr(err)}
	})
	regReader("NewECIESSessionTag", func(in []byte, a Args) ReadOut {
		k, rem, err := session_tag.NewECIESSessionTag(in)
		o := ReadOut{OK: err == nil && k != nil, Val: k, Rem: rem, HasRem: true, Err: errStr(err)}
		if o.OK {
			o.Ser, o.SerOK = k.Bytes(), true
		}
		return o
	})
	regReader("NewECIESSessionTagFromBytes", func(in []byte, a Args) ReadOut {
		k, err := session_tag.NewECIESSessionTagFromBytes(in)
		return ReadOut{OK: err == nil, Val: k, Ser: k.Bytes(), SerOK: true, HasRem: false, Err: errStr(err)}
	})
}
