package main

import (
	"encoding/hex"
	"fmt"
	"os"
	"path/filepath"
	"reflect"
	"sort"
	"strings"
	"sync"
	"time"

	"github.com/go-i2p/common/certificate"
	"github.com/go-i2p/common/destination"
	"github.com/go-i2p/common/key_certificate"
	"github.com/go-i2p/common/keys_and_cert"
	"github.com/go-i2p/common/router_identity"
)

// render: a comparable text form of a method's results (no addresses).
func render(vs []reflect.Value) string {
	var parts []string
	for _, v := range vs {
		parts = append(parts, renderOne(v, 0))
	}
	return strings.Join(parts, "|")
}

func renderOne(v reflect.Value, depth int) string {
	if !v.IsValid() {
		return "<invalid>"
	}
	if depth > 3 {
		return "<deep>"
	}
	if v.Type().Implements(errorType) {
		if v.IsNil() {
			return "err:nil"
		}
		return "err:set"
	}
	if t, ok := v.Interface().(time.Time); ok {
		return fmt.Sprintf("time:%d.%d", t.Unix(), t.Nanosecond())
	}
	switch v.Kind() {
	case reflect.Bool, reflect.Int, reflect.Int8, reflect.Int16, reflect.Int32, reflect.Int64, reflect.Uint, reflect.Uint8, reflect.Uint16, reflect.Uint32, reflect.Uint64, reflect.String:
		return fmt.Sprintf("%v", v.Interface())
	case reflect.Slice, reflect.Array:
		if v.Type().Elem().Kind() == reflect.Uint8 {
			b := make([]byte, v.Len())
			for i := range b {
				b[i] = byte(v.Index(i).Uint())
			}
			return "x" + hex.EncodeToString(b)
		}
		var parts []string
		for i := 0; i < v.Len() && i < 40; i++ {
			parts = append(parts, renderOne(v.Index(i), depth+1))
		}
		return "[" + strings.Join(parts, ",") + "]"
	case reflect.Pointer, reflect.Interface:
		if v.IsNil() {
			return "nil"
		}
		if m := v.MethodByName("Bytes"); m.IsValid() && m.Type().NumIn() == 0 {
			return "bytes:" + render(m.Call(nil))
		}
		return renderOne(v.Elem(), depth+1)
	case reflect.Struct:
		if m := v.MethodByName("Bytes"); m.IsValid() && m.Type().NumIn() == 0 {
			return "bytes:" + render(m.Call(nil))
		}
		return "<" + v.Type().String() + ">"
	}
	return "<" + v.Kind().String() + ">"
}

// read-only argument-free methods (mutators and generators excluded by name)
func readOnlyMethods(v reflect.Value) []int {
	var idx []int
	t := v.Type()
	for i := 0; i < t.NumMethod(); i++ {
		m := t.Method(i)
		if m.Type.NumIn() != 1 {
			continue
		}
		if strings.HasPrefix(m.Name, "Set") || strings.HasPrefix(m.Name, "Add") || strings.HasPrefix(m.Name, "With") || m.Name == "Build" || m.Name == "IsExpired" {
			continue
		}
		idx = append(idx, i)
	}
	return idx
}

func tablesSnapshot() string {
	var parts []string
	for k, v := range key_certificate.SigningKeySizes {
		parts = append(parts, fmt.Sprintf("s%d:%v", k, v))
	}
	for k, v := range key_certificate.CryptoKeySizes {
		parts = append(parts, fmt.Sprintf("c%d:%v", k, v))
	}
	for k, v := range key_certificate.CryptoPublicKeySizes {
		parts = append(parts, fmt.Sprintf("p%d:%v", k, v))
	}
	for k, v := range key_certificate.SignaturePublicKeySizes {
		parts = append(parts, fmt.Sprintf("q%d:%v", k, v))
	}
	sort.Strings(parts)
	return strings.Join(parts, ";")
}

func certOf(v any) *certificate.Certificate {
	switch x := v.(type) {
	case *certificate.Certificate:
		return x
	case *key_certificate.KeyCertificate:
		if x != nil {
			return &x.Certificate
		}
	}
	if c, ok := v.(interface {
		Certificate() *certificate.Certificate
	}); ok {
		return c.Certificate()
	}
	return nil
}

// literalise: the same identity as a struct literal over the exported fields, the way a caller would write it down
func literalise(val any) any {
	lit := func(k *keys_and_cert.KeysAndCert) *keys_and_cert.KeysAndCert {
		if k == nil {
			return nil
		}
		n := &keys_and_cert.KeysAndCert{KeyCertificate: k.KeyCertificate, ReceivingPublic: k.ReceivingPublic, SigningPublic: k.SigningPublic}
		for _, b := range k.Padding {
			if b != 0 {
				n.Padding = append([]byte{}, k.Padding...)
				break
			}
		}
		return n
	}
	switch x := val.(type) {
	case *keys_and_cert.KeysAndCert:
		return lit(x)
	case *destination.Destination:
		return &destination.Destination{KeysAndCert: lit(x.KeysAndCert)}
	case *router_identity.RouterIdentity:
		return &router_identity.RouterIdentity{KeysAndCert: lit(x.KeysAndCert)}
	}
	return val
}

func raceLogSize() int64 {
	dir := os.Getenv("VERIF_RACE_DIR")
	if dir == "" {
		return 0
	}
	var n int64
	files, _ := filepath.Glob(filepath.Join(dir, "race.*"))
	for _, f := range files {
		if st, err := os.Stat(f); err == nil {
			n += st.Size()
		}
	}
	return n
}

func raceLogTail() string {
	dir := os.Getenv("VERIF_RACE_DIR")
	files, _ := filepath.Glob(filepath.Join(dir, "race.*"))
	out := ""
	for _, f := range files {
		b, _ := os.ReadFile(f)
		out += string(b)
	}
	if len(out) > 1500 {
		out = out[len(out)-1500:]
	}
	return out
}

func init() {
	// Concurrent: N goroutines call every read-only method of one shared value (and the size lookups), reps times,
	// released together; every result is compared with the sequential result; the value and the package-level
	// tables are observed before and after; data-race reports of the Go race detector are attributed to the event.
	register("Concurrent", func(s *Session, a Args) Res {
		rd, ok := readers[a.Str("fn")]
		if !ok {
			return Res{"unknown_fn": true}
		}
		in := a.Bytes("in")
		if a.Bool("signed") {
			// a structure that really verifies: the specification's skeleton with real keys and signatures in its slots
			sb, serr := buildSigned(s, a)
			if serr != "" {
				return Res{"parsed": false, "err": "signing: " + serr}
			}
			in = sb
		}
		raceBefore := raceLogSize()
		// phase 0: the same bytes are parsed (and projected through the accessors) by several goroutines at once, each on its own
		// copy: the values are distinct, whatever they touch in common is package-level state.  Three of the results are kept: the
		// shared value of the later phases, an untouched reference for the field-level comparison, and the control.
		np := a.Int("n")
		if np < 3 {
			np = 3
		}
		parsed := make([]ReadOut, np)
		var pw sync.WaitGroup
		pgate := make(chan struct{})
		for g := 0; g < np; g++ {
			pw.Add(1)
			go func(g int) {
				defer pw.Done()
				defer func() { recover() }()
				<-pgate
				if cold, okc := coldReaders[a.Str("fn")]; okc && a.Bool("bare") {
					// the library's parser and nothing else: no method of the shared value has run when the goroutines get it
					// (a write that only the FIRST serialisation makes is otherwise over before anything is shared)
					val, perr := cold(append([]byte{}, in...))
					parsed[g] = ReadOut{OK: val != nil && (perr == nil || a.Bool("recovered")), Val: val, Err: errStr(perr)}
					return
				}
				parsed[g] = rd(append([]byte{}, in...), a)
			}(g)
		}
		close(pgate)
		pw.Wait()
		o, ref1, ref2 := parsed[0], parsed[1], parsed[2]
		if !o.OK || o.Val == nil {
			return Res{"parsed": false, "err": o.Err}
		}
		if a.Bool("literal") {
			// the shared value is one the CALLER assembled from the exported fields (no padding slice when the padding is all zero,
			// no caches): read-only calls have to leave such a value alone just the same
			o.Val, ref1.Val, ref2.Val = literalise(o.Val), literalise(ref1.Val), literalise(ref2.Val)
		}
		v := reflect.ValueOf(o.Val)
		methods := readOnlyMethods(v)
		// calls with arguments (read-only by name): two argument tuples each
		type argCall struct {
			idx  int
			args []reflect.Value
			name string
		}
		var argCalls []argCall
		for i := 0; i < v.Type().NumMethod(); i++ {
			m := v.Type().Method(i)
			nin := m.Type.NumIn() - 1
			if nin < 1 || m.Type.IsVariadic() || strings.HasPrefix(m.Name, "Set") || strings.HasPrefix(m.Name, "Add") || strings.HasPrefix(m.Name, "With") || strings.HasPrefix(m.Name, "Decrypt") {
				continue
			}
			for pick := 0; pick < 3; pick++ {
				args := make([]reflect.Value, nin)
				okc := true
				for k := 0; k < nin; k++ {
					c := argCandidates(m.Type.In(k+1), v)
					if len(c) == 0 {
						okc = false
						break
					}
					args[k] = c[(pick*5+1+k)%len(c)]
				}
				if okc {
					argCalls = append(argCalls, argCall{i, args, m.Name})
				}
			}
		}
		ncalls := len(methods) + len(argCalls)
		call := func(j int) string {
			if j < len(methods) {
				return render(v.Method(methods[j]).Call(nil))
			}
			ac := argCalls[j-len(methods)]
			return render(v.Method(ac.idx).Call(ac.args))
		}
		nameOf := func(j int) string {
			if j < len(methods) {
				return v.Type().Method(methods[j]).Name
			}
			return argCalls[j-len(methods)].name + "(..)"
		}
		tablesBefore := tablesSnapshot()
		// the concurrent phase comes FIRST: lazily initialised state is then initialised under contention
		n, reps := a.Int("n"), a.Int("reps")
		var wg sync.WaitGroup
		start := make(chan struct{})
		var mu sync.Mutex
		panics := 0
		// lock-step round: for every call j, n fresh goroutines make that same call at the same moment (first uses collide
		// while the race detector still remembers them); their answers are compared with the sequential ones below
		lock := make([][]string, ncalls)
		for j := 0; j < ncalls; j++ {
			lock[j] = make([]string, n)
			var lw sync.WaitGroup
			gate := make(chan struct{})
			for g := 0; g < n; g++ {
				lw.Add(1)
				go func(g int) {
					defer lw.Done()
					defer func() {
						if p := recover(); p != nil {
							mu.Lock()
							panics++
							mu.Unlock()
						}
					}()
					<-gate
					lock[j][g] = call(j)
				}(g)
			}
			close(gate)
			lw.Wait()
		}
		got := make([][]string, n) // per goroutine: result of call j in repetition r at [r*ncalls+j]
		for g := 0; g < n; g++ {
			got[g] = make([]string, reps*ncalls)
			wg.Add(1)
			go func(g int) {
				defer wg.Done()
				defer func() {
					if p := recover(); p != nil {
						mu.Lock()
						panics++
						mu.Unlock()
					}
				}()
				<-start
				for r := 0; r < reps; r++ {
					for k := 0; k < ncalls; k++ {
						j := (k + g*7 + r) % ncalls
						got[g][r*ncalls+j] = call(j)
						if (k+g)%5 == 0 {
							key_certificate.GetKeySizes(7, 4)
							key_certificate.GetSignatureSize(k % 12)
						}
					}
				}
			}(g)
		}
		close(start)
		wg.Wait()
		// ... and the sequential answers afterwards
		seq := make([]string, ncalls)
		for j := 0; j < ncalls; j++ {
			seq[j] = call(j)
		}
		mismatches := []string{}
		seen := map[string]bool{}
		for g := 0; g < n; g++ {
			for x, s := range got[g] {
				j := x % ncalls
				if s != seq[j] && s != "" && !seen[nameOf(j)] {
					seen[nameOf(j)] = true
					if len(mismatches) < 5 {
						mismatches = append(mismatches, nameOf(j))
					}
				}
			}
		}
		for j := 0; j < ncalls; j++ {
			for g := 0; g < n; g++ {
				if lock[j][g] != seq[j] && lock[j][g] != "" && !seen[nameOf(j)] {
					seen[nameOf(j)] = true
					if len(mismatches) < 5 {
						mismatches = append(mismatches, nameOf(j))
					}
				}
			}
		}
		after := fmt.Sprintf("%v", observe(o.Val))
		fresh := fmt.Sprintf("%v", observe(ref1.Val))
		res := Res{"parsed": true, "nmethods": ncalls, "nruns": n * reps * ncalls, "mismatches": mismatches, "panics": panics,
			"value_unchanged": fresh == after, "tables_unchanged": tablesBefore == tablesSnapshot()}
		// field-level: the value that was queried still equals a value freshly parsed from the same bytes (unexported fields included);
		// judged only when two untouched parses are equal to each other in this sense
		control := ref1.OK && ref2.OK && reflect.DeepEqual(ref1.Val, ref2.Val)
		res["deep_control"] = control
		res["deep_unchanged"] = !control || reflect.DeepEqual(o.Val, ref1.Val)
		raced := raceLogSize() > raceBefore
		res["race"] = raced
		res["race_report"] = ""
		if raced {
			res["race_report"] = raceLogTail()
		}
		res["caps_tight"] = true
		res["caps"] = []int{}
		if c := certOf(o.Val); c != nil {
			kl, kc, ll, lc, pl, pc := certificate.VerifFieldCaps(c)
			res["caps"] = []int{kl, kc, ll, lc, pl, pc}
			res["caps_tight"] = kl == kc && ll == lc
		}
		return res
	})
}

func init() {
	// ConcurrentVerify: a genuinely signed structure and a tampered copy of the same length are parsed into DISTINCT values;
	// half of the goroutines verify the genuine one, the other half the tampered one, at the same time.  The tampered one
	// must never verify (C05), the genuine one always (results equal the sequential ones, C18), and no race is reported.
	register("ConcurrentVerify", func(s *Session, a Args) Res {
		signed, serr := buildSigned(s, a)
		if serr != "" {
			return Res{"setup": false, "err": serr}
		}
		tampered := append([]byte{}, signed...)
		off := a.Int("flipoff")
		if off < 0 || off >= len(tampered) {
			return Res{"setup": false, "err": "flip offset"}
		}
		tampered[off] ^= 0x01
		n, reps := a.Int("n"), a.Int("reps")
		if n < 2 {
			n = 2
		}
		raceBefore := raceLogSize()
		// every goroutine owns its value (parsed from its own copy)
		type job struct {
			genuine bool
			val     any
		}
		jobs := make([]job, 2*n)
		for i := range jobs {
			src := signed
			if i%2 == 1 {
				src = tampered
			}
			_, _, _ = src, i, jobs
			rd := readers[a.Str("fn")]
			o := rd(append([]byte{}, src...), a)
			if !o.OK || o.Val == nil {
				if i%2 == 1 {
					// the tampered copy may simply not parse: then there is nothing to verify concurrently
					return Res{"setup": true, "tampered_parses": false, "false_accepts": 0, "false_rejects": 0, "race": false, "race_report": "", "nruns": 0}
				}
				return Res{"setup": false, "err": "genuine structure does not parse: " + o.Err}
			}
			jobs[i] = job{i%2 == 0, o.Val}
		}
		verify := func(v any) bool {
			rv := reflect.ValueOf(v)
			for _, name := range []string{"Verify", "VerifySignature"} {
				m := rv.MethodByName(name)
				if m.IsValid() && m.Type().NumIn() == 0 {
					return verifySuccess(m.Call(nil))
				}
			}
			return false
		}
		var wg sync.WaitGroup
		gate := make(chan struct{})
		var mu sync.Mutex
		falseAccepts, falseRejects, panics := 0, 0, 0
		for i := range jobs {
			wg.Add(1)
			go func(j job) {
				defer wg.Done()
				defer func() {
					if p := recover(); p != nil {
						mu.Lock()
						panics++
						mu.Unlock()
					}
				}()
				<-gate
				fa, fr := 0, 0
				for r := 0; r < reps; r++ {
					ok := verify(j.val)
					if ok && !j.genuine {
						fa++
					}
					if !ok && j.genuine {
						fr++
					}
				}
				mu.Lock()
				falseAccepts += fa
				falseRejects += fr
				mu.Unlock()
			}(jobs[i])
		}
		close(gate)
		wg.Wait()
		seqGenuine, seqTampered := verify(jobs[0].val), verify(jobs[1].val)
		raced := raceLogSize() > raceBefore
		rep := ""
		if raced {
			rep = raceLogTail()
		}
		return Res{"setup": true, "tampered_parses": true, "false_accepts": falseAccepts, "false_rejects": falseRejects, "panics": panics,
			"seq_genuine": seqGenuine, "seq_tampered": seqTampered, "race": raced, "race_report": rep, "nruns": 2 * n * reps}
	})
}
