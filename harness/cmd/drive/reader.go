package main

import (
	"fmt"
	"bytes"
	"crypto/sha256"
	"reflect"
)

// ReadOut is the observable outcome of one parser entry point.
type ReadOut struct {
	OK     bool   // err == nil
	Val    any    // the returned value (kept for later calls)
	Ser    []byte // serialisation of the returned value (only when OK and SerOK)
	SerOK  bool
	Rem    []byte
	HasRem bool // entry point returns a remainder
	Err    string
	Acc    map[string]any // projection through public accessors (only when OK)
}

// Reader wraps one parser entry point. It must not interpret the input.
type Reader func(in []byte, a Args) ReadOut

var readers = map[string]Reader{}

func regReader(name string, r Reader) { readers[name] = r }

// reSerialise: the value's own serialisation method again (Bytes / Data), found by name through reflection.
func reSerialise(val any) ([]byte, bool) {
	v := reflect.ValueOf(val)
	if !v.IsValid() || (v.Kind() == reflect.Pointer && v.IsNil()) {
		return nil, false
	}
	for _, name := range []string{"Bytes", "Data"} {
		m := v.MethodByName(name)
		if !m.IsValid() && v.Kind() != reflect.Pointer && v.CanAddr() {
			m = v.Addr().MethodByName(name)
		}
		if !m.IsValid() || m.Type().NumIn() != 0 || m.Type().NumOut() < 1 {
			continue
		}
		if ot := m.Type().Out(0); ot.Kind() != reflect.Slice || ot.Elem().Kind() != reflect.Uint8 {
			continue
		}
		outs := m.Call(nil)
		if len(outs) == 2 && !outs[1].IsNil() {
			return nil, false
		}
		b := make([]byte, outs[0].Len())
		reflect.Copy(reflect.ValueOf(b), outs[0])
		return b, true
	}
	return nil, false
}

// appendSafety: a caller appends to the byte slices the value's argument-free methods return (what append may write is the part between
// length and capacity).  The input buffer - and with it the remainder the parser returned, which is its suffix - has to stay what it is.
func appendSafety(o ReadOut, in, orig []byte) []string {
	unsafe := []string{}
	if !o.OK || o.Val == nil {
		return unsafe
	}
	v := reflect.ValueOf(o.Val)
	if v.Kind() == reflect.Pointer && v.IsNil() {
		return unsafe
	}
	for _, i := range readOnlyMethods(v) {
		m := v.Type().Method(i)
		if m.Type.NumOut() < 1 || m.Type.Out(0).Kind() != reflect.Slice || m.Type.Out(0).Elem().Kind() != reflect.Uint8 {
			continue
		}
		func() {
			defer func() { recover() }()
			outs := v.Method(i).Call(nil)
			b := outs[0]
			if b.Len() == b.Cap() {
				return
			}
			ext := b.Slice3(0, b.Cap(), b.Cap())
			for k := b.Len(); k < b.Cap(); k++ {
				ext.Index(k).SetUint(ext.Index(k).Uint() ^ 0xFF)
			}
			if !bytes.Equal(in, orig) {
				unsafe = append(unsafe, m.Name)
				copy(in, orig)
			} else {
				// give the spare capacity back as it was (it belongs to whoever owns that array)
				for k := b.Len(); k < b.Cap(); k++ {
					ext.Index(k).SetUint(ext.Index(k).Uint() ^ 0xFF)
				}
			}
		}()
	}
	return unsafe
}

// queryStability: every read-only argument-free method of an accepted value is called twice over (two full passes);
// the second pass must render exactly as the first, and the value must serialise afterwards exactly as it did before.
// (A query that reorders, caches into or otherwise disturbs the value it is asked about shows up here.)
func queryStability(o ReadOut, r Res) {
	r["stab"] = map[string]any{"done": false}
	if !o.OK || o.Val == nil {
		return
	}
	v := reflect.ValueOf(o.Val)
	if v.Kind() == reflect.Pointer && v.IsNil() {
		return
	}
	// a value (not a pointer) is copied into addressable storage so that methods with pointer receivers are queried too
	if v.Kind() != reflect.Pointer {
		pv := reflect.New(v.Type())
		pv.Elem().Set(v)
		v = pv
	}
	var unstable []any
	msg := guarded(func() {
		idx := readOnlyMethods(v)
		first := make([]string, len(idx))
		for j, i := range idx {
			first[j] = render(v.Method(i).Call(nil))
		}
		for j, i := range idx {
			if render(v.Method(i).Call(nil)) != first[j] {
				unstable = append(unstable, v.Type().Method(i).Name)
			}
		}
	})
	if unstable == nil {
		unstable = []any{}
	}
	st := map[string]any{"done": msg == "", "unstable": unstable, "reser": false, "ser2": []int{}}
	if o.SerOK {
		if b, ok := reSerialise(v.Interface()); ok {
			st["reser"], st["ser2"] = true, ints(b)
		}
	}
	r["stab"] = st
}

// parseAgain: the value a parser returned is the caller's.  Everything the caller can reach from it (and the private input buffer it
// may view) is overwritten in place; then the same bytes are parsed once more from a fresh buffer.  The second result has to be the
// first one again: a parser that hands out shared structures (an interned certificate, a cached key certificate per type pair, a
// recycled value) shows here.
func parseAgain(rd Reader, a Args, o ReadOut, r Res) {
	r["again"] = map[string]any{"done": false, "same": true, "what": ""}
	if !o.OK || o.Val == nil {
		return
	}
	ser1 := append([]byte{}, o.Ser...)
	acc1 := fmt.Sprintf("%v", o.Acc)
	n := scribbleReachable(o.Val)
	var o2 ReadOut
	if msg := guarded(func() { o2 = rd(append([]byte{}, a.Bytes("in")...), a) }); msg != "" {
		return
	}
	what := ""
	switch {
	case o2.OK != o.OK:
		what = "accepted / refused"
	case o2.SerOK != o.SerOK || !bytes.Equal(o2.Ser, ser1):
		what = "serialisation"
	case len(o2.Rem) != len(o.Rem):
		what = "remainder"
	case fmt.Sprintf("%v", o2.Acc) != acc1:
		what = "accessors"
	}
	r["again"] = map[string]any{"done": true, "same": what == "", "what": what, "scribbled": n}
}

func (o ReadOut) res() Res {
	r := Res{"ok": o.OK, "hasrem": o.HasRem, "serok": o.SerOK}
	if o.OK && o.SerOK {
		r["ser"] = ints(o.Ser)
	} else {
		r["ser"] = []int{}
	}
	r["rem"] = ints(o.Rem)
	r["err"] = o.Err
	if o.Acc != nil {
		r["acc"] = o.Acc
	} else {
		r["acc"] = map[string]any{}
	}
	return r
}

// addSha: independent SHA-256 (standard library) of the first L input bytes, L supplied by the specification.
func addSha(r Res, a Args) {
	if a.Has("L") {
		in := a.Bytes("in")
		l := a.Int("L")
		if l >= 0 && l <= len(in) {
			h := sha256.Sum256(in[:l])
			r["sha"] = ints(h[:])
		}
	}
}

func addShaOf(extra map[string]any, b []byte) {
	h := sha256.Sum256(b)
	extra["sha"] = ints(h[:])
}

func errStr(e error) string {
	if e == nil {
		return ""
	}
	s := e.Error()
	if len(s) > 200 {
		s = s[:200]
	}
	return s
}

func init() {
	// Read: one call of a parser entry point on a caller buffer (a private copy of the vector's bytes).
	register("Read", func(s *Session, a Args) Res {
		rd, ok := readers[a.Str("fn")]
		if !ok {
			return Res{"unknown_fn": true}
		}
		in := append([]byte{}, a.Bytes("in")...)
		o := rd(in, a)
		if h := a.Str("h"); h != "" {
			s.Vals[h] = o.Val
			s.Bufs[h] = in
			s.Bufs[h+"#rem"] = o.Rem // the remainder as the parser handed it back (C08: the caller may overwrite that too)
		}
		r := o.res()
		queryStability(o, r)
		// the caller's buffer is the caller's: neither parsing nor querying may write into it
		r["in_unchanged"] = bytes.Equal(in, a.Bytes("in"))
		r["append_unsafe"] = appendSafety(o, in, a.Bytes("in"))
		addSha(r, a)
		if a.Str("h") == "" {
			parseAgain(rd, a, o, r)
		}
		return r
	})
	// Twins: several entry points on (private copies of) the same input.
	register("Twins", func(s *Session, a Args) Res {
		var results []any
		for _, f := range a.List("fns") {
			fn, _ := f.(string)
			rd, ok := readers[fn]
			if !ok {
				return Res{"unknown_fn": true}
			}
			in := append([]byte{}, a.Bytes("in")...)
			o := rd(in, a)
			r := o.res()
			queryStability(o, r)
			r["in_unchanged"] = bytes.Equal(in, a.Bytes("in"))
			r["append_unsafe"] = appendSafety(o, in, a.Bytes("in"))
			parseAgain(rd, a, o, r)
			r["fn"] = fn
			results = append(results, r)
		}
		r := Res{"results": results}
		addSha(r, a)
		return r
	})
	// Sweep: the same entry point on every prefix in[:k], k = 0..len(in) (all cut points),
	// and on in ++ each tail; results are logged as tuples and run-length compressed on equal tuples.
	// The two booleans are plain byte comparisons against the input, not layout knowledge.
	register("Sweep", func(s *Session, a Args) Res {
		rd, ok := readers[a.Str("fn")]
		if !ok {
			return Res{"unknown_fn": true}
		}
		full := a.Bytes("in")
		from := 0
		if a.Has("from") {
			from = a.Int("from")
		}
		type tup struct {
			OK, SerIsPrefix, RemIsSuffix bool
			SerLen, RemLen               int
		}
		var runs [][]any
		var prev tup
		start := -1
		flush := func(end int) {
			if start >= 0 {
				runs = append(runs, []any{start, end, prev.OK, prev.SerLen, prev.RemLen, prev.SerIsPrefix, prev.RemIsSuffix})
			}
		}
		for k := from; k <= len(full); k++ {
			in := append([]byte{}, full[:k]...)
			o := rd(in, a)
			t := tup{OK: o.OK, SerLen: -1, RemLen: len(o.Rem)}
			if o.OK && o.SerOK {
				t.SerLen = len(o.Ser)
				t.SerIsPrefix = bytes.HasPrefix(full[:k], o.Ser)
			}
			t.RemIsSuffix = bytes.HasSuffix(full[:k], o.Rem)
			if start < 0 || t != prev {
				flush(k - 1)
				start, prev = k, t
			}
		}
		flush(len(full))
		return Res{"runs": runs}
	})
}
