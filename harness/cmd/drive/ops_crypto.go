package main

import (
	"crypto"
	stdecdsa "crypto/ecdsa"
	stded "crypto/ed25519"
	"crypto/elliptic"
	"crypto/sha256"
	"crypto/sha512"
	"fmt"
	"math/big"
	"math/rand"
	"reflect"

	"github.com/go-i2p/common/offline_signature"
	"github.com/go-i2p/crypto/dsa"
	"github.com/go-i2p/crypto/types"
)

// keyPair: a signing key pair of an I2P signing type, made with the standard library / go-i2p/crypto
// (dependencies of the library under test, not the code under test).
type keyPair struct {
	st   int
	pub  []byte
	priv any
	sign func(msg []byte) ([]byte, error)
}

func genKey(st int, rng *rand.Rand) (keyPair, error) {
	switch st {
	case 7, 8, 11:
		seed := make([]byte, 32)
		rng.Read(seed)
		priv := stded.NewKeyFromSeed(seed)
		kp := keyPair{st: st, pub: append([]byte{}, priv[32:]...), priv: priv}
		kp.sign = func(msg []byte) ([]byte, error) { return stded.Sign(priv, msg), nil }
		if st == 8 {
			kp.sign = func(msg []byte) ([]byte, error) {
				h := sha512.Sum512(msg)
				return priv.Sign(nil, h[:], &stded.Options{Hash: crypto.SHA512})
			}
		}
		return kp, nil
	case 0:
		// go-i2p/crypto (a dependency, not the code under test) serialises X and Y without left padding, so about 0.8% of the
		// key pairs it generates are inconsistent (a leading zero byte shifts the key). Keys are re-drawn until a probe
		// signature verifies under the serialised public key.
		for attempt := 0; attempt < 50; attempt++ {
			k, err := dsa.DSAPrivateKey{}.Generate()
			if err != nil {
				return keyPair{}, err
			}
			pub, err := k.Public()
			if err != nil {
				return keyPair{}, err
			}
			signer, err := k.NewSigner()
			if err != nil {
				return keyPair{}, err
			}
			probe := []byte("probe")
			psig, perr := signer.Sign(probe)
			if perr != nil || !indepVerify(0, pub.Bytes(), probe, psig) {
				continue
			}
			return keyPair{st: st, pub: pub.Bytes(), priv: k, sign: signer.Sign}, nil
		}
		return keyPair{}, fmt.Errorf("no consistent DSA key pair after 50 draws")
	case 1:
		return genECDSA(st, elliptic.P256(), 32, rng)
	case 2:
		return genECDSA(st, elliptic.P384(), 48, rng)
	}
	return keyPair{}, fmt.Errorf("no key generation for signing type %d", st)
}

// genECDSA: ECDSA keys and signatures with the standard library; I2P format: X||Y public key, r||s signature,
// SHA-256 for P-256 and SHA-384 for P-384.
func genECDSA(st int, curve elliptic.Curve, n int, rng *rand.Rand) (keyPair, error) {
	sk, err := stdecdsa.GenerateKey(curve, rng)
	if err != nil {
		return keyPair{}, err
	}
	pub := make([]byte, 2*n)
	sk.X.FillBytes(pub[:n])
	sk.Y.FillBytes(pub[n:])
	sign := func(msg []byte) ([]byte, error) {
		r, sv, err := stdecdsa.Sign(rng, sk, ecdsaHash(n, msg))
		if err != nil {
			return nil, err
		}
		out := make([]byte, 2*n)
		r.FillBytes(out[:n])
		sv.FillBytes(out[n:])
		return out, nil
	}
	return keyPair{st: st, pub: pub, priv: sk, sign: sign}, nil
}

func ecdsaHash(n int, msg []byte) []byte {
	if n == 32 {
		h := sha256.Sum256(msg)
		return h[:]
	}
	h := sha512.Sum384(msg)
	return h[:]
}

func ecdsaVerify(curve elliptic.Curve, n int, pub, msg, sig []byte) bool {
	if len(pub) != 2*n || len(sig) != 2*n {
		return false
	}
	pk := &stdecdsa.PublicKey{Curve: curve, X: new(big.Int).SetBytes(pub[:n]), Y: new(big.Int).SetBytes(pub[n:])}
	return stdecdsa.Verify(pk, ecdsaHash(n, msg), new(big.Int).SetBytes(sig[:n]), new(big.Int).SetBytes(sig[n:]))
}

// indepVerify: is sig a valid signature of type st by public key pub over msg?  Decided without go-i2p/common.
func indepVerify(st int, pub, msg, sig []byte) bool {
	switch st {
	case 7, 11:
		return len(pub) == 32 && len(sig) == 64 && stded.Verify(stded.PublicKey(pub), msg, sig)
	case 8:
		if len(pub) != 32 || len(sig) != 64 {
			return false
		}
		h := sha512.Sum512(msg)
		return stded.VerifyWithOptions(stded.PublicKey(pub), h[:], sig, &stded.Options{Hash: crypto.SHA512}) == nil
	case 1:
		return ecdsaVerify(elliptic.P256(), 32, pub, msg, sig)
	case 2:
		return ecdsaVerify(elliptic.P384(), 48, pub, msg, sig)
	case 0:
		var spk types.SigningPublicKey = mkSpk(st, pub)
		v, err := spk.NewVerifier()
		if err != nil || v == nil {
			return false
		}
		return v.Verify(msg, sig) == nil
	}
	return false
}

type slot struct{ off, n int }

func slotOf(a Args, k string) slot {
	m := sub(a, k)
	return slot{m.Int("off"), m.Int("len")}
}

func put(b []byte, s slot, v []byte) bool {
	if s.off < 0 || s.off+s.n > len(b) || len(v) != s.n {
		return false
	}
	copy(b[s.off:], v)
	return true
}

// libVerify: parse with the named entry point and ask the value to verify itself.
func libVerify(fn string, in []byte, a Args, idpub []byte) (parseOK, verifyOK bool, verr string) {
	rd, ok := readers[fn]
	if !ok {
		return false, false, "unknown reader"
	}
	o := rd(append([]byte{}, in...), a)
	if !o.OK || o.Val == nil {
		return false, false, o.Err
	}
	if os, ok := o.Val.(*offline_signature.OfflineSignature); ok {
		good, err := os.VerifySignature(idpub)
		return true, good && err == nil, errStr(err)
	}
	v := reflect.ValueOf(o.Val)
	for _, name := range []string{"Verify", "VerifySignature"} {
		m := v.MethodByName(name)
		if m.IsValid() && m.Type().NumIn() == 0 {
			return true, verifySuccess(m.Call(nil)), ""
		}
	}
	return true, false, "no verify method"
}

func init() {
	// SignedProbe: fill key and signature slots of a TLC-computed skeleton with real keys and signatures,
	// verify, apply one adversary step, verify again, and decide independently whether the result is authentic.
	register("SignedProbe", func(s *Session, a Args) Res {
		rng := rand.New(rand.NewSource(s.Seed*7919 + int64(a.Int("stream"))))
		base := append([]byte{}, a.Bytes("base")...)
		idslot, sigslot := slotOf(a, "idkey"), slotOf(a, "sig")
		st := a.Int("st")
		prefix := a.Bytes("prefix")
		hasOff := a.Has("offline")
		id, err := genKey(st, rng)
		if err != nil {
			return Res{"setup": false, "err": errStr(err)}
		}
		attacker, _ := genKey(st, rng)
		if idslot.n > 0 && !put(base, idslot, id.pub) {
			return Res{"setup": false, "err": "identity key slot does not fit the key"}
		}
		final := id
		var off Args
		var tkey, tkeyAtt keyPair
		var offKey, offSig slot
		if hasOff {
			off = sub(a, "offline")
			offKey, offSig = slot{off.Int("keyoff"), off.Int("keylen")}, slot{off.Int("sigoff"), off.Int("siglen")}
			tkey, err = genKey(off.Int("tst"), rng)
			if err != nil {
				return Res{"setup": false, "err": errStr(err)}
			}
			tkeyAtt, _ = genKey(off.Int("tst"), rng)
			if !put(base, offKey, tkey.pub) {
				return Res{"setup": false, "err": "transient key slot"}
			}
			osig, err := id.sign(base[off.Int("from"):off.Int("to")])
			if err != nil || !put(base, offSig, osig) {
				return Res{"setup": false, "err": "offline signature: " + errStr(err)}
			}
			final = tkey
		}
		msg := append(append([]byte{}, prefix...), base[:sigslot.off]...)
		fsig, err := final.sign(msg)
		if err != nil || !put(base, sigslot, fsig) {
			return Res{"setup": false, "err": "final signature: " + errStr(err)}
		}
		signed := append([]byte{}, base...)
		preParse, preVerify, preErr := libVerify(a.Fn(), signed, a, id.pub)

		// adversary step
		mut := append([]byte{}, signed...)
		idpubForOffline := id.pub
		adv := sub(a, "adv")
		switch adv.Str("kind") {
		case "none":
		case "flip":
			o := adv.Int("off")
			if o >= 0 && o < len(mut) {
				mut[o] ^= byte(adv.Int("mask"))
			}
		case "swap":
			// two adjacent regions (whole option pairs, per the specification) exchanged
			o, la, lb := adv.Int("off"), adv.Int("la"), adv.Int("lb")
			if o >= 0 && la > 0 && lb > 0 && o+la+lb <= len(mut) {
				first := append([]byte{}, mut[o:o+la]...)
				second := append([]byte{}, mut[o+la:o+la+lb]...)
				copy(mut[o:], second)
				copy(mut[o+lb:], first)
			}
		case "insert":
			// bytes inserted into a region the parser skips (per the specification: a certificate payload), its length field adjusted;
			// every slot behind the insertion point moves along
			at, lo, ins := adv.Int("at"), adv.Int("lenoff"), adv.Bytes("bytes")
			if at >= 0 && at <= len(mut) && lo >= 0 && lo+1 < len(mut) {
				mut = append(append(append([]byte{}, mut[:at]...), ins...), mut[at:]...)
				mut[lo], mut[lo+1] = byte(adv.Int("newlen")>>8), byte(adv.Int("newlen"))
				sh := func(x int) int {
					if x >= at {
						return x + len(ins)
					}
					return x
				}
				sigslot.off, offKey.off, offSig.off = sh(sigslot.off), sh(offKey.off), sh(offSig.off)
				if hasOff {
					off = Args{"tst": off["tst"], "from": float64(sh(off.Int("from"))), "to": float64(sh(off.Int("to")))}
				}
			}
		case "forge_with_revocation_key":
			// legacy LeaseSet: the attacker's public key in the structure's own signing_key field, the structure signed with the attacker's key
			rs := slot{adv.Int("off"), adv.Int("len")}
			if put(mut, rs, attacker.pub) {
				asig, _ := attacker.sign(append(append([]byte{}, prefix...), mut[:sigslot.off]...))
				put(mut, sigslot, asig)
			}
		case "transient_resign_after_offline_edit":
			// whoever holds the (leaked, expired) transient key edits the offline block - its expiry - and signs the structure again with that key:
			// the identity never authorised THIS block
			if hasOff {
				o := off.Int("from") + adv.Int("k")
				if o >= 0 && o < len(mut) {
					mut[o] ^= byte(adv.Int("mask"))
					asig, _ := tkey.sign(append(append([]byte{}, prefix...), mut[:sigslot.off]...))
					put(mut, sigslot, asig)
				}
			}
		case "replace_sig":
			asig, _ := attacker.sign(append(append([]byte{}, prefix...), mut[:sigslot.off]...))
			put(mut, sigslot, asig)
		case "swap_idkey":
			if idslot.n > 0 {
				put(mut, idslot, attacker.pub)
			}
			idpubForOffline = attacker.pub
		case "forge_offline":
			// attacker's transient key, meaningless authorisation, structure signed by the attacker's transient key
			junk := make([]byte, offSig.n)
			rng.Read(junk)
			put(mut, offKey, tkeyAtt.pub)
			put(mut, offSig, junk)
			asig, _ := tkeyAtt.sign(append(append([]byte{}, prefix...), mut[:sigslot.off]...))
			put(mut, sigslot, asig)
		case "transplant_offline":
			// a transient key validly authorised by ANOTHER identity, used to sign this identity's structure
			put(mut, offKey, tkeyAtt.pub)
			osig, _ := attacker.sign(mut[off.Int("from"):off.Int("to")])
			put(mut, offSig, osig)
			asig, _ := tkeyAtt.sign(append(append([]byte{}, prefix...), mut[:sigslot.off]...))
			put(mut, sigslot, asig)
		case "wrong_scheme":
			// the right key but the wrong signature scheme: plain Ed25519 instead of the Ed25519ph its type declares
			if pk, ok := final.priv.(stded.PrivateKey); ok {
				put(mut, sigslot, stded.Sign(pk, append(append([]byte{}, prefix...), mut[:sigslot.off]...)))
			}
		case "resign_after_edit":
			// content edited and re-signed by the attacker's key while the identity key stays
			o := adv.Int("off")
			if o >= 0 && o < sigslot.off {
				mut[o] ^= 0x01
			}
			asig, _ := attacker.sign(append(append([]byte{}, prefix...), mut[:sigslot.off]...))
			put(mut, sigslot, asig)
		}
		postParse, postVerify, postErr := libVerify(a.Fn(), mut, a, idpubForOffline)

		// independent decision on the raw mutated bytes, at the offsets the specification supplied
		finalSt, finalKey := st, mut[idslot.off:idslot.off+idslot.n]
		offOK := true
		if a.Fn() == "ReadOfflineSignature" {
			finalKey = idpubForOffline
		}
		if hasOff {
			finalSt, finalKey = off.Int("tst"), mut[offKey.off:offKey.off+offKey.n]
			offOK = indepVerify(st, mut[idslot.off:idslot.off+idslot.n], mut[off.Int("from"):off.Int("to")], mut[offSig.off:offSig.off+offSig.n])
		}
		sigOK := indepVerify(finalSt, finalKey, append(append([]byte{}, prefix...), mut[:sigslot.off]...), mut[sigslot.off:sigslot.off+sigslot.n])
		edit := map[string]any{"done": false, "nplaces": 0, "neffective": 0, "stale": []any{}}
		if adv.Str("kind") == "edit_value_after_verify" && a.Fn() != "ReadOfflineSignature" {
			// the same independent decision, on a serialisation of the same length and layout
			edit = editAfterVerify(a.Fn(), signed, a, func(b []byte) bool {
				fSt, fKey, oOK := st, b[idslot.off:idslot.off+idslot.n], true
				if hasOff {
					fSt, fKey = off.Int("tst"), b[offKey.off:offKey.off+offKey.n]
					oOK = indepVerify(st, b[idslot.off:idslot.off+idslot.n], b[off.Int("from"):off.Int("to")], b[offSig.off:offSig.off+offSig.n])
				}
				return oOK && indepVerify(fSt, fKey, append(append([]byte{}, prefix...), b[:sigslot.off]...), b[sigslot.off:sigslot.off+sigslot.n])
			})
		}
		return Res{"setup": true, "signed": ints(signed), "mut": ints(mut), "edit": edit,
			"pre":   map[string]any{"parse_ok": preParse, "verify_ok": preVerify, "err": preErr},
			"post":  map[string]any{"parse_ok": postParse, "verify_ok": postVerify, "err": postErr},
			"indep": map[string]any{"sig_ok": sigOK, "off_ok": offOK}}
	})
}

func (a Args) Fn() string { return a.Str("fn") }

// buildSigned: the signing half of SignedProbe on its own - the specification's skeleton with a fresh identity key, an
// authorised transient key (when the skeleton has an offline block) and valid signatures in the slots it names.
func buildSigned(s *Session, a Args) ([]byte, string) {
	rng := rand.New(rand.NewSource(s.Seed*7919 + int64(a.Int("stream"))))
	base := append([]byte{}, a.Bytes("base")...)
	idslot, sigslot := slotOf(a, "idkey"), slotOf(a, "sig")
	st := a.Int("st")
	prefix := a.Bytes("prefix")
	id, err := genKey(st, rng)
	if err != nil {
		return nil, errStr(err)
	}
	if idslot.n > 0 && !put(base, idslot, id.pub) {
		return nil, "identity key slot does not fit the key"
	}
	final := id
	if a.Has("offline") {
		off := sub(a, "offline")
		offKey, offSig := slot{off.Int("keyoff"), off.Int("keylen")}, slot{off.Int("sigoff"), off.Int("siglen")}
		tkey, err := genKey(off.Int("tst"), rng)
		if err != nil {
			return nil, errStr(err)
		}
		if !put(base, offKey, tkey.pub) {
			return nil, "transient key slot"
		}
		osig, err := id.sign(base[off.Int("from"):off.Int("to")])
		if err != nil || !put(base, offSig, osig) {
			return nil, "offline signature: " + errStr(err)
		}
		final = tkey
	}
	msg := append(append([]byte{}, prefix...), base[:sigslot.off]...)
	fsig, err := final.sign(msg)
	if err != nil || !put(base, sigslot, fsig) {
		return nil, "final signature: " + errStr(err)
	}
	return base, ""
}
