package main

// Deterministic key material derived from the seed (filled in by ops_crypto.go).
var initKeyHooks []func(seed int64)

func initKeys(seed int64) {
	for _, f := range initKeyHooks {
		f(seed)
	}
}
