package main

import "reflect"

// scribbleReachable: the caller owns what a constructor handed it.  Every byte a caller can reach from the value without
// unsafe - exported fields (recursively), and whatever argument-free methods return as byte slices, pointers to structs or
// slices of those - is overwritten in place.  The value is thrown away afterwards; what matters is that values obtained
// LATER (by the same or by other calls) do not care.  Returns the number of bytes written.
func scribbleReachable(val any) int {
	n := 0
	seen := map[uintptr]bool{}
	var walk func(v reflect.Value, depth int, methods bool)
	scrib := func(v reflect.Value) {
		if v.Len() == 0 || seen[v.Pointer()] {
			return
		}
		seen[v.Pointer()] = true
		for i := 0; i < v.Len(); i++ {
			e := v.Index(i)
			if e.CanSet() {
				e.SetUint(uint64(^uint8(e.Uint())))
				n++
			}
		}
	}
	walk = func(v reflect.Value, depth int, methods bool) {
		if !v.IsValid() || depth > 4 {
			return
		}
		switch v.Kind() {
		case reflect.Pointer, reflect.Interface:
			if v.IsNil() {
				return
			}
			if v.Kind() == reflect.Pointer && v.Elem().Kind() == reflect.Struct {
				if seen[v.Pointer()] {
					return
				}
				seen[v.Pointer()] = true
			}
			if methods {
				callAll(v, depth, walk)
			}
			walk(v.Elem(), depth, false)
		case reflect.Slice:
			if v.IsNil() {
				return
			}
			if v.Type().Elem().Kind() == reflect.Uint8 {
				scrib(v)
				return
			}
			for i := 0; i < v.Len() && i < 20; i++ {
				walk(v.Index(i), depth+1, true)
			}
		case reflect.Array:
			if v.Type().Elem().Kind() == reflect.Uint8 {
				return // an array is part of the value itself (copied with it), not shared memory
			}
			for i := 0; i < v.Len() && i < 20; i++ {
				walk(v.Index(i), depth+1, true)
			}
		case reflect.Struct:
			if methods && v.CanAddr() {
				callAll(v.Addr(), depth, walk)
			}
			for i := 0; i < v.NumField(); i++ {
				if v.Type().Field(i).IsExported() {
					walk(v.Field(i), depth+1, true)
				}
			}
		}
	}
	guarded(func() { walk(reflect.ValueOf(val), 0, true) })
	return n
}

func callAll(recv reflect.Value, depth int, walk func(reflect.Value, int, bool)) {
	if depth > 2 {
		return
	}
	for _, i := range readOnlyMethods(recv) {
		mt := recv.Type().Method(i)
		if mt.Type.NumOut() < 1 {
			continue
		}
		ot := mt.Type.Out(0)
		k := ot.Kind()
		if !(k == reflect.Slice || k == reflect.Pointer || k == reflect.Interface || k == reflect.Struct) {
			continue
		}
		if k == reflect.Interface && ot.String() == "error" {
			continue
		}
		var outs []reflect.Value
		if guarded(func() { outs = recv.Method(i).Call(nil) }) != "" || len(outs) == 0 {
			continue
		}
		o := outs[0]
		if o.Kind() == reflect.Struct {
			// a struct returned by value: its own slices may still be shared
			pv := reflect.New(o.Type())
			pv.Elem().Set(o)
			o = pv
		}
		walk(o, depth+1, true)
	}
}
