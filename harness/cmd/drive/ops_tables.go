package main

import (
	"reflect"

	"github.com/go-i2p/common/data"
	"github.com/go-i2p/common/key_certificate"
	"github.com/go-i2p/common/offline_signature"
	"github.com/go-i2p/common/signature"
)

func b2i(b bool) int {
	if b {
		return 1
	}
	return 0
}

func be2(c int) data.Integer { return data.Integer([]byte{byte(c >> 8), byte(c)}) }

// tableTuple queries every size lookup the library offers for one 16-bit code
// (as a signing type and as a crypto type) and returns the answers in a fixed order.
func tableTuple(c int) []int {
	t := []int{}
	ski, ok := key_certificate.SigningKeySizes[c]
	t = append(t, b2i(ok), ski.SigningPublicKeySize, ski.SignatureSize)
	sp, ok := key_certificate.SignaturePublicKeySizes[uint16(c)]
	t = append(t, b2i(ok), sp)
	v, err := key_certificate.GetSigningKeySize(c)
	t = append(t, b2i(err == nil), v)
	v, err = key_certificate.GetSignatureSize(c)
	t = append(t, b2i(err == nil), v)
	ks, err := key_certificate.GetKeySizes(c, 0)
	t = append(t, b2i(err == nil), ks.SigningPublicKeySize, ks.SignatureSize)
	kc := key_certificate.KeyCertificate{SpkType: be2(c), CpkType: be2(0)}
	t = append(t, kc.SigningPublicKeySize(), kc.SignatureSize())
	v, err = signature.SignatureSize(c)
	t = append(t, b2i(err == nil), v)
	t = append(t, offline_signature.SigningPublicKeySize(uint16(c)), offline_signature.SignatureSize(uint16(c)))
	// crypto side
	cki, ok := key_certificate.CryptoKeySizes[c]
	t = append(t, b2i(ok), cki.CryptoPublicKeySize)
	cp, ok := key_certificate.CryptoPublicKeySizes[uint16(c)]
	t = append(t, b2i(ok), cp)
	v, err = key_certificate.GetCryptoKeySize(c)
	t = append(t, b2i(err == nil), v)
	ks, err = key_certificate.GetKeySizes(0, c)
	t = append(t, b2i(err == nil), ks.CryptoPublicKeySize)
	kc2 := key_certificate.KeyCertificate{SpkType: be2(0), CpkType: be2(c)}
	cs, cerr := kc2.CryptoPublicKeySize()
	t = append(t, kc2.CryptoSize(), b2i(cerr == nil), cs)
	return t
}

func init() {
	register("Tables", func(s *Session, a Args) Res {
		from, to := a.Int("from"), a.Int("to")
		var runs [][]any
		var prev []int
		start := from
		for c := from; c <= to; c++ {
			t := tableTuple(c)
			if c > from && !reflect.DeepEqual(t, prev) {
				runs = append(runs, []any{start, c - 1, prev})
				start = c
			}
			prev = t
		}
		runs = append(runs, []any{start, to, prev})
		return Res{"runs": runs}
	})
}
