package main

import (
	"bytes"
	"fmt"
	"io"
	"reflect"
	"runtime"
	"sort"
	"strings"
	"time"
)

// ApiSweep: every exported package-level function of the tree under test (funcRegistry, generated from source at
// build time) is called with combinations of synthesised arguments: byte strings, strings and integers from fixed
// domains, and structured values taken from a pool of values that the library itself returned for encodings supplied
// by the specification (plus zero values and nil).  Only "returned normally" is observed.
var apiIntDomain = []int64{-1, 0, 1, 2, 3, 4, 5, 7, 8, 9, 11, 32, 255, 256, 65535, 65536}

type valuePool map[reflect.Type][]reflect.Value

func (p valuePool) add(v reflect.Value) {
	if !v.IsValid() {
		return
	}
	t := v.Type()
	switch t.Kind() {
	case reflect.Pointer:
		if v.IsNil() {
			return
		}
	case reflect.Struct, reflect.Array, reflect.Slice, reflect.Map, reflect.Interface:
	default:
		return
	}
	if t.PkgPath() == "" && t.Kind() != reflect.Pointer && t.Kind() != reflect.Slice {
		return
	}
	if len(p[t]) < 3 {
		p[t] = append(p[t], v)
	}
}

// harvest: the value and everything its argument-free methods return (one level), by dynamic type
func (p valuePool) harvest(v reflect.Value) {
	p.add(v)
	if v.Kind() == reflect.Pointer && !v.IsNil() {
		p.add(v.Elem())
	}
	t := v.Type()
	for i := 0; i < t.NumMethod(); i++ {
		m := t.Method(i)
		if m.Type.NumIn() != 1 {
			continue
		}
		var outs []reflect.Value
		guarded(func() { outs = v.Method(i).Call(nil) })
		for _, o := range outs {
			if o.Kind() == reflect.Interface && !o.IsNil() {
				o = o.Elem()
			}
			p.add(o)
			if o.Kind() == reflect.Pointer && !o.IsNil() {
				p.add(o.Elem())
			}
			if o.Kind() == reflect.Slice && o.Len() > 0 && o.Type().Elem().Kind() != reflect.Uint8 {
				p.add(o.Index(0))
			}
		}
	}
}

var ioReaderType = reflect.TypeOf((*io.Reader)(nil)).Elem()
var timeType = reflect.TypeOf(time.Time{})

func paramKind(t reflect.Type) string {
	switch t.Kind() {
	case reflect.Int, reflect.Int8, reflect.Int16, reflect.Int32, reflect.Int64:
		return "int"
	case reflect.Uint, reflect.Uint8, reflect.Uint16, reflect.Uint32, reflect.Uint64:
		return "uint"
	case reflect.Bool:
		return "bool"
	case reflect.String:
		return "string"
	case reflect.Slice:
		if t.Elem().Kind() == reflect.Uint8 {
			return "bytes"
		}
		return "slice"
	case reflect.Array:
		if t.Elem().Kind() == reflect.Uint8 {
			return "bytearray"
		}
		return "array"
	}
	return strings.ToLower(t.Kind().String())
}

func apiCandidates(t reflect.Type, pool valuePool) []reflect.Value {
	var out []reflect.Value
	switch t.Kind() {
	case reflect.Int, reflect.Int8, reflect.Int16, reflect.Int32, reflect.Int64:
		for _, x := range apiIntDomain {
			v := reflect.New(t).Elem()
			v.SetInt(x)
			out = append(out, v)
		}
		return out
	case reflect.Uint, reflect.Uint8, reflect.Uint16, reflect.Uint32, reflect.Uint64:
		for _, x := range apiIntDomain[1:] {
			v := reflect.New(t).Elem()
			v.SetUint(uint64(x))
			out = append(out, v)
		}
		return out
	case reflect.Bool, reflect.String:
		return argCandidates(t, reflect.Value{})
	case reflect.Slice:
		if t.Elem().Kind() == reflect.Uint8 {
			out = argCandidates(t, reflect.Value{})
			for _, v := range pool[t] {
				out = append(out, v)
			}
			// byte strings the library itself produced (serialisations in the pool)
			for _, v := range pool[reflect.TypeOf([]byte(nil))] {
				if v.Type().ConvertibleTo(t) {
					out = append(out, v.Convert(t))
				}
			}
			return out
		}
		out = append(out, reflect.Zero(t), reflect.MakeSlice(t, 0, 0))
		elems := apiCandidates(t.Elem(), pool)
		if len(elems) > 0 {
			s1 := reflect.MakeSlice(t, 0, 1)
			s1 = reflect.Append(s1, elems[len(elems)-1])
			s2 := reflect.Append(reflect.Append(reflect.MakeSlice(t, 0, 2), elems[len(elems)-1]), elems[0])
			out = append(out, s1, s2)
		}
		return out
	case reflect.Array:
		out = append(out, reflect.Zero(t))
		if t.Elem().Kind() == reflect.Uint8 {
			v := reflect.New(t).Elem()
			for i := 0; i < v.Len(); i++ {
				v.Index(i).SetUint(uint64(i*7+1) & 0xFF)
			}
			out = append(out, v)
		}
		return append(out, pool[t]...)
	case reflect.Map:
		out = append(out, reflect.Zero(t), reflect.MakeMap(t))
		if t.Key().Kind() == reflect.String && t.Elem().Kind() == reflect.String {
			m := reflect.MakeMap(t)
			m.SetMapIndex(reflect.ValueOf("caps").Convert(t.Key()), reflect.ValueOf("fR").Convert(t.Elem()))
			m.SetMapIndex(reflect.ValueOf("").Convert(t.Key()), reflect.ValueOf("").Convert(t.Elem()))
			out = append(out, m)
		}
		return out
	case reflect.Interface:
		out = append(out, reflect.Zero(t))
		if t == ioReaderType {
			for _, b := range [][]byte{{}, fillBytes(40, 1)} {
				v := reflect.New(t).Elem()
				v.Set(reflect.ValueOf(bytes.NewReader(b)))
				out = append(out, v)
			}
			return out
		}
		if t.NumMethod() == 0 {
			return argCandidates(t, reflect.Value{})
		}
		var types []reflect.Type
		for pt := range pool {
			if pt.Implements(t) {
				types = append(types, pt)
			}
		}
		sort.Slice(types, func(i, j int) bool { return types[i].String() < types[j].String() })
		for _, pt := range types {
			v := reflect.New(t).Elem()
			v.Set(pool[pt][0])
			out = append(out, v)
		}
		return out
	case reflect.Pointer:
		out = append(out, reflect.Zero(t), reflect.New(t.Elem()))
		return append(out, pool[t]...)
	case reflect.Struct:
		out = append(out, reflect.Zero(t))
		if t == timeType {
			for _, tm := range []time.Time{time.Unix(0, 0), time.Unix(1700000000, 123456789), time.Unix(1<<32, 0), time.Unix(-1, 0), time.Unix(253402300800, 0)} {
				out = append(out, reflect.ValueOf(tm))
			}
			return out
		}
		return append(out, pool[t]...)
	}
	return nil
}

const apiCombos = 48

func init() {
	register("ApiSweep", func(s *Session, a Args) Res {
		pool := valuePool{}
		nseeds := 0
		for _, sd := range a.List("seeds") {
			m, ok := sd.(map[string]any)
			if !ok {
				continue
			}
			sa := Args(m)
			rd, ok := readers[sa.Str("fn")]
			if !ok {
				continue
			}
			var o ReadOut
			if guarded(func() { o = rd(sa.Bytes("in"), sa) }) != "" || !o.OK || o.Val == nil {
				continue
			}
			nseeds++
			pool.harvest(reflect.ValueOf(o.Val))
			if o.SerOK {
				pool.add(reflect.ValueOf(o.Ser))
			}
		}
		only := a.Str("only")
		combos := apiCombos
		if a.Has("combos") && a.Int("combos") > 0 {
			combos = a.Int("combos")
		}
		var names []string
		for n := range funcRegistry {
			if only == "" || strings.HasPrefix(n, only) {
				names = append(names, n)
			}
		}
		sort.Strings(names)
		funcs := []any{}
		total := 0
		for _, name := range names {
			fv := reflect.ValueOf(funcRegistry[name])
			ft := fv.Type()
			rec := map[string]any{"name": name}
			kinds := []any{}
			nin := ft.NumIn()
			cands := make([][]reflect.Value, nin)
			prod := 1
			synth := true
			for k := 0; k < nin; k++ {
				pt := ft.In(k)
				if ft.IsVariadic() && k == nin-1 {
					synth = false
					break
				}
				kinds = append(kinds, paramKind(pt))
				cands[k] = apiCandidates(pt, pool)
				if len(cands[k]) == 0 {
					synth = false
					break
				}
				prod *= len(cands[k])
				if prod > 1<<40 {
					prod = 1 << 40
				}
			}
			rec["kinds"] = kinds
			rec["synth"] = synth
			bad := []any{}
			ncalls := 0
			if synth {
				stride := 1
				if prod > combos {
					stride = prod/combos + 1
					if stride%2 == 0 {
						stride++ // odd strides walk the mixed-radix space less regularly
					}
				}
				for c := 0; c < prod && ncalls < combos+2; c += stride {
					args := make([]reflect.Value, nin)
					x := c
					desc := ""
					for k := 0; k < nin; k++ {
						idx := x % len(cands[k])
						args[k] = cands[k][idx]
						x /= len(cands[k])
						desc += fmt.Sprintf("#%d", idx)
					}
					ncalls++
					msg := guardedCall(fv, args)
					if msg != "" && len(bad) < 3 {
						if len(msg) > 900 {
							msg = msg[:900]
						}
						bad = append(bad, map[string]any{"args": desc, "msg": msg, "hung": msg == "hang"})
					}
				}
			}
			total += ncalls
			rec["ncalls"] = ncalls
			rec["nbad"] = len(bad)
			rec["bad"] = bad
			funcs = append(funcs, rec)
		}
		return Res{"funcs": funcs, "nfuncs": len(funcs), "ncalls": total, "nseeds": nseeds, "pooltypes": len(pool)}
	})
}

func guardedCall(fv reflect.Value, args []reflect.Value) string {
	ch := make(chan string, 1)
	go func() {
		defer func() {
			if p := recover(); p != nil {
				buf := make([]byte, 1500)
				n := runtime.Stack(buf, false)
				ch <- fmt.Sprintf("panic: %v\n%s", p, buf[:n])
			}
		}()
		fv.Call(args)
		ch <- ""
	}()
	select {
	case s := <-ch:
		return s
	case <-time.After(deadline):
		return "hang"
	}
}
