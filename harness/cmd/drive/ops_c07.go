package main

import (
	"crypto/sha256"

	"github.com/go-i2p/common/destination"
	"github.com/go-i2p/common/router_identity"
)

func init() {
	// IdentityPair: two encodings parsed as Destination and as RouterIdentity; equality, hashes, addresses.
	register("IdentityPair", func(s *Session, a Args) Res {
		ab, bb := append([]byte{}, a.Bytes("a")...), append([]byte{}, a.Bytes("b")...)
		r := Res{}
		da, _, ea := destination.ReadDestination(ab)
		db, _, eb := destination.ReadDestination(bb)
		r["dest_ok"] = ea == nil && eb == nil
		if ea == nil && eb == nil {
			sa, _ := da.Bytes()
			sb, _ := db.Bytes()
			ha, _ := da.Hash()
			hb, _ := db.Hash()
			a32, _ := da.Base32Address()
			b32, _ := db.Base32Address()
			a64, _ := da.Base64()
			b64, _ := db.Base64()
			sha, shb := sha256.Sum256(sa), sha256.Sum256(sb)
			r["dest"] = map[string]any{"sera": ints(sa), "serb": ints(sb), "eq_ab": da.Equals(&db), "eq_ba": db.Equals(&da), "eq_aa": da.Equals(&da),
				"hasha": ints(ha[:]), "hashb": ints(hb[:]), "shaa": ints(sha[:]), "shab": ints(shb[:]),
				"b32a": ints([]byte(a32)), "b32b": ints([]byte(b32)), "b64same": a64 == b64}
		}
		ra, _, ea2 := router_identity.ReadRouterIdentity(ab)
		rb, _, eb2 := router_identity.ReadRouterIdentity(bb)
		r["ri_ok"] = ea2 == nil && eb2 == nil && ra != nil && rb != nil
		if r["ri_ok"].(bool) {
			sa, _ := ra.KeysAndCert.Bytes()
			sb, _ := rb.KeysAndCert.Bytes()
			r["ri"] = map[string]any{"sera": ints(sa), "serb": ints(sb), "eq_ab": ra.Equal(rb), "eq_ba": rb.Equal(ra), "eq_aa": ra.Equal(ra)}
		}
		return r
	})
}
