package main

import (
	"crypto/sha256"

	"github.com/go-i2p/common/destination"
	"github.com/go-i2p/common/router_identity"
)

func init() {
	// IdentityPair: two encodings parsed as Destination and as RouterIdentity; equality, hashes, addresses.
	register("IdentityPair", func(s *Session, a Args) Res {
		ab, bb := append([]byte{}, a.Bytes("a")...), append([]byte{}, a.Bytes("b")...)
		r := Res{}
		da, _, ea := destination.ReadDestination(ab)
		db, _, eb := destination.ReadDestination(bb)
		r["dest_ok"] = ea == nil && eb == nil
		if ea == nil && eb == nil {
			sa, _ := da.Bytes()
			sb, _ := db.Bytes()
			ha, _ := da.Hash()
			hb, _ := db.Hash()
			a32, _ := da.Base32Address()
			b32, _ := db.Base32Address()
			a64, _ := da.Base64()
			b64, _ := db.Base64()
			sha, shb := sha256.Sum256(sa), sha256.Sum256(sb)
			r["dest"] = map[string]any{"sera": ints(sa), "serb": ints(sb), "eq_ab": da.Equals(&db), "eq_ba": db.Equals(&da), "eq_aa": da.Equals(&da),
				"hasha": ints(ha[:]), "hashb": ints(hb[:]), "shaa": ints(sha[:]), "shab": ints(shb[:]),
				"b32a": ints([]byte(a32)), "b32b": ints([]byte(b32)), "b64same": a64 == b64}
			// a caller changes the identity in place through its exported fields (one padding byte, or the signing key object when
			// there is no padding): hash and addresses are functions of the bytes the value serialises to NOW
			mut := map[string]any{"done": false}
			if da.KeysAndCert != nil {
				changed := false
				if len(da.KeysAndCert.Padding) > 0 {
					da.KeysAndCert.Padding[len(da.KeysAndCert.Padding)/2] ^= 0x01
					changed = true
				} else if db.KeysAndCert != nil && db.KeysAndCert.SigningPublic != nil && !a.Bool("samekeytype_unknown") {
					da.KeysAndCert.SigningPublic = db.KeysAndCert.SigningPublic
					changed = string(sa) != string(sb)
				}
				if changed {
					sm, e1 := da.Bytes()
					hm, e2 := da.Hash()
					m32, e3 := da.Base32Address()
					m64, e4 := da.Base64()
					shm := sha256.Sum256(sm)
					mut = map[string]any{"done": e1 == nil && e2 == nil && e3 == nil && e4 == nil, "ser": ints(sm), "hash": ints(hm[:]), "sha": ints(shm[:]),
						"b32": ints([]byte(m32)), "b64": ints([]byte(m64)), "ser_changed": string(sm) != string(sa)}
				}
			}
			r["dest"].(map[string]any)["mut"] = mut
		}
		ra, _, ea2 := router_identity.ReadRouterIdentity(ab)
		rb, _, eb2 := router_identity.ReadRouterIdentity(bb)
		r["ri_ok"] = ea2 == nil && eb2 == nil && ra != nil && rb != nil
		if r["ri_ok"].(bool) {
			sa, _ := ra.KeysAndCert.Bytes()
			sb, _ := rb.KeysAndCert.Bytes()
			r["ri"] = map[string]any{"sera": ints(sa), "serb": ints(sb), "eq_ab": ra.Equal(rb), "eq_ba": rb.Equal(ra), "eq_aa": ra.Equal(ra)}
		}
		return r
	})
}
