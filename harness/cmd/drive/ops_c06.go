package main

import (
	stdecdsa "crypto/ecdsa"
	stded "crypto/ed25519"
	"fmt"
	"math/rand"
	"reflect"
	"sync"
	"time"

	"github.com/go-i2p/common/data"
	"github.com/go-i2p/common/destination"
	"github.com/go-i2p/common/encrypted_leaseset"
	"github.com/go-i2p/common/lease"
	"github.com/go-i2p/common/lease_set"
	"github.com/go-i2p/common/lease_set2"
	"github.com/go-i2p/common/offline_signature"
	"github.com/go-i2p/common/router_address"
	"github.com/go-i2p/common/router_identity"
	"github.com/go-i2p/common/router_info"
	"github.com/go-i2p/crypto/dsa"
	"github.com/go-i2p/crypto/ecdsa"
	goed "github.com/go-i2p/crypto/ed25519"
	"github.com/go-i2p/crypto/types"
)

// depPrivateKey: the go-i2p/crypto private key object for a generated key pair (what the library's signing constructors take).
func depPrivateKey(kp keyPair) types.SigningPrivateKey {
	switch kp.st {
	case 7, 8, 11:
		k := goed.Ed25519PrivateKey(append([]byte{}, kp.priv.(stded.PrivateKey)...))
		return &k
	case 0:
		return kp.priv.(dsa.DSAPrivateKey)
	case 1:
		sk := kp.priv.(*stdecdsa.PrivateKey)
		d := make([]byte, 32)
		sk.D.FillBytes(d)
		k, err := ecdsa.NewECP256PrivateKey(d)
		if err != nil {
			return nil
		}
		return k
	}
	// P-384: go-i2p/crypto has no SigningPrivateKey implementation (ECP384PrivateKey lacks Generate/Public)
	return nil
}

func identityModel(st, ct int, spk []byte, rng *rand.Rand) Args {
	pubLen := 256
	if ct != 0 {
		pubLen = 32
	}
	pub := make([]byte, pubLen)
	rng.Read(pub)
	pub[0] = 1 + pub[0]%100
	pad := make([]byte, 384-pubLen-len(spk))
	rng.Read(pad)
	return Args{"st": float64(st), "ct": float64(ct), "pub": anyBytes(pub), "spk": anyBytes(spk), "padding": anyBytes(pad)}
}

// identityFor: the identity of a signing constructor; when the vector names a declared signing type (declst) the
// KeysAndCert is assembled by the caller as a struct literal declaring THAT type around the same (Ed25519-format) key
func identityFor(m Args, st int, spk []byte, rng *rand.Rand) Args {
	im := identityModel(st, m.Int("ct"), spk, rng)
	if m.Has("declst") {
		im["st"] = float64(m.Int("declst"))
		im["literal"] = true
	}
	return im
}

func literalDest(im Args) (*destination.Destination, error) {
	k, err := buildKAC(im)
	if err != nil {
		return nil, err
	}
	if im.Bool("literal") {
		return &destination.Destination{KeysAndCert: k}, nil
	}
	return destination.NewDestination(k)
}

func anyBytes(b []byte) []any {
	out := make([]any, len(b))
	for i, x := range b {
		out[i] = float64(x)
	}
	return out
}

// signedOutcome: verification of constructor output by the library, independently, and after the wire.
func signedOutcome(fn string, ser []byte, serOK bool, libVerifyOK bool, reader string, typ int, st int, signerPub []byte, siglen int, prefix []byte, idpub []byte) map[string]any {
	r := map[string]any{"ser": ints(ser), "serok": serOK, "verify_ok": libVerifyOK, "indep_ok": false, "rt_parse_ok": false, "rt_verify_ok": false, "rt_same": false}
	if !serOK || len(ser) < siglen {
		return r
	}
	msg := append(append([]byte{}, prefix...), ser[:len(ser)-siglen]...)
	r["indep_ok"] = indepVerify(st, signerPub, msg, ser[len(ser)-siglen:])
	p, v, _ := libVerify(reader, ser, Args{"typ": float64(typ)}, idpub)
	r["rt_parse_ok"], r["rt_verify_ok"] = p, v
	if rd, ok := readers[reader]; ok {
		o := rd(append([]byte{}, ser...), Args{"typ": float64(typ)})
		r["rt_same"] = o.OK && o.SerOK && string(o.Ser) == string(ser) && len(o.Rem) == 0
	}
	return r
}

// leaseOffset: end dates of the i-th of n leases, in seconds after the base instant: ascending (0), descending (1) or
// unordered with a repeated date (2) — the wire format prescribes no order and the signature covers the order given
func leaseOffset(order, i, n int) int64 {
	switch order {
	case 1:
		return int64(n - i)
	case 2:
		return int64((i*7 + 3) % 5)
	}
	return int64(i)
}

// afterQueries: every read-only argument-free method of the structure and of the parts it was built from (validity queries
// included) is called; then the structure has to verify and serialise exactly as before
func afterQueries(res Res, parts []any, ser0 []byte, again func() ([]byte, bool, bool)) {
	for _, p := range parts {
		v := reflect.ValueOf(p)
		if !v.IsValid() || (v.Kind() == reflect.Pointer && v.IsNil()) {
			continue
		}
		callAllMethods(v)
	}
	ser1, serOK, verOK := again()
	res["aq_done"], res["aq_verify"], res["aq_ser_same"] = true, verOK, serOK && string(ser1) == string(ser0)
}

func init() {
	register("SignBuild", func(s *Session, a Args) Res {
		rng := rand.New(rand.NewSource(s.Seed*104729 + int64(a.Int("stream"))))
		m := sub(a, "m")
		st := a.Int("st")
		id, err := genKey(st, rng)
		if err != nil {
			return Res{"setup": false, "err": errStr(err)}
		}
		opts, _ := pairsToMap(m, "pairs")
		res := Res{"setup": true, "ok": false, "err": ""}
		switch a.Str("fn") {
		case "NewRouterInfo":
			k, err := buildKAC(identityFor(m, st, id.pub, rng))
			if err != nil {
				return Res{"setup": false, "err": "identity: " + errStr(err)}
			}
			var ri *router_identity.RouterIdentity
			if m.Has("declst") {
				ri = &router_identity.RouterIdentity{KeysAndCert: k} // caller-assembled
			} else {
				ri, err = router_identity.NewRouterIdentityFromKeysAndCert(k)
				if err != nil {
					return Res{"setup": false, "err": "router identity: " + errStr(err)}
				}
			}
			var addrs []*router_address.RouterAddress
			for i := 0; i < m.Int("naddr"); i++ {
				ra, err := router_address.NewRouterAddress(uint8(i), time.Unix(0, 0), "NTCP2", opts)
				if err != nil {
					return Res{"setup": false, "err": "address: " + errStr(err)}
				}
				addrs = append(addrs, ra)
			}
			// addresses that only a parser produces (options in the wire order they arrived in)
			for _, rawa := range m.List("rawaddrs") {
				ra, _, rerr := router_address.ReadRouterAddress(toBytes(rawa))
				if rerr != nil {
					return Res{"setup": false, "err": "raw address: " + errStr(rerr)}
				}
				addrs = append(addrs, &ra)
			}
			info, err := router_info.NewRouterInfo(ri, unixTime(m, "pubsec", "pubneg", m.Int("pubns")), addrs, opts, depPrivateKey(id), st)
			res["ok"], res["err"] = err == nil && info != nil, errStr(err)
			if err == nil && info != nil {
				verr := info.Validate()
				res["hasvalid"], res["validok"] = true, verr == nil
				ser, serr := info.Bytes()
				good, verr2 := info.VerifySignature()
				for k, v := range signedOutcome("NewRouterInfo", ser, serr == nil, good && verr2 == nil, "ReadRouterInfo", 0, st, id.pub, a.Int("siglen"), a.Bytes("prefix"), id.pub) {
					res[k] = v
				}
				if p := info.Published(); p != nil {
					res["published"] = ints(p[:])
				}
				parts := []any{info, ri}
				for i, ra := range addrs {
					if i < 8 || i >= len(addrs)-2 {
						parts = append(parts, ra, ra.TransportOptions)
					}
				}
				afterQueries(res, parts, ser, func() ([]byte, bool, bool) {
					b, e := info.Bytes()
					g, ve := info.VerifySignature()
					return b, e == nil, g && ve == nil
				})
			}
		case "NewLeaseSet":
			var d *destination.Destination
			var err error
			if m.Has("idbase") {
				// a Destination that constructors cannot build (NULL certificate): parsed from the specification's
				// identity encoding with the generated signing key put into the slot the specification names
				base := append([]byte{}, m.Bytes("idbase")...)
				if !put(base, slotOf(m, "idslot"), id.pub) {
					return Res{"setup": false, "err": "identity key slot"}
				}
				dd, _, derr := destination.ReadDestination(base)
				d, err = &dd, derr
			} else {
				d, err = literalDest(identityFor(m, st, id.pub, rng))
			}
			if err != nil {
				return Res{"setup": false, "err": "destination: " + errStr(err)}
			}
			enc := make([]byte, 256)
			rng.Read(enc)
			enc[0] = 1 + enc[0]%100
			var leases []lease.Lease
			for i := 0; i < m.Int("nleases"); i++ {
				var gw data.Hash
				rng.Read(gw[:])
				l, err := lease.NewLease(gw, uint32(i+1), time.Unix(4102444800+leaseOffset(m.Int("lorder"), i, m.Int("nleases")), 0))
				if err != nil {
					return Res{"setup": false, "err": "lease: " + errStr(err)}
				}
				leases = append(leases, *l)
			}
			// the signing_key field of a legacy LeaseSet is a separate (revocation) key: either the destination's own key
			// again or an independent key of the same type
			fieldKey := id.pub
			if m.Bool("otherrevkey") {
				rk, rerr := genKey(st, rng)
				if rerr != nil {
					return Res{"setup": false, "err": errStr(rerr)}
				}
				fieldKey = rk.pub
			}
			ls, err := lease_set.NewLeaseSet(*d, mkPub(0, enc), mkSpk(st, fieldKey), leases, depPrivateKey(id))
			res["ok"], res["err"] = err == nil && ls != nil, errStr(err)
			if err == nil && ls != nil {
				verr := ls.Validate()
				res["hasvalid"], res["validok"] = true, verr == nil
				ser, serr := ls.Bytes()
				for k, v := range signedOutcome("NewLeaseSet", ser, serr == nil, ls.Verify() == nil, "ReadLeaseSet", 0, st, id.pub, a.Int("siglen"), a.Bytes("prefix"), id.pub) {
					res[k] = v
				}
				afterQueries(res, []any{ls, d}, ser, func() ([]byte, bool, bool) {
					b, e := ls.Bytes()
					return b, e == nil, ls.Verify() == nil
				})
			}
		case "CreateOfflineSignature":
			tk, err := genKey(m.Int("tst"), rng)
			if err != nil {
				return Res{"setup": false, "err": errStr(err)}
			}
			priv, ok := id.priv.(stded.PrivateKey)
			if !ok {
				return Res{"setup": false, "err": "destination key is not Ed25519-family"}
			}
			o, err := offline_signature.CreateOfflineSignature(uint32(u64(m.Bytes("expires"))), uint16(m.Int("tst")), tk.pub, priv, uint16(st))
			res["ok"], res["err"] = err == nil, errStr(err)
			if err == nil {
				verr := o.ValidateStructure()
				res["hasvalid"], res["validok"] = true, verr == nil
				good, verr2 := o.VerifySignature(id.pub)
				for k, v := range signedOutcome("CreateOfflineSignature", o.Bytes(), true, good && verr2 == nil, "ReadOfflineSignature", st, st, id.pub, a.Int("siglen"), a.Bytes("prefix"), id.pub) {
					res[k] = v
				}
			}
		case "NewEncryptedLeaseSet", "NewLeaseSet2":
			var off *offline_signature.OfflineSignature
			final := id
			if m.Bool("off") {
				tk, err := genKey(m.Int("tst"), rng)
				if err != nil {
					return Res{"setup": false, "err": errStr(err)}
				}
				priv, ok := id.priv.(stded.PrivateKey)
				if !ok {
					return Res{"setup": false, "err": "identity key is not Ed25519-family"}
				}
				o, err := offline_signature.CreateOfflineSignature(uint32(u64(m.Bytes("offexpires"))), uint16(m.Int("tst")), tk.pub, priv, uint16(st))
				if err != nil {
					return Res{"setup": false, "err": "offline: " + errStr(err)}
				}
				off = &o
				final = tk
			}
			var signingKey any
			if pk, ok := final.priv.(stded.PrivateKey); ok {
				signingKey = pk
			} else {
				signingKey = depPrivateKey(final)
			}
			if m.Bool("edsigner") {
				// a caller who signs with the identity's own Ed25519 key although the offline block announces another transient type
				if pk, ok := id.priv.(stded.PrivateKey); ok {
					signingKey = pk
				}
			}
			if a.Str("fn") == "NewEncryptedLeaseSet" {
				inner := make([]byte, m.Int("innerlen"))
				rng.Read(inner)
				blinded := id.pub
				if d := m.Int("keydelta"); d < 0 {
					blinded = blinded[:len(blinded)+d]
				} else if d > 0 {
					blinded = append(append([]byte{}, blinded...), make([]byte, d)...)
				}
				var els *encrypted_leaseset.EncryptedLeaseSet
				var err error
				if m.Bool("viadest") {
					// the twin constructor: signing type and blinded key are taken from a (blinded) Destination
					var bd *destination.Destination
					bd, err = literalDest(identityModel(st, 4, blinded, rng))
					if err != nil || bd == nil {
						return Res{"setup": false, "err": "blinded destination: " + errStr(err)}
					}
					els, err = encrypted_leaseset.NewEncryptedLeaseSetFromDestination(*bd, uint32(u64(m.Bytes("published"))), uint16(m.Int("expires")), uint16(m.Int("flags")), off, inner, signingKey)
				} else {
					els, err = encrypted_leaseset.NewEncryptedLeaseSet(uint16(st), blinded, uint32(u64(m.Bytes("published"))), uint16(m.Int("expires")), uint16(m.Int("flags")), off, inner, signingKey)
				}
				res["ok"], res["err"] = err == nil && els != nil, errStr(err)
				if err == nil && els != nil {
					verr := els.Validate()
					res["hasvalid"], res["validok"] = true, verr == nil
					ser, serr := els.Bytes()
					for k, v := range signedOutcome("NewEncryptedLeaseSet", ser, serr == nil, els.Verify() == nil, "ReadEncryptedLeaseSet", 0, final.st, final.pub, a.Int("siglen"), a.Bytes("prefix"), id.pub) {
						res[k] = v
					}
				}
			} else {
				var d *destination.Destination
				d, err = literalDest(identityFor(m, st, id.pub, rng))
				if err != nil {
					return Res{"setup": false, "err": "destination: " + errStr(err)}
				}
				mp, merr := data.GoMapToMapping(opts)
				if merr != nil {
					return Res{"setup": false, "err": "options: " + errStr(merr)}
				}
				if m.Has("rawopts") {
					// an options mapping that only a parser produces (pairs in the wire order they arrived in)
					pm, _, perrs := data.ReadMapping(m.Bytes("rawopts"))
					if len(perrs) > 0 {
						return Res{"setup": false, "err": "raw options do not parse"}
					}
					mp = &pm
				}
				var keys []lease_set2.EncryptionKey
				// encryption-key entries of the legacy 256-byte type whose bytes are an extreme number (the constructor only looks at the length)
				switch m.Str("elgkeys") {
				case "zeros":
					keys = append(keys, lease_set2.EncryptionKey{KeyType: 0, KeyLen: 256, KeyData: make([]byte, 256)})
				case "ones":
					kd := make([]byte, 256)
					for i := range kd {
						kd[i] = 0xFF
					}
					keys = append(keys, lease_set2.EncryptionKey{KeyType: 0, KeyLen: 256, KeyData: kd})
				case "one":
					kd := make([]byte, 256)
					kd[255] = 1
					keys = append(keys, lease_set2.EncryptionKey{KeyType: 0, KeyLen: 256, KeyData: kd})
				case "random":
					kd := make([]byte, 256)
					rng.Read(kd)
					keys = append(keys, lease_set2.EncryptionKey{KeyType: 0, KeyLen: 256, KeyData: kd})
				}
				for i := 0; i < m.Int("nkeys"); i++ {
					kd := make([]byte, 32)
					rng.Read(kd)
					keys = append(keys, lease_set2.EncryptionKey{KeyType: 4, KeyLen: 32, KeyData: kd})
				}
				var leases []lease.Lease2
				for i := 0; i < m.Int("nleases"); i++ {
					var gw data.Hash
					rng.Read(gw[:])
					l, err := lease.NewLease2(gw, uint32(i+1), time.Unix(4102444800+leaseOffset(m.Int("lorder"), i, m.Int("nleases")), 0))
					if err != nil {
						return Res{"setup": false, "err": "lease2: " + errStr(err)}
					}
					leases = append(leases, *l)
				}
				ls, err := lease_set2.NewLeaseSet2(*d, uint32(u64(m.Bytes("published"))), uint16(m.Int("expires")), uint16(m.Int("flags")), off, *mp, keys, leases, signingKey)
				res["ok"], res["err"] = err == nil, errStr(err)
				if err == nil {
					verr := ls.Validate()
					res["hasvalid"], res["validok"] = true, verr == nil
					ser, serr := ls.Bytes()
					for k, v := range signedOutcome("NewLeaseSet2", ser, serr == nil, ls.Verify() == nil, "ReadLeaseSet2", 0, final.st, final.pub, a.Int("siglen"), a.Bytes("prefix"), id.pub) {
						res[k] = v
					}
					afterQueries(res, []any{ls, mp, d, off}, ser, func() ([]byte, bool, bool) {
						b, e := ls.Bytes()
						return b, e == nil, ls.Verify() == nil
					})
				}
			}
		default:
			return Res{"unknown_fn": true}
		}
		if _, ok := res["ser"]; !ok {
			res["ser"], res["serok"], res["verify_ok"], res["indep_ok"], res["rt_parse_ok"], res["rt_verify_ok"], res["rt_same"] = []int{}, false, false, false, false, false, false
		}
		if _, ok := res["aq_done"]; !ok {
			res["aq_done"], res["aq_verify"], res["aq_ser_same"] = false, false, false
		}
		if _, ok := res["hasvalid"]; !ok {
			res["hasvalid"], res["validok"] = false, false
		}
		return res
	})
}

func init() {
	// ConcurrentSign: the same signing constructor call made by n goroutines at once, each with its own fresh keys (so each builds,
	// signs, verifies, serialises and re-parses a DIFFERENT structure), reps times each; before that, once sequentially.
	// Every structure has to verify exactly as the sequentially built one does.
	register("ConcurrentSign", func(s *Session, a Args) Res {
		build := ops["SignBuild"]
		with := func(stream int) Args {
			c := Args{}
			for k, v := range a {
				c[k] = v
			}
			c["stream"] = float64(stream)
			return c
		}
		good := func(r Res) bool {
			for _, k := range []string{"setup", "ok", "verify_ok", "indep_ok", "rt_parse_ok", "rt_verify_ok"} {
				if b, _ := r[k].(bool); !b {
					return false
				}
			}
			return true
		}
		seq := build(s, with(a.Int("stream")))
		n, reps := a.Int("n"), a.Int("reps")
		var wg sync.WaitGroup
		var mu sync.Mutex
		nfail, panics := 0, 0
		example := ""
		gate := make(chan struct{})
		for g := 0; g < n; g++ {
			wg.Add(1)
			go func(g int) {
				defer wg.Done()
				defer func() {
					if p := recover(); p != nil {
						mu.Lock()
						panics++
						mu.Unlock()
					}
				}()
				<-gate
				for r := 0; r < reps; r++ {
					out := build(s, with(a.Int("stream")+(g+1)*100003+r))
					if !good(out) {
						mu.Lock()
						nfail++
						if example == "" {
							example = fmt.Sprintf("ok=%v verify=%v indep=%v rt_parse=%v rt_verify=%v err=%v", out["ok"], out["verify_ok"], out["indep_ok"], out["rt_parse_ok"], out["rt_verify_ok"], out["err"])
						}
						mu.Unlock()
					}
				}
			}(g)
		}
		close(gate)
		wg.Wait()
		return Res{"setup": true, "seq_good": good(seq), "nruns": n * reps, "nfail": nfail, "panics": panics, "example": example}
	})
}
