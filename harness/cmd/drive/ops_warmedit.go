package main

import (
	"fmt"
	"reflect"
	"strings"

	"github.com/go-i2p/common/certificate"
	"github.com/go-i2p/common/data"
	"github.com/go-i2p/common/destination"
	"github.com/go-i2p/common/lease_set"
	"github.com/go-i2p/common/lease_set2"
	"github.com/go-i2p/common/meta_leaseset"
	"github.com/go-i2p/common/keys_and_cert"
	"github.com/go-i2p/common/router_address"
	"github.com/go-i2p/common/router_identity"
	"github.com/go-i2p/common/router_info"
)

// WarmEdit: derived values follow the fields they are derived from.
//
// Two accepted encodings A and B of the same shape.  For every place of the value that a caller can reach and assign to
// through the public API (exported fields, recursively, and the structs behind argument-free accessors that return a
// pointer), two fresh parses of A are taken:
//
//	V1: every read-only method is called first (anything the library memoises is now warm), then the place is
//	    given B's content, then every read-only method is called again;
//	V2: the place is given B's content straight away, then every read-only method is called.
//
// V1 and V2 hold the same fields, so every method has to answer alike; a difference is a derived value that did not
// follow the edit (a cache, a stored serialisation, a field computed once at construction time).

type editStep struct {
	field  int    // exported field index, or -1
	method string // argument-free accessor returning a pointer to a struct
}

func (p editStep) String() string {
	if p.field == -2 {
		return ".*"
	}
	if p.field >= 0 {
		return fmt.Sprintf(".%d", p.field)
	}
	return "." + p.method + "()"
}

func isByteSlice(t reflect.Type) bool {
	return t.Kind() == reflect.Slice && t.Elem().Kind() == reflect.Uint8
}

// editable places below the struct value sv (addressable), as paths
func editPlaces(sv reflect.Value, path []editStep, depth int, out *[][]editStep, names *[]string, name string) {
	if depth > 3 || len(*out) >= 14 || sv.Kind() != reflect.Struct {
		return
	}
	t := sv.Type()
	for i := 0; i < t.NumField(); i++ {
		f := t.Field(i)
		if !f.IsExported() {
			continue
		}
		p := append(append([]editStep{}, path...), editStep{field: i})
		n := name + "." + f.Name
		fv := sv.Field(i)
		switch {
		case isByteSlice(f.Type), f.Type.Kind() == reflect.Interface:
			*out = append(*out, p)
			*names = append(*names, n)
		case f.Type.Kind() == reflect.Pointer && f.Type.Elem().Kind() == reflect.Struct:
			*out = append(*out, p)
			*names = append(*names, n)
			if !fv.IsNil() {
				// ... and the struct BEHIND the pointer as a whole (`*v.F = *other.F`: the pointer stays, its target gets new content)
				*out = append(*out, append(append([]editStep{}, p...), editStep{field: -2}))
				*names = append(*names, "*"+n)
			}
			if !fv.IsNil() {
				editPlaces(fv.Elem(), p, depth+1, out, names, n)
			}
		case f.Type.Kind() == reflect.Pointer && isByteSlice(f.Type.Elem()):
			*out = append(*out, p)
			*names = append(*names, n)
		case f.Type.Kind() == reflect.Struct:
			editPlaces(fv, p, depth+1, out, names, n)
		}
	}
}

// resolve walks a path from the value a reader returned (a pointer to a struct) to the place; ok=false when it is not there
func resolvePlace(root reflect.Value, path []editStep) (reflect.Value, bool) {
	cur := root
	for _, st := range path {
		for cur.Kind() == reflect.Pointer {
			if cur.IsNil() {
				return reflect.Value{}, false
			}
			cur = cur.Elem()
		}
		if st.field == -2 {
			// cur was dereferenced above: the pointee itself is the place
			continue
		}
		if st.field >= 0 {
			if cur.Kind() != reflect.Struct || st.field >= cur.NumField() {
				return reflect.Value{}, false
			}
			cur = cur.Field(st.field)
		} else {
			if !cur.CanAddr() {
				return reflect.Value{}, false
			}
			m := cur.Addr().MethodByName(st.method)
			if !m.IsValid() {
				return reflect.Value{}, false
			}
			outs := m.Call(nil)
			if len(outs) == 0 || outs[0].Kind() != reflect.Pointer || outs[0].IsNil() {
				return reflect.Value{}, false
			}
			cur = outs[0]
		}
	}
	return cur, true
}

// coldCopy: the value as a caller would write it down from its exported fields: a new struct whose exported fields are assigned from
// v's (pointers to structs that themselves have exported fields are written down afresh too); unexported fields stay zero.  Only for
// types ALL of whose fields are exported (otherwise the unexported part is state, not memo).
func coldCopy(v reflect.Value, depth int) (reflect.Value, bool) {
	if v.Kind() != reflect.Pointer || v.IsNil() || v.Elem().Kind() != reflect.Struct {
		return reflect.Value{}, false
	}
	t := v.Elem().Type()
	if t.NumField() == 0 {
		return reflect.Value{}, false
	}
	for i := 0; i < t.NumField(); i++ {
		if !t.Field(i).IsExported() {
			return reflect.Value{}, false
		}
	}
	n := reflect.New(t)
	for i := 0; i < t.NumField(); i++ {
		fv := v.Elem().Field(i)
		if depth < 2 && fv.Kind() == reflect.Pointer && !fv.IsNil() && fv.Elem().Kind() == reflect.Struct {
			if c, ok := coldCopy(fv, depth+1); ok {
				n.Elem().Field(i).Set(c)
				continue
			}
		}
		n.Elem().Field(i).Set(fv)
	}
	return n, true
}

func renderAllMethods(v reflect.Value) map[string]string {
	out := map[string]string{}
	for _, i := range readOnlyMethods(v) {
		name := v.Type().Method(i).Name
		func() {
			defer func() {
				if recover() != nil {
					out[name] = "<panic>"
				}
			}()
			out[name] = render(v.Method(i).Call(nil))
		}()
	}
	return out
}

// coldReaders: parser entry points called bare (the Reader wrappers of the other ops serialise and project what they return,
// which would warm anything the library memoises)
var coldReaders = map[string]func(in []byte) (any, error){
	"ReadKeysAndCert": func(in []byte) (any, error) { k, _, err := keys_and_cert.ReadKeysAndCert(in); return k, err },
	"ReadDestination": func(in []byte) (any, error) { d, _, err := destination.ReadDestination(in); return &d, err },
	"NewDestinationFromBytes": func(in []byte) (any, error) {
		d, _, err := destination.NewDestinationFromBytes(in)
		return d, err
	},
	"ReadRouterIdentity": func(in []byte) (any, error) { r, _, err := router_identity.ReadRouterIdentity(in); return r, err },
	"NewRouterIdentityFromBytes": func(in []byte) (any, error) {
		r, _, err := router_identity.NewRouterIdentityFromBytes(in)
		return r, err
	},
	"ReadMapping": func(in []byte) (any, error) {
		m, _, errs := data.ReadMapping(in)
		return &m, data.WrapErrors(errs)
	},
	"NewMapping":        func(in []byte) (any, error) { m, _, errs := data.NewMapping(in); if m == nil { return nil, data.WrapErrors(errs) }; return m, data.WrapErrors(errs) },
	"ReadLeaseSet2":     func(in []byte) (any, error) { l, _, err := lease_set2.ReadLeaseSet2(in); return &l, err },
	"ReadMetaLeaseSet":  func(in []byte) (any, error) { l, _, err := meta_leaseset.ReadMetaLeaseSet(in); return &l, err },
	"ReadLeaseSet":      func(in []byte) (any, error) { l, err := lease_set.ReadLeaseSet(in); return &l, err },
	"ReadCertificate":   func(in []byte) (any, error) { c, _, err := certificate.ReadCertificate(in); return c, err },
	"ReadRouterInfo":    func(in []byte) (any, error) { r, _, err := router_info.ReadRouterInfo(in); return &r, err },
	"ReadRouterAddress": func(in []byte) (any, error) { r, _, err := router_address.ReadRouterAddress(in); return &r, err },
}

func init() {
	register("WarmEdit", func(s *Session, a Args) Res {
		rd, ok := readers[a.Str("fn")]
		if !ok {
			return Res{"unknown_fn": true}
		}
		_ = rd
		cold, okc := coldReaders[a.Str("fn")]
		if !okc {
			return Res{"unknown_fn": true}
		}
		parse := func(key string) (reflect.Value, bool) {
			// the library's parser and nothing else: no method of the value has been called when it comes back
			val, perr := cold(append([]byte{}, a.Bytes(key)...))
			if perr != nil || val == nil {
				return reflect.Value{}, false
			}
			v := reflect.ValueOf(val)
			if v.Kind() != reflect.Pointer || v.IsNil() || v.Elem().Kind() != reflect.Struct {
				return reflect.Value{}, false
			}
			return v, true
		}
		probe, okA := parse("a")
		_, okB := parse("b")
		if !okA || !okB {
			return Res{"setup": false, "places": []string{}, "stale": []any{}, "nplaces": 0, "sibling": []any{}, "nsibling": 0, "sibling_in_same": true}
		}
		var paths [][]editStep
		var names []string
		editPlaces(probe.Elem(), nil, 0, &paths, &names, "")
		// ... and behind accessors that hand out a pointer to a struct of the library
		pt := probe.Type()
		for i := 0; i < pt.NumMethod(); i++ {
			m := pt.Method(i)
			if m.Type.NumIn() != 1 || m.Type.NumOut() != 1 || m.Type.Out(0).Kind() != reflect.Pointer || m.Type.Out(0).Elem().Kind() != reflect.Struct {
				continue
			}
			if strings.HasPrefix(m.Name, "Set") || strings.HasPrefix(m.Name, "Add") || strings.HasPrefix(m.Name, "With") {
				continue
			}
			outs := probe.Method(i).Call(nil)
			if outs[0].IsNil() {
				continue
			}
			editPlaces(outs[0].Elem(), []editStep{{field: -1, method: m.Name}}, 1, &paths, &names, "."+m.Name+"()")
		}
		stale := []any{}
		done := []string{}
		for k, path := range paths {
			v1, ok1 := parse("a")
			v2, ok2 := parse("a")
			b1, ok3 := parse("b")
			b2, ok4 := parse("b")
			if !(ok1 && ok2 && ok3 && ok4) {
				continue
			}
			src1, okS1 := resolvePlace(b1, path)
			src2, okS2 := resolvePlace(b2, path)
			if !okS1 || !okS2 {
				continue
			}
			renderAllMethods(v1) // warm
			dst1, okD1 := resolvePlace(v1, path)
			dst2, okD2 := resolvePlace(v2, path)
			if !okD1 || !okD2 || !dst1.CanSet() || !dst2.CanSet() || dst1.Type() != src1.Type() {
				continue
			}
			dst1.Set(src1)
			dst2.Set(src2)
			r1, r2 := renderAllMethods(v1), renderAllMethods(v2)
			done = append(done, names[k])
			for name, x := range r2 {
				if r1[name] != x && len(stale) < 12 {
					stale = append(stale, map[string]any{"place": names[k], "method": name})
				}
			}
			// ... and like a value written down afresh from the exported fields it has now (nothing unexported carried over)
			if cc, okc := coldCopy(v1, 0); okc {
				rc := renderAllMethods(cc)
				for name, x := range rc {
					if r1[name] != x && len(stale) < 12 {
						stale = append(stale, map[string]any{"place": names[k] + " (against a fresh literal)", "method": name})
					}
				}
			}
		}
		// ... and a COPY of the value (a struct copy, as a caller writes `upd := *v`) whose exported field was given B's content and which
		// is then queried and serialised: the original - and the buffer it was parsed from - must not notice
		sibling := []any{}
		siblingIn := true
		nsib := 0
		for k, path := range paths {
			if len(path) != 1 || path[0].field < 0 {
				continue
			}
			orig := a.Bytes("a")
			inA := append([]byte{}, orig...)
			val, perr := cold(inA)
			b1, okb := parse("b")
			if perr != nil || val == nil || !okb {
				continue
			}
			v0 := reflect.ValueOf(val)
			if v0.Kind() != reflect.Pointer || v0.IsNil() || v0.Elem().Kind() != reflect.Struct {
				continue
			}
			src, okS := resolvePlace(b1, path)
			if !okS {
				continue
			}
			before := renderAllMethods(v0)
			u := reflect.New(v0.Elem().Type())
			u.Elem().Set(v0.Elem())
			dst, okD := resolvePlace(u, path)
			if !okD || !dst.CanSet() || dst.Type() != src.Type() {
				continue
			}
			dst.Set(src)
			renderAllMethods(u)
			after := renderAllMethods(v0)
			nsib++
			for name, x := range before {
				if after[name] != x && len(sibling) < 12 {
					sibling = append(sibling, map[string]any{"place": names[k], "method": name})
				}
			}
			if string(inA) != string(orig) {
				siblingIn = false
			}
		}
		// ... and all of them at once: a value every exported field of which was given B's content is B, whatever it answered before
		// (this also reaches what the library computes once while parsing or constructing)
		if v3, ok3 := parse("a"); ok3 {
			if bsrc, okb := parse("b"); okb {
				if bref, okr := parse("b"); okr {
					renderAllMethods(v3)
					t := v3.Elem().Type()
					n := 0
					for i := 0; i < t.NumField(); i++ {
						if t.Field(i).IsExported() && v3.Elem().Field(i).CanSet() {
							v3.Elem().Field(i).Set(bsrc.Elem().Field(i))
							n++
						}
					}
					if n > 0 {
						r3, rb := renderAllMethods(v3), renderAllMethods(bref)
						done = append(done, "*every exported field*")
						for name, x := range rb {
							if r3[name] != x && len(stale) < 12 {
								stale = append(stale, map[string]any{"place": "*every exported field*", "method": name})
							}
						}
					}
				}
			}
		}
		return Res{"setup": true, "places": done, "nplaces": len(done), "stale": stale, "sibling": sibling, "nsibling": nsib, "sibling_in_same": siblingIn}
	})
}
