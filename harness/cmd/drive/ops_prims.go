package main

import (
	"encoding/binary"
	"time"

	"github.com/go-i2p/common/data"
)

func be8(v uint64) []byte {
	b := make([]byte, 8)
	binary.BigEndian.PutUint64(b, v)
	return b
}

func u64(b []byte) uint64 {
	var buf [8]byte
	if len(b) > 8 {
		b = b[len(b)-8:]
	}
	copy(buf[8-len(b):], b)
	return binary.BigEndian.Uint64(buf[:])
}

// signed: magnitude limbs + sign flag -> int64 (caller guarantees magnitude <= 2^63)
func sint(a Args, k, neg string) int64 {
	v := u64(a.Bytes(k))
	if a.Bool(neg) {
		return -int64(v)
	}
	return int64(v)
}

func sintOut(v int64) (mag []int, neg bool) {
	if v < 0 {
		return ints(be8(uint64(-v))), true
	}
	return ints(be8(uint64(v))), false
}

func encInt(fn string, value, size int) (bool, []byte) {
	switch fn {
	case "NewIntegerFromInt":
		i, err := data.NewIntegerFromInt(value, size)
		if err != nil || i == nil {
			return false, nil
		}
		return true, i.Bytes()
	case "EncodeIntN":
		b, err := data.EncodeIntN(value, size)
		if err != nil {
			return false, nil
		}
		return true, b
	}
	panic("unknown fn " + fn)
}

func decInt(fn string, in []byte) (ok bool, v uint64) {
	switch fn {
	case "Int":
		return true, uint64(data.Integer(in).Int())
	case "IntSafe":
		x, err := data.Integer(in).IntSafe()
		return err == nil, uint64(x)
	case "UintSafe":
		x, err := data.Integer(in).UintSafe()
		return err == nil, x
	case "DecodeIntN":
		x, err := data.DecodeIntN(in)
		return err == nil, uint64(x)
	}
	panic("unknown fn " + fn)
}

func init() {
	register("EncInt", func(s *Session, a Args) Res {
		ok, out := encInt(a.Str("fn"), int(sint(a, "v", "neg")), a.Int("size"))
		return Res{"ok": ok, "out": ints(out)}
	})
	register("EncRange", func(s *Session, a Args) Res {
		from, to, size := a.Int("from"), a.Int("to"), a.Int("size")
		var runs [][]any
		var outs []byte
		start, prev := from, false
		for v := from; v <= to; v++ {
			ok, out := encInt(a.Str("fn"), v, size)
			if v > from && ok != prev {
				runs = append(runs, []any{start, v - 1, prev})
				start = v
			}
			prev = ok
			if ok {
				outs = append(outs, out...)
			}
		}
		runs = append(runs, []any{start, to, prev})
		return Res{"runs": runs, "outs": ints(outs)}
	})
	register("DecInt", func(s *Session, a Args) Res {
		ok, v := decInt(a.Str("fn"), a.Bytes("in"))
		return Res{"ok": ok, "v": ints(be8(v))}
	})
	register("DecChunks", func(s *Session, a Args) Res {
		blob, w := a.Bytes("blob"), a.Int("width")
		var vals []byte
		allok := true
		n := 0
		for i := 0; i+w <= len(blob); i += w {
			ok, v := decInt(a.Str("fn"), blob[i:i+w])
			allok = allok && ok
			vals = append(vals, be8(v)...)
			n++
		}
		return Res{"allok": allok, "n": n, "vals": ints(vals)}
	})
	register("ReadInt", func(s *Session, a Args) Res {
		in := a.Bytes("in")
		switch a.Str("fn") {
		case "ReadInteger":
			v, rem := data.ReadInteger(in, a.Int("size"))
			return Res{"val": ints(v), "rem": ints(rem), "err": false}
		case "NewInteger":
			v, rem, err := data.NewInteger(in, a.Int("size"))
			var vb []byte
			if v != nil {
				vb = *v
			}
			return Res{"val": ints(vb), "rem": ints(rem), "err": err != nil}
		}
		panic("unknown fn")
	})
	register("CtorTwins", func(s *Session, a Args) Res {
		if a.Str("fn") == "int" {
			ok1, o1 := encInt("NewIntegerFromInt", int(u64(a.Bytes("v"))), a.Int("size"))
			ok2, o2 := encInt("EncodeIntN", int(u64(a.Bytes("v"))), a.Int("size"))
			return Res{"ok1": ok1, "ok2": ok2, "out1": ints(o1), "out2": ints(o2)}
		}
		s1, e1 := data.NewI2PString(string(a.Bytes("s")))
		s2, e2 := data.ToI2PString(string(a.Bytes("s")))
		return Res{"ok1": e1 == nil, "ok2": e2 == nil, "out1": ints(s1), "out2": ints(s2)}
	})
	register("IntFromBytes", func(s *Session, a Args) Res {
		i, err := data.NewIntegerFromBytes(a.Bytes("in"))
		return Res{"ok": err == nil, "out": ints(i)}
	})
	register("Fixed", func(s *Session, a Args) Res {
		bits := u64(a.Bytes("bits"))
		switch a.Str("fn") {
		case "U16":
			e := data.EncodeUint16(uint16(bits))
			return Res{"enc": ints(e[:]), "dec": ints(be8(uint64(data.DecodeUint16(e))))}
		case "U32":
			e := data.EncodeUint32(uint32(bits))
			return Res{"enc": ints(e[:]), "dec": ints(be8(uint64(data.DecodeUint32(e))))}
		case "U64":
			e := data.EncodeUint64(bits)
			return Res{"enc": ints(e[:]), "dec": ints(be8(data.DecodeUint64(e)))}
		case "I16":
			e := data.EncodeInt16(int16(uint16(bits)))
			return Res{"enc": ints(e[:]), "dec": ints(be8(uint64(uint16(data.DecodeInt16(e)))))}
		case "I32":
			e := data.EncodeInt32(int32(uint32(bits)))
			return Res{"enc": ints(e[:]), "dec": ints(be8(uint64(uint32(data.DecodeInt32(e)))))}
		case "I64":
			e := data.EncodeInt64(int64(bits))
			return Res{"enc": ints(e[:]), "dec": ints(be8(uint64(data.DecodeInt64(e))))}
		}
		panic("unknown fn")
	})
	register("DateNew", func(s *Session, a Args) Res {
		var d *data.Date
		var err error
		switch a.Str("fn") {
		case "NewDateFromMillis":
			d, err = data.NewDateFromMillis(sint(a, "v", "neg"))
		case "NewDateFromUnix":
			d, err = data.NewDateFromUnix(sint(a, "v", "neg"))
		case "DateFromTime":
			d, err = data.DateFromTime(time.Unix(sint(a, "v", "neg"), int64(a.Int("ns"))))
		default:
			panic("unknown fn")
		}
		if err != nil || d == nil {
			return Res{"ok": false, "out": []int{}}
		}
		return Res{"ok": true, "out": ints(d.Bytes())}
	})
	register("DateGet", func(s *Session, a Args) Res {
		var d data.Date
		copy(d[:], a.Bytes("in"))
		t := d.Time()
		mag, neg := sintOut(t.Unix())
		return Res{"sec": mag, "secneg": neg, "ns": t.Nanosecond(), "int": ints(be8(uint64(d.Int()))),
			"bytes": ints(d.Bytes()), "iszero": d.IsZero()}
	})
	register("NewStr", func(s *Session, a Args) Res {
		var out data.I2PString
		var err error
		switch a.Str("fn") {
		case "NewI2PString":
			out, err = data.NewI2PString(string(a.Bytes("s")))
		case "ToI2PString":
			out, err = data.ToI2PString(string(a.Bytes("s")))
		default:
			panic("unknown fn")
		}
		return Res{"ok": err == nil, "out": ints(out)}
	})
	register("StrFromBytes", func(s *Session, a Args) Res {
		out, err := data.NewI2PStringFromBytes(a.Bytes("in"))
		return Res{"ok": err == nil, "out": ints(out)}
	})
	register("StrGet", func(s *Session, a Args) Res {
		str := data.I2PString(a.Bytes("in"))
		d1, e1 := str.Data()
		d2, e2 := str.DataSafe()
		l, e3 := str.Length()
		return Res{"data_ok": e1 == nil, "data": ints([]byte(d1)), "safe_ok": e2 == nil, "safe": ints([]byte(d2)),
			"len_ok": e3 == nil, "len": l, "valid": str.IsValid()}
	})

	regReader("ReadI2PString", func(in []byte, a Args) ReadOut {
		str, rem, err := data.ReadI2PString(in)
		return ReadOut{OK: err == nil, Val: str, Ser: []byte(str), SerOK: true, Rem: rem, HasRem: true, Err: errStr(err)}
	})
	regReader("ReadDate", func(in []byte, a Args) ReadOut {
		d, rem, err := data.ReadDate(in)
		return ReadOut{OK: err == nil, Val: d, Ser: d.Bytes(), SerOK: true, Rem: rem, HasRem: true, Err: errStr(err)}
	})
	regReader("NewDate", func(in []byte, a Args) ReadOut {
		d, rem, err := data.NewDate(in)
		o := ReadOut{OK: err == nil && d != nil, Val: d, Rem: rem, HasRem: true, Err: errStr(err)}
		if o.OK {
			o.Ser, o.SerOK = d.Bytes(), true
		}
		return o
	})
	regReader("ReadHash", func(in []byte, a Args) ReadOut {
		h, rem, err := data.ReadHash(in)
		b := h.Bytes()
		return ReadOut{OK: err == nil, Val: h, Ser: b[:], SerOK: true, Rem: rem, HasRem: true, Err: errStr(err)}
	})
	regReader("NewHashFromSlice", func(in []byte, a Args) ReadOut {
		h, err := data.NewHashFromSlice(in)
		b := h.Bytes()
		return ReadOut{OK: err == nil, Val: h, Ser: b[:], SerOK: true, HasRem: false, Err: errStr(err)}
	})
	// ReadInteger has no error channel: "accepted" = an integer of the requested width came back.
	regReader("ReadInteger", func(in []byte, a Args) ReadOut {
		v, rem := data.ReadInteger(in, a.Int("size"))
		return ReadOut{OK: v != nil && len(v) == a.Int("size"), Val: v, Ser: v.Bytes(), SerOK: true, Rem: rem, HasRem: true}
	})
	regReader("NewInteger", func(in []byte, a Args) ReadOut {
		v, rem, err := data.NewInteger(in, a.Int("size"))
		o := ReadOut{OK: err == nil && v != nil && *v != nil && len(*v) == a.Int("size"), Rem: rem, HasRem: true, Err: errStr(err)}
		if v != nil {
			o.Val, o.Ser, o.SerOK = *v, v.Bytes(), true
		}
		return o
	})
}
