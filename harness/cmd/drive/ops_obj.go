package main

import (
	"github.com/go-i2p/common/certificate"
	"github.com/go-i2p/common/data"
	"github.com/go-i2p/common/destination"
	"github.com/go-i2p/common/key_certificate"
	"github.com/go-i2p/common/keys_and_cert"
	"github.com/go-i2p/common/router_address"
	"github.com/go-i2p/common/router_identity"
	"github.com/go-i2p/common/router_info"
	"github.com/go-i2p/common/session_key"
	"github.com/go-i2p/common/session_tag"
	"github.com/go-i2p/crypto/types"
)

// Mutable objects (Objects.tla): ObjNew creates the session's object, ObjCall applies one exported mutator to it.
// After a call the driver reports what the call returned and, when asked, what the public API shows of the object.

// kept: values the object handed out earlier in the session (certificates a builder built, identities made from them, struct copies
// of a RouterInfo) with what they serialised to at the time.  Later calls on the object must not change them.
type keptItem struct {
	what string
	ser  func() ([]byte, bool)
	was  []byte
}

func keep(s *Session, what string, ser func() ([]byte, bool)) {
	b, ok := ser()
	if !ok {
		return
	}
	l, _ := s.Vals["kept"].(*[]keptItem)
	if l == nil {
		l = &[]keptItem{}
		s.Vals["kept"] = l
	}
	if len(*l) < 64 {
		*l = append(*l, keptItem{what, ser, append([]byte{}, b...)})
	}
}

// keptBefore: the first n kept items (those that existed before the current call)
func keptBefore(s *Session, n int) (int, bool, string) {
	l, _ := s.Vals["kept"].(*[]keptItem)
	if l == nil || n == 0 {
		return 0, true, ""
	}
	for _, k := range (*l)[:n] {
		b, ok := k.ser()
		if !ok || string(b) != string(k.was) {
			return n, false, k.what
		}
	}
	return n, true, ""
}

func keptState(s *Session) (n int, unchanged bool, which string) {
	l, _ := s.Vals["kept"].(*[]keptItem)
	if l == nil {
		return 0, true, ""
	}
	for _, k := range *l {
		b, ok := k.ser()
		if !ok || string(b) != string(k.was) {
			return len(*l), false, k.what
		}
	}
	return len(*l), true, ""
}

// keepCertificate: the certificate itself, and - when it is a KEY certificate for Ed25519/X25519-sized keys - a RouterIdentity and a
// Destination made from it through the library's constructors (they hold on to the certificate they were given)
func keepCertificate(s *Session, c *certificate.Certificate) {
	if c == nil {
		return
	}
	keep(s, "certificate", func() ([]byte, bool) { return c.Bytes(), true })
	kc, err := key_certificate.KeyCertificateFromCertificate(c)
	if err != nil || kc == nil {
		return
	}
	keep(s, "key certificate", func() ([]byte, bool) { return kc.Certificate.Bytes(), true })
	sps, cps := kc.SigningPublicKeySize(), kc.CryptoSize()
	if sps <= 0 || cps <= 0 || sps > 128 || cps > 256 {
		return
	}
	im := Args{"st": float64(kc.SigningPublicKeyType()), "ct": float64(kc.PublicKeyType()), "pub": anyBytes(fillBytes(cps, 3)), "spk": anyBytes(fillBytes(sps, 5)),
		"padding": anyBytes(fillBytes(384-cps-sps, 7))}
	var pub types.ReceivingPublicKey = mkPub(im.Int("ct"), im.Bytes("pub"))
	var spk types.SigningPublicKey = mkSpk(im.Int("st"), im.Bytes("spk"))
	if pub == nil || spk == nil {
		return
	}
	if k, err := keys_and_cert.NewKeysAndCert(kc, pub, im.Bytes("padding"), spk); err == nil && k != nil {
		keep(s, "keys and cert", func() ([]byte, bool) { b, e := k.Bytes(); return b, e == nil })
		if ri, err := router_identity.NewRouterIdentityFromKeysAndCert(k); err == nil && ri != nil {
			keep(s, "router identity (with its Validate verdict)", func() ([]byte, bool) {
				b, e := ri.KeysAndCert.Bytes()
				return append(b, boolByte(ri.Validate() == nil)), e == nil
			})
		}
		if d, err := destination.NewDestination(k); err == nil && d != nil {
			keep(s, "destination (with its Validate verdict)", func() ([]byte, bool) {
				b, e := d.Bytes()
				return append(b, boolByte(d.Validate() == nil)), e == nil
			})
		}
	}
}

func boolByte(b bool) byte {
	if b {
		return 1
	}
	return 0
}

func objObserve(s *Session, o any) map[string]any {
	switch x := o.(type) {
	case *certificate.CertificateBuilder:
		c, err := x.Build()
		m := map[string]any{"ok": err == nil && c != nil, "ser": []int{}}
		if err == nil && c != nil {
			m["ser"] = ints(c.Bytes())
			keepCertificate(s, c)
		}
		return m
	case *session_key.SessionKey:
		return map[string]any{"ser": ints(x.Bytes())}
	case *session_tag.SessionTag:
		return map[string]any{"ser": ints(x.Bytes())}
	case *session_tag.ECIESSessionTag:
		return map[string]any{"ser": ints(x.Bytes())}
	case *data.MappingValues:
		out := [][]any{}
		for _, p := range *x {
			out = append(out, []any{ints(p[0]), ints(p[1])})
		}
		return map[string]any{"pairs": out}
	case *router_info.RouterInfo:
		b, err := x.Bytes()
		m := map[string]any{"count": x.RouterAddressCount(), "ser": ints(b), "serok": err == nil, "naddrs": len(x.RouterAddresses())}
		verr := x.Validate()
		m["validok"] = verr == nil
		m["rt"] = map[string]any{"done": false}
		if err == nil {
			ri2, rem, rerr := router_info.ReadRouterInfo(append([]byte{}, b...))
			same := false
			if rerr == nil {
				b2, e2 := ri2.Bytes()
				same = e2 == nil && string(b2) == string(b)
			}
			m["rt"] = map[string]any{"done": true, "ok": rerr == nil, "remlen": len(rem), "same": same}
		}
		return m
	}
	return map[string]any{"unknown": true}
}

func init() {
	register("ObjNew", func(s *Session, a Args) Res {
		var o any
		ok := true
		switch a.Str("fn") {
		case "CertificateBuilder":
			o = certificate.NewCertificateBuilder()
		case "SessionKey":
			o = new(session_key.SessionKey)
		case "SessionTag":
			o = new(session_tag.SessionTag)
		case "ECIESSessionTag":
			o = new(session_tag.ECIESSessionTag)
		case "MappingValues":
			mv := data.NewMappingValues(a.Int("capacity"))
			o = &mv
		case "RouterInfo":
			ri, _, err := router_info.ReadRouterInfo(append([]byte{}, a.Bytes("in")...))
			if err != nil {
				return Res{"ok": false, "err": errStr(err), "obs": map[string]any{}}
			}
			o = &ri
		default:
			ok = false
		}
		s.Vals["obj"] = o
		if !ok {
			return Res{"ok": false, "err": "unknown object", "obs": map[string]any{}}
		}
		return Res{"ok": true, "err": "", "obs": objObserve(s, o)}
	})
	register("ObjCall", func(s *Session, a Args) Res {
		o, have := s.Vals["obj"]
		if !have || o == nil {
			return Res{"ok": false, "err": "no object", "observed": false, "obs": map[string]any{}, "have": false}
		}
		c := sub(a, "c")
		var err error
		nkBefore, _, _ := keptState(s)
		switch x := o.(type) {
		case *certificate.CertificateBuilder:
			switch c.Str("m") {
			case "WithType":
				_, err = x.WithType(uint8(c.Int("t")))
			case "WithKeyTypes":
				_, err = x.WithKeyTypes(c.Int("st"), c.Int("ct"))
			case "WithPayload":
				x.WithPayload(c.Bytes("p"))
			case "Validate":
				err = x.Validate()
			case "Build":
				var bc *certificate.Certificate
				bc, err = x.Build()
				if err == nil {
					keepCertificate(s, bc)
				}
			}
		case *session_key.SessionKey:
			err = x.SetBytes(c.Bytes("b"))
		case *session_tag.SessionTag:
			err = x.SetBytes(c.Bytes("b"))
		case *session_tag.ECIESSessionTag:
			err = x.SetBytes(c.Bytes("b"))
		case *data.MappingValues:
			var nv data.MappingValues
			nv, err = x.Add(string(c.Bytes("k")), string(c.Bytes("v")))
			*x = nv
		case *router_info.RouterInfo:
			ra, _, rerr := router_address.ReadRouterAddress(append([]byte{}, c.Bytes("a")...))
			if rerr != nil {
				return Res{"ok": false, "err": "driver: address does not parse: " + errStr(rerr), "observed": false, "obs": map[string]any{}, "have": true, "badarg": true}
			}
			// a plain struct copy taken before the call stays what it was, and a call on a copy leaves the original alone
			before := *x
			keep(s, "RouterInfo copied before AddAddress", func() ([]byte, bool) {
				b, e := before.Bytes()
				return append(b, byte(before.RouterAddressCount()), byte(len(before.RouterAddresses()))), e == nil
			})
			if c.Bool("oncopy") {
				cp := *x
				err = cp.AddAddress(&ra)
				keep(s, "RouterInfo whose copy had AddAddress called", func() ([]byte, bool) {
					b, e := x.Bytes()
					return append(b, byte(x.RouterAddressCount()), byte(len(x.RouterAddresses()))), e == nil
				})
				s.Vals["obj"] = &cp // the session's object is the copy from here on (the abstract state follows the call); x stays as it is
				o = &cp
			} else {
				err = x.AddAddress(&ra)
			}
		}
		r := Res{"ok": err == nil, "err": errStr(err), "have": true, "observed": false, "obs": map[string]any{}}
		if a.Bool("obs") {
			r["observed"] = true
			r["obs"] = objObserve(s, o)
		}
		// what the object handed out BEFORE this call (and the observation after it) is still what it was
		r["nkept"], r["kept_unchanged"], r["kept_changed"] = keptBefore(s, nkBefore)
		return r
	})
}
