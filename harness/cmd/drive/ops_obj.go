package main

import (
	"github.com/go-i2p/common/certificate"
	"github.com/go-i2p/common/data"
	"github.com/go-i2p/common/router_address"
	"github.com/go-i2p/common/router_info"
	"github.com/go-i2p/common/session_key"
	"github.com/go-i2p/common/session_tag"
)

// Mutable objects (Objects.tla): ObjNew creates the session's object, ObjCall applies one exported mutator to it.
// After a call the driver reports what the call returned and, when asked, what the public API shows of the object.

func objObserve(o any) map[string]any {
	switch x := o.(type) {
	case *certificate.CertificateBuilder:
		c, err := x.Build()
		m := map[string]any{"ok": err == nil && c != nil, "ser": []int{}}
		if err == nil && c != nil {
			m["ser"] = ints(c.Bytes())
		}
		return m
	case *session_key.SessionKey:
		return map[string]any{"ser": ints(x.Bytes())}
	case *session_tag.SessionTag:
		return map[string]any{"ser": ints(x.Bytes())}
	case *session_tag.ECIESSessionTag:
		return map[string]any{"ser": ints(x.Bytes())}
	case *data.MappingValues:
		out := [][]any{}
		for _, p := range *x {
			out = append(out, []any{ints(p[0]), ints(p[1])})
		}
		return map[string]any{"pairs": out}
	case *router_info.RouterInfo:
		b, err := x.Bytes()
		m := map[string]any{"count": x.RouterAddressCount(), "ser": ints(b), "serok": err == nil, "naddrs": len(x.RouterAddresses())}
		verr := x.Validate()
		m["validok"] = verr == nil
		m["rt"] = map[string]any{"done": false}
		if err == nil {
			ri2, rem, rerr := router_info.ReadRouterInfo(append([]byte{}, b...))
			same := false
			if rerr == nil {
				b2, e2 := ri2.Bytes()
				same = e2 == nil && string(b2) == string(b)
			}
			m["rt"] = map[string]any{"done": true, "ok": rerr == nil, "remlen": len(rem), "same": same}
		}
		return m
	}
	return map[string]any{"unknown": true}
}

func init() {
	register("ObjNew", func(s *Session, a Args) Res {
		var o any
		ok := true
		switch a.Str("fn") {
		case "CertificateBuilder":
			o = certificate.NewCertificateBuilder()
		case "SessionKey":
			o = new(session_key.SessionKey)
		case "SessionTag":
			o = new(session_tag.SessionTag)
		case "ECIESSessionTag":
			o = new(session_tag.ECIESSessionTag)
		case "MappingValues":
			mv := data.NewMappingValues(a.Int("capacity"))
			o = &mv
		case "RouterInfo":
			ri, _, err := router_info.ReadRouterInfo(append([]byte{}, a.Bytes("in")...))
			if err != nil {
				return Res{"ok": false, "err": errStr(err), "obs": map[string]any{}}
			}
			o = &ri
		default:
			ok = false
		}
		s.Vals["obj"] = o
		if !ok {
			return Res{"ok": false, "err": "unknown object", "obs": map[string]any{}}
		}
		return Res{"ok": true, "err": "", "obs": objObserve(o)}
	})
	register("ObjCall", func(s *Session, a Args) Res {
		o, have := s.Vals["obj"]
		if !have || o == nil {
			return Res{"ok": false, "err": "no object", "observed": false, "obs": map[string]any{}, "have": false}
		}
		c := sub(a, "c")
		var err error
		switch x := o.(type) {
		case *certificate.CertificateBuilder:
			switch c.Str("m") {
			case "WithType":
				_, err = x.WithType(uint8(c.Int("t")))
			case "WithKeyTypes":
				_, err = x.WithKeyTypes(c.Int("st"), c.Int("ct"))
			case "WithPayload":
				x.WithPayload(c.Bytes("p"))
			case "Validate":
				err = x.Validate()
			case "Build":
				_, err = x.Build()
			}
		case *session_key.SessionKey:
			err = x.SetBytes(c.Bytes("b"))
		case *session_tag.SessionTag:
			err = x.SetBytes(c.Bytes("b"))
		case *session_tag.ECIESSessionTag:
			err = x.SetBytes(c.Bytes("b"))
		case *data.MappingValues:
			var nv data.MappingValues
			nv, err = x.Add(string(c.Bytes("k")), string(c.Bytes("v")))
			*x = nv
		case *router_info.RouterInfo:
			ra, _, rerr := router_address.ReadRouterAddress(append([]byte{}, c.Bytes("a")...))
			if rerr != nil {
				return Res{"ok": false, "err": "driver: address does not parse: " + errStr(rerr), "observed": false, "obs": map[string]any{}, "have": true, "badarg": true}
			}
			err = x.AddAddress(&ra)
		}
		r := Res{"ok": err == nil, "err": errStr(err), "have": true, "observed": false, "obs": map[string]any{}}
		if a.Bool("obs") {
			r["observed"] = true
			r["obs"] = objObserve(o)
		}
		return r
	})
}
