package main

import (
	"bytes"
	"crypto/sha256"

	"github.com/go-i2p/common/data"
	"github.com/go-i2p/common/keys_and_cert"
	"github.com/go-i2p/common/session_key"
	"github.com/go-i2p/common/session_tag"
	"github.com/go-i2p/common/signature"
)

// Misc: small helpers of the library that have an obvious mathematical meaning (extension family X02).
func init() {
	register("Misc", func(s *Session, a Args) Res {
		in := a.Bytes("in")
		switch a.Str("fn") {
		case "HashFns":
			sha := sha256.Sum256(in)
			hd := data.HashData(append([]byte{}, in...))
			hr, err := data.HashReader(bytes.NewReader(in))
			var arr [32]byte
			copy(arr[:], in)
			nh := data.NewHash(arr)
			return Res{"sha": ints(sha[:]), "hashdata": ints(hd[:]), "hashreader_ok": err == nil, "hashreader": ints(hr[:]), "newhash": ints(nh[:]), "arr": ints(arr[:])}
		case "FromArray":
			var a32 [32]byte
			copy(a32[:], in)
			var a8 [8]byte
			copy(a8[:], in)
			sk := session_key.NewSessionKeyFromArray(a32)
			st := session_tag.NewSessionTagFromArray(a32)
			et := session_tag.NewECIESSessionTagFromArray(a8)
			return Res{"a32": ints(a32[:]), "a8": ints(a8[:]), "sessionkey": ints(sk.Bytes()), "sessiontag": ints(st.Bytes()), "eciestag": ints(et.Bytes())}
		case "CompressiblePadding":
			p, err := keys_and_cert.GenerateCompressiblePadding(a.Int("size"))
			periodic := true
			for i := 32; i < len(p); i++ {
				if p[i] != p[i-32] {
					periodic = false
				}
			}
			return Res{"ok": err == nil, "len": len(p), "periodic": periodic, "isnil": p == nil}
		case "ValidatePtr":
			nilErr := signature.ValidatePtr(nil)
			sig, err := signature.NewSignatureFromBytes(in, a.Int("typ"))
			r := Res{"nil_rejected": nilErr != nil, "built": err == nil}
			if err == nil {
				r["ptr_ok"] = signature.ValidatePtr(&sig) == nil
				r["validate_ok"] = sig.Validate() == nil
			} else {
				r["ptr_ok"], r["validate_ok"] = false, false
			}
			return r
		}
		return Res{"unknown_fn": true}
	})
}
