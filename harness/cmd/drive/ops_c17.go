package main

import (
	"net"
	"time"

	"github.com/go-i2p/common/data"
	"github.com/go-i2p/common/router_address"
)

func init() {
	// RAddrAccess: host/port/option accessors on an address obtained through the constructor or the parser.
	register("RAddrAccess", func(s *Session, a Args) Res {
		var ra *router_address.RouterAddress
		if a.Str("via") == "ctor" {
			opts, _ := pairsToMap(a, "pairs")
			r, err := router_address.NewRouterAddress(5, time.Unix(0, 0), "NTCP2", opts)
			if err != nil || r == nil {
				return Res{"built": false, "err": errStr(err)}
			}
			ra = r
		} else {
			r, _, err := router_address.ReadRouterAddress(append([]byte{}, a.Bytes("in")...))
			if err != nil {
				return Res{"built": false, "err": errStr(err)}
			}
			ra = &r
		}
		res := Res{"built": true}
		addr, herr := ra.Host()
		res["host_ok"] = herr == nil && addr != nil
		res["host_ip"] = []int{}
		res["host_is4"] = false
		res["host_zone"] = false
		if herr == nil && addr != nil {
			if ipa, ok := addr.(*net.IPAddr); ok {
				res["host_ip"] = ints(ipa.IP.To16())
				res["host_is4"] = ipa.IP.To4() != nil
				res["host_zone"] = ipa.Zone != ""
			}
		}
		res["hasvalidhost"] = ra.HasValidHost()
		port, perr := ra.Port()
		res["port_ok"] = perr == nil
		res["port"] = ints([]byte(port))
		res["hasvalidport"] = ra.HasValidPort()
		res["ipversion"] = ints([]byte(ra.IPVersion()))
		sk, skerr := ra.StaticKey()
		res["static_ok"], res["static"] = skerr == nil, ints(sk[:])
		iv, iverr := ra.InitializationVector()
		res["iv_ok"], res["iv"] = iverr == nil, ints(iv[:])
		var lookups []any
		for _, k := range a.List("keys") {
			kb := toBytes(k)
			ks, err := data.ToI2PString(string(kb))
			if err != nil {
				continue
			}
			v := ra.GetOption(ks)
			lookups = append(lookups, map[string]any{"key": ints(kb), "found": v != nil, "val": ints(v), "has": ra.HasOption(ks), "check": ra.CheckOption(string(kb))})
		}
		if lookups == nil {
			lookups = []any{}
		}
		res["lookups"] = lookups
		// introducer option helpers: the values stored under ihN / iexpN / itagN (the numbers come from the specification)
		intro := []any{}
		for _, n := range a.List("intronums") {
			num := int(n.(float64))
			intro = append(intro, map[string]any{"num": num, "ih": ints(ra.IntroducerHashString(num)), "iexp": ints(ra.IntroducerExpirationString(num)),
				"itag": ints(ra.IntroducerTagString(num))})
		}
		res["intro"] = intro
		res["hoststring"] = ints(ra.HostString())
		res["portstring"] = ints(ra.PortString())
		return res
	})
}
