package main

import (
	"reflect"

	"github.com/go-i2p/common/certificate"
	"github.com/go-i2p/common/data"
	"github.com/go-i2p/common/destination"
	"github.com/go-i2p/common/encrypted_leaseset"
	"github.com/go-i2p/common/key_certificate"
	"github.com/go-i2p/common/keys_and_cert"
	"github.com/go-i2p/common/lease"
	"github.com/go-i2p/common/lease_set"
	"github.com/go-i2p/common/lease_set2"
	"github.com/go-i2p/common/meta_leaseset"
	"github.com/go-i2p/common/offline_signature"
	"github.com/go-i2p/common/router_address"
	"github.com/go-i2p/common/router_identity"
	"github.com/go-i2p/common/router_info"
	"github.com/go-i2p/common/signature"
)

// observe: everything a value reports through its public API, recomputed now (the outcome of its own signature check included).
func observe(v any) map[string]any {
	m := observeFields(v)
	if ok, has := verifyVal(v); has {
		m["verify"] = ok
	}
	return m
}

// verifyVal: the value's argument-free Verify / VerifySignature, when it has one
func verifyVal(v any) (ok, has bool) {
	defer func() {
		if recover() != nil {
			ok, has = false, true
		}
	}()
	rv := reflect.ValueOf(v)
	if !rv.IsValid() || (rv.Kind() == reflect.Pointer && rv.IsNil()) {
		return false, false
	}
	for _, name := range []string{"Verify", "VerifySignature"} {
		m := rv.MethodByName(name)
		if m.IsValid() && m.Type().NumIn() == 0 {
			return verifySuccess(m.Call(nil)), true
		}
	}
	return false, false
}

func observeFields(v any) map[string]any {
	switch x := v.(type) {
	case *certificate.Certificate:
		return accCert(x)
	case *key_certificate.KeyCertificate:
		return accKeyCert(x)
	case *keys_and_cert.KeysAndCert:
		m := accKAC(x)
		b, _ := x.Bytes()
		m["ser"] = ints(b)
		return m
	case *destination.Destination:
		m := accDest(x)
		if x != nil && x.KeysAndCert != nil {
			b, _ := x.Bytes()
			m["ser"] = ints(b)
		}
		return m
	case *router_identity.RouterIdentity:
		if x == nil || x.KeysAndCert == nil {
			return map[string]any{"nil": true}
		}
		d := x.AsDestination()
		m := accDest(&d)
		b, _ := x.KeysAndCert.Bytes()
		m["ser"] = ints(b)
		return m
	case *signature.Signature:
		return accSig(x)
	case *offline_signature.OfflineSignature:
		return accOffline(x)
	case lease.Lease:
		return accLease(x)
	case *lease.Lease:
		return accLease(*x)
	case lease.Lease2:
		return accLease2(x)
	case *lease.Lease2:
		return accLease2(*x)
	case *router_address.RouterAddress:
		return accRouterAddress(x)
	case *router_info.RouterInfo:
		m := accRouterInfo(x)
		b, _ := x.Bytes()
		m["ser"] = ints(b)
		return m
	case *lease_set.LeaseSet:
		o := readers["ReadLeaseSet"]
		_ = o
		b, _ := x.Bytes()
		d := x.Destination()
		m := map[string]any{"ser": ints(b), "dest": accDest(&d), "n": x.LeaseCount()}
		pk, _ := x.PublicKey()
		m["enc"] = ints(pk[:])
		if sk, err := x.SigningKey(); err == nil && sk != nil {
			m["spk"] = ints(sk.Bytes())
		}
		ls := []any{}
		for _, l := range x.Leases() {
			ls = append(ls, accLease(l))
		}
		m["leases"] = ls
		s := x.Signature()
		m["sig"] = accSig(&s)
		return m
	case *lease_set2.LeaseSet2:
		b, _ := x.Bytes()
		d := x.Destination()
		_ = b // the options mapping is outside the property's list, so the whole serialisation is not observed
		m := map[string]any{"dest": accDest(&d), "off": accOffline(x.OfflineSignature()), "keys": accLS2Keys(x.EncryptionKeys())}
		ls := []any{}
		for _, l := range x.Leases() {
			ls = append(ls, accLease2(l))
		}
		m["leases"] = ls
		s := x.Signature()
		m["sig"] = accSig(&s)
		return m
	case *meta_leaseset.MetaLeaseSet:
		b, _ := x.Bytes()
		d := x.Destination()
		_ = b
		m := map[string]any{"dest": accDest(&d), "off": accOffline(x.OfflineSignature())}
		es := []any{}
		for _, en := range x.Entries() {
			en := en
			h := en.Hash()
			es = append(es, map[string]any{"hash": ints(h[:]), "type": int(en.Type()), "expires": be4(en.Expires()), "cost": int(en.Cost())})
		}
		m["entries"] = es
		s := x.Signature()
		m["sig"] = accSig(&s)
		return m
	case *encrypted_leaseset.EncryptedLeaseSet:
		b, _ := x.Bytes()
		s := x.Signature()
		return map[string]any{"ser": ints(b), "bkey": ints(x.BlindedPublicKey()), "inner": ints(x.EncryptedInnerData()), "off": accOffline(x.OfflineSignature()), "sig": accSig(&s)}
	case *data.Mapping:
		return map[string]any{"ser": ints(x.Data())}
	}
	return map[string]any{"unobservable": true}
}

// returnedSlices: byte slices handed out by accessors that are documented to return copies.
func returnedSlices(v any) [][]byte {
	switch x := v.(type) {
	case *signature.Signature:
		return [][]byte{x.Bytes(), x.Serialize()}
	case *offline_signature.OfflineSignature:
		return [][]byte{x.TransientPublicKey(), x.Signature(), x.Bytes(), x.SignedData()}
	case *encrypted_leaseset.EncryptedLeaseSet:
		b, _ := x.Bytes()
		out := [][]byte{x.BlindedPublicKey(), x.EncryptedInnerData(), b}
		s := x.Signature()
		out = append(out, s.Bytes())
		if o := x.OfflineSignature(); o != nil {
			out = append(out, o.TransientPublicKey(), o.Signature())
		}
		return out
	case *certificate.Certificate:
		return [][]byte{x.Bytes(), x.RawBytes()}
	case *keys_and_cert.KeysAndCert:
		b, _ := x.Bytes()
		return [][]byte{b}
	case *destination.Destination:
		b, _ := x.Bytes()
		return [][]byte{b}
	case *lease_set2.LeaseSet2:
		b, _ := x.Bytes()
		s := x.Signature()
		out := [][]byte{b, s.Bytes()}
		if o := x.OfflineSignature(); o != nil {
			out = append(out, o.TransientPublicKey(), o.Signature())
		}
		return out
	case *meta_leaseset.MetaLeaseSet:
		b, _ := x.Bytes()
		s := x.Signature()
		return [][]byte{b, s.Bytes()}
	case *lease_set.LeaseSet:
		b, _ := x.Bytes()
		s := x.Signature()
		return [][]byte{b, s.Bytes()}
	case *router_info.RouterInfo:
		b, _ := x.Bytes()
		return [][]byte{b}
	}
	return nil
}

func init() {
	// ReadSigned: like Read, but the buffer holds a structure that really verifies (the specification's skeleton with real keys and
	// signatures in its slots), so that what Verify() reports is part of the later observations
	register("ReadSigned", func(s *Session, a Args) Res {
		rd, ok := readers[a.Str("fn")]
		if !ok {
			return Res{"unknown_fn": true}
		}
		in, serr := buildSigned(s, a)
		if serr != "" {
			return Res{"setup": false, "verify": false, "err": "signing: " + serr}
		}
		o := rd(in, a)
		if !o.OK || o.Val == nil {
			return Res{"setup": false, "verify": false, "err": o.Err}
		}
		s.Vals[a.Str("h")] = o.Val
		s.Bufs[a.Str("h")] = in
		vok, has := verifyVal(o.Val)
		return Res{"setup": true, "verify": vok && has, "err": ""}
	})
	register("Observe", func(s *Session, a Args) Res {
		v, ok := s.Vals[a.Str("h")]
		if !ok || v == nil {
			return Res{"has": false, "obs": map[string]any{}}
		}
		return Res{"has": true, "obs": observe(v)}
	})
	// Scribble: the caller overwrites (complements) a region of the buffer it parsed from.
	register("Scribble", func(s *Session, a Args) Res {
		buf, ok := s.Bufs[a.Str("h")]
		if !ok {
			return Res{"done": false}
		}
		off, n := a.Int("off"), a.Int("len")
		if n < 0 || off < 0 || off+n > len(buf) {
			off, n = 0, len(buf)
		}
		for i := off; i < off+n; i++ {
			buf[i] = ^buf[i]
		}
		return Res{"done": true, "n": n}
	})
	// ScribbleRem: the caller overwrites the remainder slice the parser returned (usually the tail of the buffer; whatever it is, it is the caller's)
	register("ScribbleRem", func(s *Session, a Args) Res {
		rem, ok := s.Bufs[a.Str("h")+"#rem"]
		if !ok {
			return Res{"done": false}
		}
		for i := range rem {
			rem[i] = ^rem[i]
		}
		// ... and whatever lies behind it in the same array
		full := rem[:cap(rem)]
		for i := len(rem); i < len(full); i++ {
			full[i] = ^full[i]
		}
		return Res{"done": true, "n": len(full)}
	})
	register("ScribbleReturned", func(s *Session, a Args) Res {
		v, ok := s.Vals[a.Str("h")]
		if !ok || v == nil {
			return Res{"done": false}
		}
		n := 0
		for _, sl := range returnedSlices(v) {
			for i := range sl {
				sl[i] = ^sl[i]
			}
			n += len(sl)
		}
		return Res{"done": true, "n": n}
	})
}
