package main

import (
	"fmt"
	"reflect"
	"runtime"
	"sort"
	"strings"
	"time"

	"github.com/go-i2p/common/certificate"
	"github.com/go-i2p/common/data"
	"github.com/go-i2p/common/destination"
	"github.com/go-i2p/common/encrypted_leaseset"
	"github.com/go-i2p/common/key_certificate"
	"github.com/go-i2p/common/keys_and_cert"
	"github.com/go-i2p/common/lease"
	"github.com/go-i2p/common/lease_set"
	"github.com/go-i2p/common/lease_set2"
	"github.com/go-i2p/common/meta_leaseset"
	"github.com/go-i2p/common/offline_signature"
	"github.com/go-i2p/common/router_address"
	"github.com/go-i2p/common/router_identity"
	"github.com/go-i2p/common/router_info"
	"github.com/go-i2p/common/session_key"
	"github.com/go-i2p/common/session_tag"
	"github.com/go-i2p/common/signature"
)

// catalogue of exported types of the library (struct types and the named array/slice value types)
var typeCatalogue = map[string]reflect.Type{
	"data.Mapping":                         reflect.TypeOf(data.Mapping{}),
	"data.MappingValues":                   reflect.TypeOf(data.MappingValues{}),
	"data.Integer":                         reflect.TypeOf(data.Integer{}),
	"data.I2PString":                       reflect.TypeOf(data.I2PString{}),
	"data.Date":                            reflect.TypeOf(data.Date{}),
	"data.Hash":                            reflect.TypeOf(data.Hash{}),
	"certificate.Certificate":              reflect.TypeOf(certificate.Certificate{}),
	"certificate.CertificateBuilder":       reflect.TypeOf(certificate.CertificateBuilder{}),
	"key_certificate.KeyCertificate":       reflect.TypeOf(key_certificate.KeyCertificate{}),
	"key_certificate.KeySizeInfo":          reflect.TypeOf(key_certificate.KeySizeInfo{}),
	"keys_and_cert.KeysAndCert":            reflect.TypeOf(keys_and_cert.KeysAndCert{}),
	"keys_and_cert.PrivateKeysAndCert":     reflect.TypeOf(keys_and_cert.PrivateKeysAndCert{}),
	"destination.Destination":              reflect.TypeOf(destination.Destination{}),
	"router_identity.RouterIdentity":       reflect.TypeOf(router_identity.RouterIdentity{}),
	"lease.Lease":                          reflect.TypeOf(lease.Lease{}),
	"lease.Lease2":                         reflect.TypeOf(lease.Lease2{}),
	"lease_set.LeaseSet":                   reflect.TypeOf(lease_set.LeaseSet{}),
	"lease_set2.LeaseSet2":                 reflect.TypeOf(lease_set2.LeaseSet2{}),
	"lease_set2.EncryptionKey":             reflect.TypeOf(lease_set2.EncryptionKey{}),
	"meta_leaseset.MetaLeaseSet":           reflect.TypeOf(meta_leaseset.MetaLeaseSet{}),
	"meta_leaseset.MetaLeaseSetEntry":      reflect.TypeOf(meta_leaseset.MetaLeaseSetEntry{}),
	"encrypted_leaseset.EncryptedLeaseSet": reflect.TypeOf(encrypted_leaseset.EncryptedLeaseSet{}),
	"offline_signature.OfflineSignature":   reflect.TypeOf(offline_signature.OfflineSignature{}),
	"signature.Signature":                  reflect.TypeOf(signature.Signature{}),
	"router_address.RouterAddress":         reflect.TypeOf(router_address.RouterAddress{}),
	"router_info.RouterInfo":               reflect.TypeOf(router_info.RouterInfo{}),
	"session_key.SessionKey":               reflect.TypeOf(session_key.SessionKey{}),
	"session_tag.SessionTag":               reflect.TypeOf(session_tag.SessionTag{}),
	"session_tag.ECIESSessionTag":          reflect.TypeOf(session_tag.ECIESSessionTag{}),
}

func catalogueNames() []string {
	var ns []string
	for k := range typeCatalogue {
		ns = append(ns, k)
	}
	sort.Strings(ns)
	return ns
}

type methodOutcome struct {
	Method        string
	Panicked      bool
	Hung          bool
	Msg           string
	IsVerify      bool
	VerifySuccess bool
}

var errorType = reflect.TypeOf((*error)(nil)).Elem()

// verifySuccess: a Verify*/VerifySignature method reported success (nil error, and true if it returns a bool)
func verifySuccess(out []reflect.Value) bool {
	ok := true
	sawErr := false
	for _, o := range out {
		if o.Type().Implements(errorType) || o.Type() == errorType {
			sawErr = true
			if !o.IsNil() {
				ok = false
			}
		} else if o.Kind() == reflect.Bool {
			if !o.Bool() {
				ok = false
			}
		}
	}
	return ok && (sawErr || len(out) > 0)
}

// callAllMethods invokes every exported argument-free method in the method set of v (a value or a pointer),
// each under recover() and a deadline.
func callAllMethods(v reflect.Value) []methodOutcome {
	var outs []methodOutcome
	t := v.Type()
	for i := 0; i < t.NumMethod(); i++ {
		m := t.Method(i)
		if m.Type.NumIn() != 1 { // receiver only
			continue
		}
		mo := methodOutcome{Method: m.Name, IsVerify: strings.HasPrefix(m.Name, "Verify")}
		type res struct {
			out []reflect.Value
			pan string
		}
		ch := make(chan res, 1)
		go func() {
			defer func() {
				if p := recover(); p != nil {
					buf := make([]byte, 1500)
					n := runtime.Stack(buf, false)
					ch <- res{nil, fmt.Sprintf("%v\n%s", p, buf[:n])}
				}
			}()
			ch <- res{v.Method(i).Call(nil), ""}
		}()
		select {
		case r := <-ch:
			if r.pan != "" {
				mo.Panicked, mo.Msg = true, r.pan
			} else if mo.IsVerify {
				mo.VerifySuccess = verifySuccess(r.out)
			}
		case <-time.After(deadline):
			mo.Hung = true
		}
		outs = append(outs, mo)
	}
	return outs
}

func callAllMethodsPairwise(v reflect.Value) {
	t := v.Type()
	for i := 0; i < t.NumMethod(); i++ {
		if t.Method(i).Type.NumIn() != 1 {
			continue
		}
		gate := make(chan struct{})
		done := make(chan struct{}, 8)
		for g := 0; g < 8; g++ {
			go func() {
				defer func() { recover(); done <- struct{}{} }()
				<-gate
				v.Method(i).Call(nil)
			}()
		}
		close(gate)
		for g := 0; g < 8; g++ {
			select {
			case <-done:
			case <-time.After(deadline):
			}
		}
	}
}

func outcomesJSON(recv string, outs []methodOutcome) (bad []any, n int, names []string) {
	for _, o := range outs {
		n++
		names = append(names, o.Method)
		if o.Panicked || o.Hung || (o.IsVerify && o.VerifySuccess) {
			msg := o.Msg
			if len(msg) > 600 {
				msg = msg[:600]
			}
			bad = append(bad, map[string]any{"recv": recv, "method": o.Method, "panicked": o.Panicked, "hung": o.Hung,
				"verify_success": o.IsVerify && o.VerifySuccess, "msg": msg})
		}
	}
	return
}

func init() {
	register("Catalogue", func(s *Session, a Args) Res {
		out := []any{}
		for _, n := range catalogueNames() {
			t := typeCatalogue[n]
			vm, pm := []string{}, []string{}
			for i := 0; i < t.NumMethod(); i++ {
				if t.Method(i).Type.NumIn() == 1 {
					vm = append(vm, t.Method(i).Name)
				}
			}
			pt := reflect.PointerTo(t)
			for i := 0; i < pt.NumMethod(); i++ {
				if pt.Method(i).Type.NumIn() == 1 {
					pm = append(pm, pt.Method(i).Name)
				}
			}
			out = append(out, map[string]any{"type": n, "kind": t.Kind().String(), "value_methods": vm, "pointer_methods": pm})
		}
		return Res{"types": out}
	})
	// ZeroMethods: every exported argument-free method on T{} and on &T{}.
	register("ZeroMethods", func(s *Session, a Args) Res {
		t, ok := typeCatalogue[a.Str("type")]
		if !ok {
			return Res{"known": false}
		}
		zero := reflect.New(t) // *T pointing at the zero value
		b1, n1, names1 := outcomesJSON("value", callAllMethods(zero.Elem()))
		zero2 := reflect.New(t)
		b2, n2, names2 := outcomesJSON("pointer", callAllMethods(zero2))
		bad := append(b1, b2...)
		if bad == nil {
			bad = []any{}
		}
		return Res{"known": true, "ncalls": n1 + n2, "value_methods": names1, "pointer_methods": names2, "bad": bad}
	})
	// PartialMethods: the value a parser returns together with an error, for every truncation point of the input.
	register("PartialMethods", func(s *Session, a Args) Res {
		rd, ok := readers[a.Str("fn")]
		if !ok {
			return Res{"unknown_fn": true}
		}
		full := a.Bytes("in")
		ncalls, npartial, nerr := 0, 0, 0
		bad := []any{}
		for k := 0; k <= len(full); k++ {
			in := append([]byte{}, full[:k]...)
			var o ReadOut
			if msg := guarded(func() { o = rd(in, a) }); msg != "" {
				// the entry point itself, or the serialisation/accessor projection of what it returned, did not return normally
				if len(bad) < 20 {
					if len(msg) > 600 {
						msg = msg[:600]
					}
					bad = append(bad, map[string]any{"recv": fmt.Sprintf("cut=%d", k), "method": "parse-and-project", "panicked": msg != "hang", "hung": msg == "hang",
						"verify_success": false, "msg": msg})
				}
				nerr++
				continue
			}
			if o.OK {
				continue
			}
			nerr++
			if o.Val == nil {
				continue
			}
			v := reflect.ValueOf(o.Val)
			if v.Kind() == reflect.Pointer && v.IsNil() {
				continue
			}
			npartial++
			if a.Bool("pairwise") {
				// every method once from eight goroutines released together (the first use of whatever the method initialises lazily is then
				// a concurrent one); what does not come back is a fatal runtime error, which the runner attributes to this op
				callAllMethodsPairwise(v)
			}
			b, n, _ := outcomesJSON(fmt.Sprintf("cut=%d", k), callAllMethods(v))
			ncalls += n
			if len(bad) < 20 {
				bad = append(bad, b...)
			}
		}
		return Res{"ncalls": ncalls, "npartial": npartial, "nerr": nerr, "bad": bad}
	})
}
