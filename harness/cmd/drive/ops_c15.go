package main

import (
	"encoding/binary"
	"time"

	"github.com/go-i2p/common/lease_set"
)

type expirer interface{ IsExpired() bool }

func init() {
	// Extrema: newest/oldest expiration of a parsed LeaseSet together with all lease dates.
	register("Extrema", func(s *Session, a Args) Res {
		ls, err := lease_set.ReadLeaseSet(append([]byte{}, a.Bytes("in")...))
		if err != nil {
			return Res{"ok": false, "err": errStr(err)}
		}
		n, e1 := ls.NewestExpiration()
		o, e2 := ls.OldestExpiration()
		dates := []any{}
		for _, l := range ls.Leases() {
			d := l.Date()
			dates = append(dates, ints(d[:]))
		}
		return Res{"ok": true, "newest": ints(n[:]), "newest_ok": e1 == nil, "oldest": ints(o[:]), "oldest_ok": e2 == nil, "dates": dates}
	})
	// ExpiryProbe: write (now + delta seconds) into the time field that the specification locates
	// (offset, width, unit from TLC), parse with the named entry point and ask the value whether it is expired.
	register("ExpiryProbe", func(s *Session, a Args) Res {
		in := append([]byte{}, a.Bytes("in")...)
		off, width := a.Int("off"), a.Int("width")
		t := time.Now().Unix() + int64(a.Int("delta")) - int64(a.Int("minus"))
		if off < 0 || off+width > len(in) {
			return Res{"ok": false, "err": "bad field"}
		}
		switch {
		case a.Has("abs"):
			// absolute field values chosen by the specification (a time field and, optionally, a second field such as the expires offset)
			copy(in[off:off+width], a.Bytes("abs"))
			if a.Has("abs2") {
				o2 := a.Int("off2")
				b2 := a.Bytes("abs2")
				if o2 < 0 || o2+len(b2) > len(in) {
					return Res{"ok": false, "err": "bad second field"}
				}
				copy(in[o2:], b2)
			}
		case width == 4:
			binary.BigEndian.PutUint32(in[off:], uint32(t))
		case width == 8 && a.Str("unit") == "ms":
			binary.BigEndian.PutUint64(in[off:], uint64(t)*1000)
		default:
			return Res{"ok": false, "err": "bad width"}
		}
		rd, ok := readers[a.Str("fn")]
		if !ok {
			return Res{"unknown_fn": true}
		}
		o := rd(in, a)
		if !o.OK {
			return Res{"ok": false, "err": o.Err}
		}
		var ex expirer
		switch v := o.Val.(type) {
		case expirer:
			ex = v
		}
		if ex == nil {
			return Res{"ok": false, "err": "no IsExpired"}
		}
		return Res{"ok": true, "expired": ex.IsExpired()}
	})
}
