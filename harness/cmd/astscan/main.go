// Command astscan lists the exported named types (structs and other kinds) and the exported
// functions of every non-test package of the repository under test, from source (go/ast).
// The checks use it to make sure the driver's catalogues cover what the source declares.
package main

import (
	"encoding/json"
	"go/ast"
	"go/parser"
	"go/token"
	"os"
	"path/filepath"
	"sort"
	"strings"
)

func main() {
	root := os.Args[1]
	out := map[string]any{}
	types := []string{}
	funcs := []string{}
	entries, _ := os.ReadDir(root)
	for _, e := range entries {
		if !e.IsDir() || strings.HasPrefix(e.Name(), ".") || e.Name() == "fuzz" {
			continue
		}
		fset := token.NewFileSet()
		pkgs, err := parser.ParseDir(fset, filepath.Join(root, e.Name()), func(fi os.FileInfo) bool {
			return !strings.HasSuffix(fi.Name(), "_test.go")
		}, 0)
		if err != nil {
			continue
		}
		for pname, p := range pkgs {
			for _, f := range p.Files {
				for _, d := range f.Decls {
					switch x := d.(type) {
					case *ast.GenDecl:
						for _, s := range x.Specs {
							ts, ok := s.(*ast.TypeSpec)
							if !ok || !ts.Name.IsExported() {
								continue
							}
							kind := "other"
							switch ts.Type.(type) {
							case *ast.StructType:
								kind = "struct"
							case *ast.ArrayType:
								kind = "array"
							case *ast.InterfaceType:
								kind = "interface"
							}
							types = append(types, pname+"."+ts.Name.Name+":"+kind)
						}
					case *ast.FuncDecl:
						if x.Recv == nil && x.Name.IsExported() {
							funcs = append(funcs, pname+"."+x.Name.Name)
						}
					}
				}
			}
		}
	}
	sort.Strings(types)
	sort.Strings(funcs)
	out["types"] = types
	out["funcs"] = funcs
	json.NewEncoder(os.Stdout).Encode(out)
}
