#!/usr/bin/env python3
"""Orchestration shared by bin/check and bin/replay.

Pipeline per property (see DESIGN.md §2):
  MC    exhaustive TLC run of the Small instance of the specification
  Gen   TLC computes the behaviours to replay (vectors) from the specification
  drive the Go driver replays them against the library built from /repo's working tree
  Trace TLC validates the recorded ndjson trace against the specification (Trace.tla)
Verdicts come only from Trace (real-code outputs); everything else that goes wrong is exit 2.
"""
import hashlib
import json
import os
import re
import shutil
import subprocess
import sys
import time

VERIF = os.path.dirname(os.path.dirname(os.path.abspath(__file__)))
SPEC = os.path.join(VERIF, "spec")
HARNESS = os.path.join(VERIF, "harness")
WORK = os.path.join(VERIF, ".work")
REPLAYS = os.path.join(VERIF, "replays")
EVID = os.path.join(VERIF, "evidence")
KNOWN = os.path.join(VERIF, "known_findings.json")
NCPU = os.cpu_count() or 4
# the tree under test; /repo unless VERIF_REPO points at a scratch worktree (used only when trying seeded changes)
REPO = os.environ.get("VERIF_REPO", "/repo")

if REPO != "/repo":
    # trying a seeded change: never overwrite the committed evidence or the replays of the real tree
    REPLAYS = os.path.join(WORK, "trial", "replays")
    EVID = os.path.join(WORK, "trial", "evidence")
    os.makedirs(EVID, exist_ok=True)

GOENV = dict(os.environ, GOFLAGS="-mod=mod", GOPROXY="off", GOSUMDB="off", GOTOOLCHAIN="local",
             CGO_ENABLED=os.environ.get("CGO_ENABLED", "1"))
GO = shutil.which("go1.26") or shutil.which("go1.26.8") or "go"


class MachineryError(Exception):
    """Anything that prevents a verdict (exit 2)."""


def log(*a):
    print(*a, file=sys.stderr, flush=True)


FATAL_RE = re.compile(r"^fatal error: |^runtime: goroutine stack exceeds", re.M)


def run(cmd, timeout, cwd=None, env=None):
    t0 = time.time()
    try:
        p = subprocess.run(cmd, cwd=cwd, env=env, stdout=subprocess.PIPE, stderr=subprocess.STDOUT,
                           timeout=timeout, text=True, errors="replace")
    except subprocess.TimeoutExpired as ex:
        subprocess.run(["pkill", "-f", "tlc2.TL[C]"], check=False) if "tlc2.TLC" in " ".join(cmd) else None
        raise MachineryError("timeout after %ss: %s" % (timeout, " ".join(cmd)[:200]))
    return p.returncode, p.stdout, time.time() - t0


def tlc_cmd(module, cfg, metadir, workers=1, extra=(), heap="3g", dfs=False):
    opts = ["-XX:+UseParallelGC", "-XX:ParallelGCThreads=%d" % max(2, min(8, workers)), "-Xss256m", "-Xmx" + heap]
    if dfs:
        opts.append("-Dtlc2.tool.queue.IStateQueue=StateDeque")
    return (["java"] + opts + ["-cp", "/opt/veriftools/tla/tla2tools.jar:/opt/veriftools/tla/CommunityModules-deps.jar",
                              "tlc2.TLC", "-workers", str(workers), "-metadir", metadir, "-config", cfg] + list(extra) + [module])


def write_cfg(path, lines, consts):
    with open(path, "w") as f:
        for ln in lines:
            f.write(ln + "\n")
        if consts:
            f.write("CONSTANTS\n")
            for k, v in consts.items():
                if isinstance(v, str) and not v.startswith("@"):
                    f.write(' %s = "%s"\n' % (k, v))
                elif isinstance(v, str):
                    f.write(" %s = %s\n" % (k, v[1:]))
                elif isinstance(v, bool):
                    f.write(" %s = %s\n" % (k, "TRUE" if v else "FALSE"))
                else:
                    f.write(" %s = %s\n" % (k, v))


TLC_STATS = re.compile(r"(\d+) states generated, (\d+) distinct states found")


def parse_tlc_stats(out):
    m = None
    for m in TLC_STATS.finditer(out):
        pass
    if not m:
        return 0, 0
    return int(m.group(2)), int(m.group(1))  # distinct states, generated (= transitions explored)


class Run:
    """One check run: scratch dir, seed, tier, accumulated evidence."""

    def __init__(self, prop, tier, seed):
        self.prop, self.tier, self.seed = prop, tier, seed
        self.t0 = time.time()
        self.dir = os.path.join(WORK, "%s-%s-%d-%d" % (prop, tier, seed, os.getpid()))
        shutil.rmtree(self.dir, ignore_errors=True)
        os.makedirs(self.dir)
        self.specdir = os.path.join(self.dir, "spec")
        shutil.copytree(SPEC, self.specdir)
        self.states = 0
        self.transitions = 0
        self.mc_runs = []
        self.gen_runs = []
        self.vectors = []
        self.events = 0
        self.coverage = {}
        self.nt = {}
        self.library_calls = 0
        self.verdicts = []
        self.samples = []
        self.notes = []

    def cleanup(self):
        if not os.environ.get("VERIF_KEEP"):
            shutil.rmtree(self.dir, ignore_errors=True)

    # ---------------------------------------------------------------- MC
    def mc(self, module, consts=None, invariants=(), properties=(), constraint=None, view=None, workers=NCPU,
           timeout=900, init="Init", nxt="Next", heap="8g", expect_violation=None, tag=None, check_deadlock=False):
        """Exhaustive TLC run. Any invariant violation on the model is a machinery error (the contract itself is
        inconsistent) unless expect_violation names the invariant that must fail (negative control)."""
        name = tag or module
        cfg = os.path.join(self.specdir, "MC_%s_%s.cfg" % (name, self.tier))
        lines = ["INIT " + init, "NEXT " + nxt, "CHECK_DEADLOCK " + ("TRUE" if check_deadlock else "FALSE")]
        for i in invariants:
            lines.append("INVARIANT " + i)
        for p in properties:
            lines.append("PROPERTY " + p)
        if constraint:
            lines.append("CONSTRAINT " + constraint)
        if view:
            lines.append("VIEW " + view)
        mc_consts = {"Scale": "small"}
        mc_consts.update(consts or {})
        write_cfg(cfg, lines, mc_consts)
        meta = os.path.join(self.dir, "meta_mc_" + name)
        code, out, wall = run(tlc_cmd(module + ".tla", cfg, meta, workers=workers, heap=heap), timeout, cwd=self.specdir)
        shutil.rmtree(meta, ignore_errors=True)
        st, tr = parse_tlc_stats(out)
        violated = re.findall(r"Invariant (\w+) is violated", out) + re.findall(r"Action property (\w+) is violated", out)
        if expect_violation:
            if expect_violation not in violated:
                raise MachineryError("negative control %s/%s not violated (vacuous bounds?)\n%s" % (module, expect_violation, out[-1500:]))
        elif code != 0 or "Model checking completed. No error has been found" not in out:
            raise MachineryError("TLC model checking of %s failed (exit %d)\n%s" % (module, code, out[-3000:]))
        self.states += st
        self.transitions += tr
        self.mc_runs.append({"module": module, "tag": name, "consts": consts or {}, "invariants": list(invariants),
                             "properties": list(properties), "distinct_states": st, "states_generated": tr,
                             "wall_s": round(wall, 1), "negative_control": expect_violation})
        log("[mc] %s: %d distinct / %d generated states in %.1fs" % (name, st, tr, wall))
        return out

    # --------------------------------------------------------------- Gen
    def gen(self, module, consts=None, timeout=900, tag=None, heap="6g", simulate=None):
        """TLC computes vectors from the specification; the module writes OutFile (ndjson)."""
        name = tag or module
        outf = os.path.join(self.dir, "vec_%s.ndjson" % name)
        c = {"Tier": self.tier, "Seed": self.seed, "OutFile": outf, "Scale": "real"}
        if re.search(r"^CONSTANTS?\b[^\n]*\bPart\b", open(os.path.join(self.specdir, module + ".tla")).read(), re.M):
            c["Part"] = "all"       # generators that can emit a part of their vectors default to all of them
        c.update(consts or {})
        cfg = os.path.join(self.specdir, "%s_%s.cfg" % (name, self.tier))
        write_cfg(cfg, ["INIT Init", "NEXT Next", "CHECK_DEADLOCK FALSE"], c)
        meta = os.path.join(self.dir, "meta_gen_" + name)
        extra = []
        code, out, wall = run(tlc_cmd(module + ".tla", cfg, meta, workers=1, heap=heap, extra=extra), timeout, cwd=self.specdir)
        shutil.rmtree(meta, ignore_errors=True)
        if code != 0 or not os.path.exists(outf):
            raise MachineryError("TLC generation %s failed (exit %d)\n%s" % (name, code, out[-3000:]))
        st, tr = parse_tlc_stats(out)
        n = 0
        with open(outf) as f:
            for line in f:
                line = line.strip()
                if not line:
                    continue
                v = json.loads(line)
                if "ops" not in v:
                    v = {"ops": [v]}
                for o in v["ops"]:
                    o.setdefault("fn", "")
                self.vectors.append(v)
                n += 1
        os.remove(outf)
        self.states += st
        self.transitions += tr
        self.gen_runs.append({"module": module, "tag": name, "vectors": n, "wall_s": round(wall, 1), "consts": consts or {}})
        log("[gen] %s: %d behaviours in %.1fs" % (name, n, wall))

    def add_vectors(self, vecs):
        for v in vecs:
            if "ops" not in v:
                v = {"ops": [v]}
            for o in v["ops"]:
                o.setdefault("fn", "")
            self.vectors.append(v)

    # ------------------------------------------------------------- drive
    def build_driver(self, race=False):
        exe = os.path.join(self.dir, "drive_race" if race else "drive")
        if os.path.exists(exe):
            return exe
        # the harness is copied into the run directory: the registry of the tree's exported functions (funcs_gen.go) is
        # generated from the source of the tree under test for every build, and concurrent checks must not share it
        hdir = os.path.join(self.dir, "harness")
        if not os.path.exists(hdir):
            shutil.copytree(HARNESS, hdir, ignore=lambda d, names: [n for n in names if d == HARNESS and n in ("drive", "drive_race")])
            gm = open(os.path.join(hdir, "go.mod")).read().replace("=> /repo", "=> " + REPO)
            open(os.path.join(hdir, "go.mod"), "w").write(gm)
        shutil.copy(os.path.join(REPO, "go.sum"), os.path.join(hdir, "go.sum"))
        code, out, wall = run([GO, "run", "./cmd/genfuncs", REPO, "github.com/go-i2p/common", os.path.join(hdir, "cmd", "drive", "funcs_gen.go")],
                              300, cwd=hdir, env=GOENV)
        if code != 0:
            raise MachineryError("genfuncs failed\n" + out[-2000:])
        cmd = [GO, "build", "-tags", "verif"] + (["-race"] if race else []) + ["-o", exe, "./cmd/drive"]
        code, out, wall = run(cmd, 900, cwd=hdir, env=GOENV)
        if code != 0:
            raise MachineryError("driver build failed (the tree under test does not compile with -tags verif?)\n" + out[-4000:])
        log("[build] driver%s in %.1fs" % (" (race)" if race else "", wall))
        return exe

    def drive(self, vectors, tag, race=False, deadline_ms=None, env_extra=None, workers=None):
        exe = self.build_driver(race)
        vf = os.path.join(self.dir, "vectors_%s.ndjson" % tag)
        tf = os.path.join(self.dir, "trace_%s.ndjson" % tag)
        with open(vf, "w") as f:
            for v in vectors:
                f.write(json.dumps(v, separators=(",", ":")) + "\n")
        if deadline_ms is None:
            # generous: a call that takes this long on a loaded machine is still reported only if it does so again when re-driven alone
            deadline_ms = 15000 if self.tier == "thorough" else 8000
        env = dict(os.environ)
        env.pop("DEBUG_I2P", None)      # the library's logger must stay silent
        env.pop("WARNFAIL_I2P", None)
        env.update(env_extra or {})
        jf = os.path.join(self.dir, "journal_%s" % tag)
        cmd = [exe, "-in", vf, "-out", tf, "-seed", str(self.seed), "-deadline_ms", str(deadline_ms), "-journal", jf]
        if workers:
            cmd += ["-workers", str(workers)]
        code, out, wall = run(cmd, 1800, env=env)
        fatal_events = []
        rounds = 0
        while code != 0 and (FATAL_RE.search(out) or (fatal_events and code < 0)):
            # A fatal runtime error inside a call (concurrent map writes, stack exhaustion ...) is not recoverable: the process is gone
            # and with it every result.  It is still behaviour of the code under test: find the call, show it again, report it.
            rounds += 1
            if FATAL_RE.search(out):
                try:
                    evs, vectors = self.isolate_fatal(vectors, cmd, env, jf, vf, tf, out)
                    fatal_events += evs
                except MachineryError as ex:
                    # nothing reproduced it in isolation (a race that needs this very mix of sessions): not a verdict; the batch is run again
                    if rounds >= 3:
                        raise
                    log("[fatal] not reproduced in isolation, batch re-driven (%s)" % str(ex).splitlines()[0][:120])
                    self.notes.append("a fatal runtime error of the driver process was not reproducible by any single session; the batch was driven again")
            if rounds >= 4 or not FATAL_RE.search(out):
                # the error is pervasive: report what was reproduced; the remaining sessions are not driven in this run
                if not fatal_events:
                    raise MachineryError("driver keeps dying of a fatal runtime error that no single session reproduces\n%s" % out[-3000:])
                log("[fatal] still dying after %d rounds; %d reproduced call(s) reported, %d session(s) not driven" % (rounds, len(fatal_events), len(vectors)))
                open(tf, "w").close()
                code, out = 0, "drive: 0 vectors, 0 events (fatal runtime errors)"
                break
            with open(vf, "w") as f:
                for v in vectors:
                    f.write(json.dumps(v, separators=(",", ":")) + "\n")
            if os.path.exists(tf):
                os.remove(tf)
            code, out, wall = run(cmd, 1800, env=env)
        if code != 0 or not os.path.exists(tf):
            raise MachineryError("driver failed (exit %d)\n%s" % (code, out[-3000:]))
        if fatal_events:
            with open(tf, "a") as f:
                for e in fatal_events:
                    f.write(json.dumps(e, separators=(",", ":")) + "\n")
        log("[drive] %s: %s in %.1fs" % (tag, out.strip().splitlines()[-1] if out.strip() else "", wall))
        return tf, out

    def isolate_fatal(self, vectors, cmd, env, jf, vf, tf, out):
        """The driver died of a fatal runtime error.  Candidates = sessions with an op started and not finished (journal).  Each
        candidate is re-driven alone in a fresh process (up to 3 times); one that dies again, with frames of the library under test
        on the dying goroutine's stack, becomes a recorded event (r.fatal = property under check).  Returns (events, other vectors)."""
        started, ended = set(), set()
        try:
            for ln in open(jf):
                p = ln.split()
                if len(p) == 3:
                    (started if p[0] == "S" else ended).add((int(p[1]), int(p[2])))
        except OSError:
            pass
        open_ops = sorted(started - ended)
        if not open_ops:
            raise MachineryError("driver died of a fatal runtime error outside any call\n%s" % out[-3000:])
        bysid = {v.get("sid"): v for v in vectors}
        events, culprits = [], set()
        for sid, seq in open_ops:
            v = bysid.get(sid)
            if v is None:
                continue
            for attempt in range(3):
                with open(vf, "w") as f:
                    f.write(json.dumps(v, separators=(",", ":")) + "\n")
                c1, o1, _ = run(cmd, 600, env=env)
                if c1 != 0 and FATAL_RE.search(o1):
                    started1 = [ln.split() for ln in open(jf)] if os.path.exists(jf) else []
                    s1 = {(int(p[1]), int(p[2])) for p in started1 if len(p) == 3 and p[0] == "S"}
                    e1 = {(int(p[1]), int(p[2])) for p in started1 if len(p) == 3 and p[0] == "E"}
                    dead = sorted(s1 - e1)
                    if not dead or "github.com/go-i2p/common/" not in o1:
                        raise MachineryError("fatal runtime error without the library under test on the stack\n%s" % o1[-3000:])
                    dseq = dead[0][1]
                    op = dict(v["ops"][dseq - 1])
                    m = FATAL_RE.search(o1)
                    frames = [ln.strip() for ln in o1[m.start():].splitlines() if "github.com/go-i2p/common/" in ln][:4]
                    op.update({"sid": sid, "seq": dseq,
                               "r": {"panic": True, "hang": False, "fatal": self.prop, "msg": (o1[m.start():m.start() + 200] + " | " + " | ".join(frames))[:900]}})
                    events.append(op)
                    culprits.add(sid)
                    log("[fatal] sid=%d seq=%d op=%s: %s" % (sid, dseq, op.get("op"), o1[m.start():m.start() + 120].splitlines()[0]))
                    break
        if not culprits:
            raise MachineryError("driver died of a fatal runtime error that no single session reproduces\n%s" % out[-3000:])
        return events, [v for v in vectors if v.get("sid") not in culprits]

    # ------------------------------------------------------------- trace
    def validate(self, trace_file, tag, shards=NCPU, timeout=1500):
        """Shard the trace by session, validate every shard with TLC (Trace.tla), collect verdicts."""
        lines = open(trace_file).read().splitlines()
        self.events += len(lines)
        # keep sessions together: events of one sid are contiguous
        sess = []
        cur, cur_sid = [], None
        for ln in lines:
            m = re.search(r'"sid":(\d+)', ln)
            sid = m.group(1) if m else None
            if sid != cur_sid and cur:
                sess.append(cur)
                cur = []
            cur_sid = sid
            cur.append(ln)
        if cur:
            sess.append(cur)
        shards = max(1, min(shards, len(sess)))
        # balance by bytes
        bins = [[] for _ in range(shards)]
        sizes = [0] * shards
        for s in sorted(sess, key=lambda s: -sum(len(x) for x in s)):
            i = sizes.index(min(sizes))
            bins[i].append(s)
            sizes[i] += sum(len(x) for x in s)
        procs = []
        for i, b in enumerate(bins):
            if not b:
                continue
            b.sort(key=lambda s: int(re.search(r'"sid":(\d+)', s[0]).group(1)))
            sf = os.path.join(self.dir, "trace_%s_%d.ndjson" % (tag, i))
            n = 0
            with open(sf, "w") as f:
                for s in b:
                    for ln in s:
                        f.write(ln + "\n")
                        n += 1
            cfg = os.path.join(self.specdir, "Trace_%s_%d.cfg" % (tag, i))
            write_cfg(cfg, ["SPECIFICATION Spec", "CHECK_DEADLOCK FALSE"], {"TraceFile": sf, "Scale": "real"})
            meta = os.path.join(self.dir, "meta_trace_%s_%d" % (tag, i))
            cmd = tlc_cmd("Trace.tla", cfg, meta, workers=1, heap="3g")
            p = subprocess.Popen(cmd, cwd=self.specdir, stdout=subprocess.PIPE, stderr=subprocess.STDOUT, text=True, errors="replace")
            procs.append((p, n, sf, meta))
        t0 = time.time()
        verdicts = []
        for p, n, sf, meta in procs:
            try:
                out, _ = p.communicate(timeout=max(1, timeout - (time.time() - t0)))
            except subprocess.TimeoutExpired:
                for q, _, _, _ in procs:
                    q.kill()
                raise MachineryError("trace validation timed out")
            shutil.rmtree(meta, ignore_errors=True)
            acc = re.search(r'<<"ACCEPTED", (\d+)>>', out)
            if not acc or int(acc.group(1)) != n or "Model checking completed. No error has been found" not in out:
                raise MachineryError("trace %s not accepted by the specification (malformed trace or spec bug)\n%s" % (sf, out[-3000:]))
            st, tr = parse_tlc_stats(out)
            self.states += st
            self.transitions += tr
            for m in re.finditer(r'<<"VERDICT", "(.*)">>', out):
                verdicts.append(json.loads(json.loads('"' + m.group(1) + '"')))
            for m in re.finditer(r'<<"NT", (\d+), \{(.*)\}>>', out):
                for pr in re.findall(r'"(\w+)"', m.group(2)):
                    self.nt.setdefault(pr, set()).add(int(m.group(1)))
            for m in re.finditer(r'<<"COVERAGE", "(.*)">>', out):
                cj = json.loads(json.loads('"' + m.group(1) + '"'))
                for k, v in (cj.items() if isinstance(cj, dict) else []):
                    self.coverage[k] = self.coverage.get(k, 0) + int(v)
            os.remove(sf)
        log("[trace] %s: %d events validated in %.1fs, %d verdict(s)" % (tag, len(lines), time.time() - t0, len(verdicts)))
        for v in verdicts:
            if not v.get("fn") and "/" in v.get("cls", ""):
                v["fn"] = v["cls"].split("/")[0]
        # dedupe (PrintT may fire more than once per state)
        seen, uniq = set(), []
        for v in verdicts:
            k = (v["sid"], v["seq"], v["prop"], v["pred"], v["cls"])
            if k not in seen:
                seen.add(k)
                uniq.append(v)
        return uniq

    # ------------------------------------------------- full replay cycle
    HEAVY_OPS = {"ByteSweep", "RandomSweep", "CodeSweep", "ApiSweep", "MappingBodies", "Tables", "Concurrent", "ConcurrentVerify", "ConcurrentSign",
                 "Chain", "SignedMutSweep", "TextBig", "Sweep", "EncRange", "DecChunks", "TextEncChunks", "TextDecMutate", "TextGuard", "PartialMethods",
                 "ZeroMethods", "ObjNew", "ObjCall"}

    def add_zone_copies(self, every=9, cap=250):
        """Process-level state must not matter: a sample of the sessions is replayed a second time with the process's local time zone
        set to -8 h / +5:30 / +14 h (op argument "localoffset", applied by the driver around the call)."""
        offs = (-28800, 19800, 50400)
        extra = []
        for i, v in enumerate(self.vectors):
            if i % every != 4 or len(extra) >= cap:
                continue
            if any(o.get("op") in self.HEAVY_OPS or "localoffset" in o for o in v["ops"]):
                continue
            c = json.loads(json.dumps(v))
            for o in c["ops"]:
                o["localoffset"] = offs[len(extra) % 3]
            extra.append(c)
        self.vectors.extend(extra)
        self.zone_copies = len(extra)

    def replay_and_judge(self, tag="main", race=False, env_extra=None, driver_workers=None):
        if not race and not getattr(self, "zone_copies", None):
            self.add_zone_copies()
        for i, v in enumerate(self.vectors):
            v["sid"] = i + 1
        # sessions about first use (an op carries cold = TRUE) each get fresh driver processes of their own, several times over: whatever the
        # library initialises lazily is then initialised by this session's calls.  The first run's events are kept; a run that dies of a
        # fatal runtime error is handled by drive() like any other (found, reproduced, recorded).
        cold = [v for v in self.vectors if any(o.get("cold") for o in v["ops"])]
        main = [v for v in self.vectors if not any(o.get("cold") for o in v["ops"])]
        tf, dout = self.drive(main, tag, race=race, env_extra=env_extra, workers=driver_workers)
        for v in cold:
            kept = False
            for rep in range(6):
                tfc, _ = self.drive([v], tag + "_cold", race=race, env_extra=env_extra, workers=driver_workers)
                lines = open(tfc).read().splitlines()
                os.remove(tfc)
                is_fatal = any('"fatal":' in ln for ln in lines)
                if not kept or is_fatal:
                    with open(tf, "a") as f:
                        for ln in lines:
                            if not kept or '"fatal":' in ln:
                                f.write(ln + "\n")
                    kept = True
                if is_fatal:
                    break
        verdicts = self.validate(tf, tag)
        self.pick_samples(tf)
        os.remove(tf)
        self.verdicts = verdicts
        return verdicts

    def pick_samples(self, trace_file, n=4):
        lines = open(trace_file).read().splitlines()
        # library calls made inside sweep events (counted by the driver)
        for ln in lines:
            if '"op":"ByteSweep"' in ln or '"op":"RandomSweep"' in ln or '"op":"CodeSweep"' in ln or '"op":"PartialMethods"' in ln or '"op":"ZeroMethods"' in ln or '"op":"Concurrent"' in ln:
                m = re.search(r'"r":\{(.*)\}', ln)
                for key in ("n", "ncalls", "nruns"):
                    mm = re.search(r'"%s":(\d+)' % key, ln[ln.rfind('"r":'):])
                    if mm:
                        self.library_calls += int(mm.group(1))
        if not lines:
            return
        step = max(1, len(lines) // n)
        for ln in lines[::step][:n]:
            self.samples.append(shorten(json.loads(ln)))

    def confirm_all(self, verdicts):
        """Re-drive the offending sessions against a fresh driver process and re-judge them.
        Returns the subset of verdicts that reproduced."""
        # a fatal runtime error was already reproduced by re-driving its session alone in a fresh process (isolate_fatal); such errors
        # (races on first use) need not strike on every run, so they are not asked to strike a third time
        fatal = [v for v in verdicts if v["pred"] == "call_returns_at_all"]
        verdicts = [v for v in verdicts if v["pred"] != "call_returns_at_all"]
        sids = sorted({v["sid"] for v in verdicts})
        if not sids:
            return fatal
        vecs = [dict(self.vectors[s - 1]) for s in sids]
        race = getattr(self, "race", False)
        saved = (self.events, dict(self.coverage), {k: set(x) for k, x in self.nt.items()}, self.states, self.transitions)
        tf, _ = self.drive(vecs, "confirm", race=race, env_extra=getattr(self, "env_extra", None))
        vs = self.validate(tf, "confirm", shards=NCPU)
        os.remove(tf)
        self.events, self.coverage, self.nt, self.states, self.transitions = saved
        again = {(v["sid"], v["seq"], v["prop"], v["pred"], v["cls"]) for v in vs}
        # A verdict is confirmed when its own session shows it again, or - for behaviour that depends on how concurrent sessions fall (shared
        # pools, races) - when the fresh process shows the same predicate failing in the same class on another of the re-driven sessions
        # (all of which are sessions that showed a violation the first time).
        again_cls = {(v["prop"], v["pred"], v["cls"]) for v in vs}
        return fatal + [v for v in verdicts if (v["sid"], v["seq"], v["prop"], v["pred"], v["cls"]) in again or (v["prop"], v["pred"], v["cls"]) in again_cls]


def shorten(x, n=48):
    if isinstance(x, list):
        if len(x) > n and all(isinstance(i, int) for i in x):
            return x[:n] + ["...(%d bytes)" % len(x)]
        return [shorten(i, n) for i in x[:n]] + (["...(%d items)" % len(x)] if len(x) > n else [])
    if isinstance(x, dict):
        return {k: shorten(v, n) for k, v in x.items()}
    if isinstance(x, str) and len(x) > 300:
        return x[:300] + "..."
    return x


def load_known():
    if not os.path.exists(KNOWN):
        return []
    return json.load(open(KNOWN)).get("findings", [])


def match_known(verdict, known):
    """A known finding is keyed by property + predicate + call site (fn) + spec-computed input class."""
    for k in known:
        if k.get("status") != "open":
            continue
        if k["property"] != verdict["prop"]:
            continue
        if k.get("pred") not in (None, verdict["pred"]):
            continue
        if k.get("fn") not in (None, verdict["fn"]):
            continue
        if k.get("cls") is not None and not re.fullmatch(k["cls"], verdict["cls"]):
            continue
        return k
    return None


def finish(run, level, rule, assumptions, extra_cov=None, exhaustive=False):
    """Turn verdicts into the exit status, write the evidence file, print VIOLATION / KNOWN-FINDING lines."""
    prop = run.prop
    mine = [v for v in run.verdicts if v["prop"] == prop]
    if os.environ.get("VERIF_DEBUG"):
        seen = {}
        for v in run.verdicts:
            seen.setdefault((v["prop"], v["pred"], v["fn"], v["cls"]), []).append(v)
        for k, vs in sorted(seen.items()):
            log("[all-verdicts] %s %s fn=%s cls=%s n=%d sid=%d" % (k[0], k[1], k[2], k[3], len(vs), vs[0]["sid"]))
    known = load_known()
    known_hits, new = {}, []
    for v in mine:
        k = match_known(v, known)
        if k:
            known_hits.setdefault(k["id"], {"k": k, "n": 0, "ex": v})
            known_hits[k["id"]]["n"] += 1
        else:
            new.append(v)
    violations = []
    os.makedirs(os.path.join(REPLAYS, prop), exist_ok=True)
    groups = {}
    for v in new:
        groups.setdefault((v["pred"], v["fn"], v["cls"]), []).append(v)
    unconfirmed = 0
    firsts = [vs[0] for vs in groups.values()]
    confirmed = {(v["sid"], v["seq"], v["pred"], v["cls"]) for v in run.confirm_all(firsts)}
    for key, vs in groups.items():
        v = vs[0]
        log("[verdict] %s pred=%s fn=%s cls=%s (%d event(s))" % (prop, v["pred"], v["fn"], v["cls"], len(vs)))
        if (v["sid"], v["seq"], v["pred"], v["cls"]) in confirmed:
            vec = run.vectors[v["sid"] - 1]
            h = hashlib.sha1(json.dumps([key, vec], sort_keys=True).encode()).hexdigest()[:12]
            path = os.path.join(REPLAYS, prop, "%s-%s.json" % (v["pred"], h))
            json.dump({"property": prop, "verdict": v, "vector": vec, "seed": run.seed, "race": getattr(run, "race", False),
                       "count_same_class": len(vs)}, open(path, "w"), indent=1)
            violations.append((v, path))
        else:
            unconfirmed += 1
    cov_mine = {k: n for k, n in run.coverage.items() if k.startswith(prop + ":")}
    evaluations = sum(cov_mine.values())
    cov = {
        "states": max(run.states, 1), "transitions": max(run.transitions, 1),
        "traces_validated_against_impl": len(run.vectors),
        "samples": run.samples or [{"note": "no sample"}],
        "evaluations": max(evaluations, 1),
        "distinct_nontrivial": len({hashlib.sha1(json.dumps({k: x for k, x in run.vectors[s - 1].items() if k != "sid"}, sort_keys=True).encode()).digest()
                                    for s in run.nt.get(prop, ())}),
        "rule": rule,
        "exhaustive": exhaustive,
        "events_recorded_from_impl": run.events,
        "library_calls_inside_sweep_events": run.library_calls,
        "predicate_instances_exercised": cov_mine,
        "model_checking_runs": run.mc_runs,
        "generation_runs": run.gen_runs,
        "known_finding_hits": {kid: h["n"] for kid, h in known_hits.items()},
        "verdicts_other_properties_ignored": len(run.verdicts) - len(mine),
        "tools": {"tlc": "TLC2 (tla2tools 1.8.0)", "go": GO},
    }
    if extra_cov:
        cov.update(extra_cov)
    ev = {"property_id": prop, "tier": run.tier, "seed": run.seed, "level": level, "coverage": cov,
          "assumptions": assumptions, "wall_s": round(time.time() - run.t0, 1), "violations": len(violations)}
    # extension families (X..: behaviour beyond the listed properties) keep their evidence apart from the listed properties'
    evid = EVID if not prop.startswith("X") else EVID + "_ext"
    os.makedirs(evid, exist_ok=True)
    json.dump(ev, open(os.path.join(evid, prop + ".json"), "w"), indent=1)
    for kid, h in sorted(known_hits.items()):
        print("KNOWN-FINDING: property=%s %s [%s; %d event(s), e.g. fn=%s cls=%s]" %
              (prop, h["k"]["what"], kid, h["n"], h["ex"]["fn"], h["ex"]["cls"]))
    for v, path in violations:
        print("VIOLATION property=%s replay=%s" % (prop, path))
        print("  predicate=%s fn=%s class=%s" % (v["pred"], v["fn"], v["cls"]))
    if unconfirmed and not violations:
        raise MachineryError("%d verdict group(s) did not reproduce on replay" % unconfirmed)
    # vacuity: the property's own predicates must have been exercised
    if evaluations == 0:
        raise MachineryError("vacuous run: no predicate of %s was exercised" % prop)
    return 1 if violations else 0
