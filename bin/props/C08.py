"""C08 — parsed values do not share memory with the caller's buffer."""
import vlib
from props import common

RULE = ("Sessions computed by TLC for every structure in the property's list (certificate, key certificate, keys-and-cert through 6 entry "
        "points x 10 key-type pairs, NULL certificate, signatures x 3 constructors x 4 types, offline signatures x 12 type pairs, leases, "
        "LeaseSet / LeaseSet2 / MetaLeaseSet x 5 destination types x with/without offline block, EncryptedLeaseSet x 4 types): Read, Observe "
        "(serialisation + every accessor), then either the whole buffer complemented or each region in turn (fields of the key block / 3-8 "
        "chunks; pairs of regions in the thorough tier), Observe after each overwrite, finally every slice returned by a copy-documented "
        "accessor complemented and Observe again. The trace specification keeps the first observation of the session as state and compares "
        "every later one with it. Non-trivial = an observation after at least one overwrite was compared.")
RULE += (" Read/Twins events check that the caller's input buffer is not written; kept serialisations of every structure are not overwritten by later calls.")
ASSUME = [common.TRUSTED, "complementing every byte of a region exposes any byte that is still shared",
          "options/properties mappings and RouterInfo/RouterAddress are outside the property's list and are not observed (LeaseSet2/MetaLeaseSet are observed through their identity, key, lease, offline and signature parts)"]
META = {
    "level": "model_checking",
    "technique": "state machine of buffer regions / copied-or-aliased fields model-checked by TLC (MC_Alias, with an aliased-field negative control); TLC-generated overwrite histories replayed into the real parsers; stateful trace validation (first observation kept in a spec variable) of every later observation; heap machine MC_Fresh (negative controls: append onto a view of the input, recycled buffer handed out) sampled by edited struct copies of parsed values",
    "text": ("The judged predicate is an action property over the session: no Scribble/ScribbleReturned step changes a later observation. TLC "
             "validates every recorded session statefully. Every key type and every region of every listed structure is overwritten at least "
             "once (whole buffer and region by region), so a field that still points into the input shows as a changed observation naming the "
             "entry point and region. Histories are bounded to 1-2 overwrites per session plus the returned-slice step."),
    "note": common.TRUSTED,
}


def check(run):
    # who owns the memory behind a result: the machine behind the kept-result chains, the "again" twins and the edited struct copies
    common.mc_fresh(run, controls=("onto-field", "pool"))
    run.mc("MC_Alias", consts={"AliasedFields": "@{}", "MaxWrites": 3}, invariants=["NoSharing"], tag="MC_Alias_copied", workers=4)
    run.mc("MC_Alias", consts={"AliasedFields": '@{"spk"}', "MaxWrites": 2}, invariants=["NoSharing"], tag="MC_Alias_spk_aliased",
           expect_violation="NoSharing", workers=1)
    common.mc_structs(run, kinds=("identity",))
    run.gen("Gen_C08", consts={"Part": "listed"})
    # serialisations kept by the caller while other values are serialised; caller's input buffers stay untouched (Read/Twins events)
    common.gen_structs(run, fams1=("ident",), fams2=("serchain", "lease", "sig", "offsig"))
    # a struct copy of a parsed value, edited through an exported field and serialised: the original and its input buffer do not notice
    run.gen("Gen_WarmEdit", consts={"Part": "all"}, tag="Gen_WarmEdit_all")
    run.replay_and_judge()
    return vlib.finish(run, "model_checking", RULE, ASSUME)
