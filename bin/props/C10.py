"""C10 — key/signature size tables agree everywhere and fix the 384-byte key block."""
import vlib
from props import common

RULE = ("All 65,536 codes x 13 lookups (19 answers per code: the exported maps, Get* functions, KeyCertificate methods, signature and "
        "offline_signature switches) queried by the driver and run-length compressed; TLC checks that the runs partition 0..65535 and that "
        "every code in every run has exactly the specification's answers. Block layout: every (signing, crypto) pair parsed through 9 "
        "identity entry points and built through 4 constructors with position-dependent key/padding bytes; signature / offline-signature / "
        "encrypted-leaseset readers for every type. Non-trivial = a lookup run or an accepted identity whose layout was compared.")
RULE += (' Keys constructed through a KeyCertificate (start/end alignment, declared lengths); LeaseSet2 key-size validation over multi-key sets in every order.')
ASSUME = [common.TRUSTED, "the specification's table is Tables.tla (I2P 0.9.67 common structures), written independently of key_sizes.go"]
META = {
    "level": "model_checking",
    "technique": "TLA+ table (Tables.tla) model-checked over all 65,536 codes; every library lookup for every code recorded by the driver and validated by TLC against the table; block layout judged on parsed and constructed identities of every type pair",
    "text": ("Exhaustive over the 16-bit code space for every lookup (exhaustive: true for that sub-space), so any edit to one copy of the table "
             "(a length, a missing or extra code) is seen against the independent TLA+ table and hence against every other copy. The layout half "
             "(key at the start, signing key at the end, padding exactly between, declared sizes = returned key lengths) is decided on recorded "
             "parses and constructions for all supported pairs with position-dependent bytes; content other than that fill is not enumerated."),
    "note": common.TRUSTED,
}


def check(run):
    run.mc("MC_Tables", consts={"Scale": "real"}, invariants=["TableShape", "BlockFits", "PolicyShape"], tag="MC_Tables_real", workers=4)
    run.mc("MC_Tables", consts={"Scale": "small"}, invariants=["BlockFits", "PolicyShape"], tag="MC_Tables_small", workers=4)
    common.mc_structs(run, kinds=("identity",))
    run.gen("Gen_C10")
    common.gen_structs(run, fams1=("ident", "cert"), fams2=("sig", "offsig", "els"))
    for fam in ("ident", "keycert", "ls2"):   # ls2: the leaseset constructor's own key-size validation
        run.gen("Gen_Build", consts={"Fam": fam}, tag="Gen_Build_" + fam)
    # derived values follow the fields they are derived from: edits through exported fields after every query has been called once
    run.gen("Gen_WarmEdit", consts={"Part": "ident"}, tag="Gen_WarmEdit_ident")
    run.replay_and_judge()
    return vlib.finish(run, "model_checking", RULE, ASSUME, extra_cov={"exhaustive_subspaces": ["all 65,536 type codes x every size lookup"]}, exhaustive=True)
