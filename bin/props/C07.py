"""C07 — identity hashes and addresses are pure functions of the identity's wire bytes."""
import vlib
from props import common

RULE = ("Identities of every type pair and certificate kind parsed through 9 entry points and built through 4 constructors: Hash()/IdentHash() "
        "against the standard library's SHA-256 of the first L input bytes (L from the specification), Base32Address against TLC's bit-level "
        "base32 of that hash + '.b32.i2p' (60 chars), Base64 against TLC's base64 of the wire bytes; pairs (a, a') differing in one byte at "
        "every region boundary (quick) / every position (thorough): Equals/Equal iff bytes equal, differing bytes => differing hash and address.")
RULE += (' After the first observation one padding byte (or the signing key object) is changed in place through the exported fields: hash and addresses must follow.')
ASSUME = [common.TRUSTED, "SHA-256 collision resistance (two different identities have different hashes)", "crypto/sha256 of the standard library is the independent hash"]
META = {
    "level": "model_checking",
    "technique": "bit-level base32/base64 in TLA+ (Text.tla) model-checked as an inverse pair; identity encodings and one-byte variants computed by TLC; hashes, addresses and equality recorded from the library and validated by TLC against stdlib SHA-256 and the TLA+ encodings; a state machine of assignable fields and memoising queries (MC_Cache, two memo negative controls) model-checked by TLC and sampled on the real types by WarmEdit events (query-then-assign against assign-then-query, and against a fresh literal); heap machine MC_Fresh (recycled-buffer negative control) sampled by chains of constructed identities (absent / short / full padding) whose serialisations are kept over several rounds and eight goroutines",
    "text": ("Hash, base32 address, base64 form and equality are recomputed outside the library (SHA-256 from the standard library over the raw "
             "input prefix whose length the specification supplies; base32/base64 by TLC at bit level) for every identity shape and for one-byte "
             "perturbations of every region (key, padding, signing key, certificate payload), so a hash that skips padding or certificate "
             "bytes, a differently trimmed address or an equality that ignores a region is detected. Sampled positions in the quick tier."),
    "note": common.TRUSTED,
}


def check(run):
    # who owns the memory behind a result: the machine behind the kept-result chains, the "again" twins and the edited struct copies
    common.mc_fresh(run, controls=("pool",))
    t = run.tier == "thorough"
    run.mc("MC_Text", consts={"MaxLen": 2, "FullAlpha": True}, invariants=["Inverse", "Shape", "DecoderStrict"], tag="MC_Text_full2")
    run.mc("MC_Text", consts={"MaxLen": 6 if t else 5, "FullAlpha": False}, invariants=["Inverse", "Shape"], tag="MC_Text_alpha")
    common.mc_structs(run, kinds=("identity",))
    run.gen("Gen_C07")
    common.gen_structs(run, fams1=("ident",), fams2=("rinfo",))
    run.gen("Gen_Build", consts={"Fam": "ident"}, tag="Gen_Build_ident")
    # derived values follow the fields they are derived from: edits through exported fields after every query has been called once
    from props import X06
    X06.mc_cache(run)
    run.gen("Gen_WarmEdit", consts={"Part": "ident"}, tag="Gen_WarmEdit_ident")
    run.replay_and_judge()
    return vlib.finish(run, "model_checking", RULE, ASSUME)
