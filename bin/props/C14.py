"""C14 — constructor success implies Validate success implies a clean wire round trip."""
import vlib
from props import common

RULE = ("Constructor argument tuples computed by TLC: valid tuples over the shape space and each single-defect variant (key length != type "
        "size, padding size, nil keys, key count 0/17, lease count 17, flag/offline mismatch both ways, reserved flag bits, KeyLen mismatch, "
        "signature/transient key length, unknown types, empty or over-long transport style, certificate payload rules). For each: constructor "
        "error?, Validate()/ValidateStructure() error?, Bytes() error?, and the serialisation parsed back through the structure's reader "
        "(error?, remainder, identical re-serialisation). Values obtained by parsing are covered by the round-trip predicates of C01. "
        "Lease/Lease2.Validate consult the clock and are judged only for end dates after 2097.")
RULE += (' AddAddress histories; transient DSA/P-256 and mismatched signers; Mapping parsed from unsorted wire order handed to NewLeaseSet2; literal KeysAndCert; huge and pre-epoch instants.')
ASSUME = [common.TRUSTED, "time-dependent expiry checks excluded as the property states", "a defect is 'documented' when Validate/ValidateStructure of the same package rejects it"]
META = {
    "level": "model_checking",
    "technique": "constructor/Validate/parser lifecycle as predicates of the TLA+ trace specification (J_Build.tla); TLC-computed valid and single-defect argument tuples replayed into constructors; outcomes of the three layers validated by TLC; again-twins of every constructor vector; strings within the limit in characters but over it in bytes",
    "text": ("The three layers are exercised on the same TLC-generated tuples and their outcomes compared as implications (constructor ok => "
             "Validate ok => serialise, reparse with empty remainder, same bytes; documented defect => constructor rejects). Shape space as in "
             "C02 direction 2; the signing constructors are driven with the C06 tuples plus EncryptedLeaseSet single-defect variants. Three genuine disagreements that the pinned suite prevents repairing "
             "are listed as known findings and keyed by constructor + defect class."),
    "note": common.TRUSTED,
}
BUILD = ("cert", "keycert", "ident", "raddr", "lease", "offsig", "ls2")


def check(run):
    common.mc_structs(run, kinds=("cert", "identity"))
    for fam in BUILD:
        run.gen("Gen_Build", consts={"Fam": fam}, tag="Gen_Build_" + fam)
    run.gen("Gen_C06")      # the signing constructors (RouterInfo, LeaseSet, LeaseSet2, EncryptedLeaseSet, OfflineSignature) incl. single-defect variants
    run.gen("Gen_Objects")  # RouterInfo.AddAddress histories: the value handed back is judged by the same lifecycle predicate
    run.replay_and_judge()
    return vlib.finish(run, "model_checking", RULE, ASSUME)
