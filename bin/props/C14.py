"""C14 — constructor success implies Validate success implies a clean wire round trip (trial)."""
import vlib
from props import common
RULE = "..."
ASSUME = []
META = {"level": "model_checking", "technique": "t", "text": "t", "note": "n"}
BUILD = ("cert", "keycert", "ident", "raddr", "lease", "offsig", "ls2", "mapping")
def check(run):
    for fam in BUILD:
        run.gen("Gen_Build", consts={"Fam": fam}, tag="Gen_Build_" + fam)
    run.replay_and_judge()
    return vlib.finish(run, "model_checking", RULE, ASSUME)
