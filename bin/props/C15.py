"""C15 — expiry arithmetic is exact over the whole range of the wire fields."""
import vlib
from props import common

RULE = ("Published/expiry seconds {0,1,2^31-1,2^31,2^32-1,...} x offsets {0,1,65535} in LeaseSet2/MetaLeaseSet/EncryptedLeaseSet encodings, "
        "lease end dates (ms, 8 bytes incl. 2^63-1 boundary; s, 4 bytes), offline-signature expiry, meta entry expiry: every time accessor "
        "compared with exact limb arithmetic in TLA+; NewLease/NewLease2 with seconds {0,1,2^31-1,2^32-1,2^32,2^32+1,year 2200}, negative "
        "times and sub-second parts; lease sets with every ordering (incl. duplicates) of up to 3-4 of 8 boundary dates plus seeded orders "
        "of up to 16: newest/oldest are members and bounds; expiry one and two days either side of the driver's clock for six structures.")
RULE += (' Absolute expiry instants at both ends of the wire range (published + expires >= 2^32, 1970); pre-epoch and 2^61..2^63 second counts in the lease constructors.')
ASSUME = [common.TRUSTED, "TLC integers are 32-bit with overflow detection, so all wide quantities are base-256 limb sequences (Bytes.tla) and cannot wrap silently"]
META = {
    "level": "model_checking",
    "technique": "exact limb arithmetic in TLA+ (AddBE/MulSmallBE/DivModSmallBE, model-checked in MC_Prims) as the oracle; boundary timestamps and all small orderings of lease dates computed by TLC; time accessors, constructors and extrema recorded from the library and validated by TLC",
    "text": ("Every time accessor is compared with the mathematically exact value computed on limb sequences for the boundary set of the 32-bit "
             "and 16-bit fields (sums crossing 2^32 included) and for millisecond dates up to 2^63-1; NewLease2 must reject what does not fit "
             "32 bits; extrema are judged over all orderings of small date sets. Boundary-directed plus seeded random, not all 2^48 pairs."),
    "note": common.TRUSTED,
}


def check(run):
    inv = ["RoundTrip", "ReaderContract", "LimbLaws"]
    run.mc("MC_Prims", consts={"MaxW": 2, "FullAlpha": True}, invariants=["LimbLaws"], tag="MC_Prims_full2")
    run.mc("MC_Prims", consts={"MaxW": 5 if run.tier == "thorough" else 4, "FullAlpha": False}, invariants=inv, tag="MC_Prims_alpha")
    run.gen("Gen_C15")
    common.gen_structs(run, fams1=(), fams2=("lease", "offsig", "ls2", "meta", "els"))
    run.gen("Gen_Build", consts={"Fam": "lease"}, tag="Gen_Build_lease")
    run.gen("Gen_C06")      # signing constructors: decoded content (C02), published date (C15)
    # the date constructors and accessors over the whole millisecond range (seconds to milliseconds and back, exact, never wrapped)
    run.gen("Gen_C12", consts={"Part": "dates"}, tag="Gen_C12_dates")
    run.replay_and_judge()
    return vlib.finish(run, "model_checking", RULE, ASSUME)
