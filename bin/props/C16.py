"""C16 — encrypted leaseset: decrypt(encrypt(x)) = x; blinding deterministic, checkable."""
import vlib
from props import common

RULE = ("6 LeaseSet2 shapes (Ed25519/RedDSA/DSA/P-256/P-384 destinations, options, 1-16 keys, 0-16 leases, offline block) x 3 recipient "
        "key forms: encrypt, decrypt with the matching key (bytes must be identical; a second encryption must differ yet decrypt equal), "
        "decrypt with another private key (two forms), and with the ciphertext modified at ~50 positions (every position in the thorough "
        "tier) x masks 0x01/0x55 over ephemeral key, nonce, ciphertext and tag, and truncated at 4 lengths; every non-error or non-nil "
        "outcome is reported. Blinding: 3 destination types x secrets of 32/33/64 (accepted) and 31/16/0 bytes (rejected) x 7 UTC midnights "
        "(incl. leap day, year boundary, 1970, 2038) x instants {-1 s, 0, +1 s, noon, 23:59:59} x 3 (6) time zones: equal blinded bytes "
        "iff equal UTC day as computed in TLA+; encryption key, padding and certificate preserved, signing key changed; the library's own "
        "check true with the factor derived for the TLA+-computed day, false with the next day's and with a random factor.")
RULE += (" Blind ops are repeated with the PROCESS's local time zone set to -8 h, +5:30 and +14 h.")
ASSUME = [common.TRUSTED, "go.step.sm/crypto/x25519, go-i2p/crypto kdf/chacha20poly1305/ed25519 blinding are trusted dependencies",
          "byte modifications are xor 0x01 and 0x55: X25519 ignores the top bit of the ephemeral public key, so xor 0x80 on its last byte is deliberately not used",
          "instants are below 2^31 s because TLC integers are 32-bit"]
META = {
    "level": "model_checking",
    "technique": "UTC-day function (days-to-civil) in TLA+ model-checked over a span of instants, symbolic AEAD acceptance condition (MC_Blind); TLC-computed LeaseSet2 encodings, ciphertext positions, instants/zones and their UTC days replayed into EncryptInnerLeaseSet2/DecryptInnerData/CreateBlindedDestination/VerifyBlindedSignature; outcomes validated by TLC",
    "text": ("Authenticated-encryption rejection is decided per ciphertext position and the day rotation of blinding per instant and zone, "
             "with the calendar day computed independently in TLA+ (so a local-time or off-by-one day in the library shows as a changed or "
             "unchanged key at the wrong instant). Positions and instants are directed samples (exhaustive positions in the thorough tier)."),
    "note": common.TRUSTED,
}


def check(run):
    t = run.tier == "thorough"
    run.mc("MC_Blind", consts={"StartSec": 1709078400, "Steps": 2000 if t else 400, "StepSec": 1800}, invariants=["AEADSound", "DayFunction"], tag="MC_Blind_leapday", workers=4)
    run.mc("MC_Blind", consts={"StartSec": 1735603200, "Steps": 400, "StepSec": 1733}, invariants=["DayFunction"], tag="MC_Blind_newyear", workers=4)
    run.gen("Gen_C16", consts={"Part": "all"})
    run.replay_and_judge()
    return vlib.finish(run, "model_checking", RULE, ASSUME)
