"""C03 — stream framing: consumed + remainder = input; result ignores trailing bytes; no proper prefix accepted."""
import vlib
from props import common

RULE = ("Same behaviours as C01 plus Sweep ops: the entry point is applied to every prefix in[:k] (all cut points k; quick tier starts at "
        "the key block for the 400+-byte structures, thorough at 0) of a well-formed encoding followed by two extra bytes, so both "
        "'no proper prefix accepted' and 'appending changes neither acceptance nor bytes consumed' are decided per cut point; Twins ops "
        "parse w, w++<0>, w++40 bytes. Non-trivial = at least one accepted prefix (framing predicates exercised).")
ASSUME = [common.TRUSTED, "ReadInteger has no error channel: 'success' = an integer of the requested width was returned"]
META = {
    "level": "model_checking",
    "technique": "TLC-checked framing invariants of the reference grammar (prefix-free, append-independent, extent) on the append graph; every cut point and appended tails replayed into the real parsers; traces validated by TLC",
    "text": ("Framing (remainder is a suffix, consumed = declared extent per the reference decoder, acceptance and consumed unchanged under "
             "appended bytes, no proper prefix of a completely consumed encoding accepted) is evaluated by TLC on recorded results of the real "
             "parsers at every cut point of TLC-computed encodings of every structure. The reference grammar's own framing is model-checked "
             "exhaustively on the Small instance. Bounded by the shape space and by the two appended tails."),
    "note": common.TRUSTED,
}


def check(run):
    common.mc_structs(run, negative_control=False)
    common.gen_structs(run)
    # structures at the front of a buffer with more than 64 KiB behind them
    run.gen("Gen_BigTail", heap="8g")
    run.replay_and_judge()
    return vlib.finish(run, "model_checking", RULE, ASSUME)
