"""C04 — no input makes a parser, decoder or accessor panic or hang."""
import vlib
from props import common

RULE = ("For ~50 parser entry points and well-formed encodings of every structure (2 destination types quick / 5 thorough, with offline "
        "blocks, options, 16 leases): every byte offset set to each of 6 (17) boundary values and every offset to each of 3 (8) 2-byte "
        "values, every cut point; each mutant parsed under recover() and a per-call deadline and, if a value comes back without error, every "
        "exported argument-free method called on it by reflection; 400 (4000) seeded random inputs per entry point (pure and grafted on "
        "prefixes, up to 5000 bytes); every code -2..65537 for each of 20 functions that take a type code with 4 buffer lengths; sizes "
        "-5..300 for the integer codecs; every byte value appended to 5 prefixes for the base32/base64 decoders. Distinct non-trivial cases "
        "= sweep events; the number of library calls made inside them is reported as library_calls_inside_sweep_events.")
RULE += (' Accepted values also get every method WITH arguments called (synthesised argument domains); every exported package-level function of the tree (registry generated from source at build time) is called with 48 (1500) argument combinations; every mapping body <= 5 bytes under every container.')
ASSUME = [common.TRUSTED, "a call that does not return within the per-call deadline (4 s quick / 10 s thorough) is a hang; real costs are microseconds",
          "methods with parameters are exercised by the other checks' accessor projections, not here"]
META = {
    "level": "exploration",
    "technique": "loop variant / position bounds of the modelled mapping pair loop model-checked by TLC (MC_Struct: LoopBounded, Framing); TLC-computed well-formed encodings mutated at every offset and cut, seeded random inputs and all 16-bit codes executed against the real library under recover()+deadline; outcomes validated by TLC; families of related accepted values (prefix / suffix / one-element variants, computed by TLC) whose two-value methods are called for every ordered pair",
    "text": ("The decisive observation is dynamic, so the level is exploration. TLC supplies the well-formed encodings of every structure (so "
             "mutants reach deep branches: key types, offline flag, counts of 16) and judges that every sweep ran and produced no panic/hang in "
             "the parser or in any method of an accepted value; the design-level termination/bounds argument is model-checked for the mapping "
             "pair loop. Single-site mutations plus random inputs: multi-site corruptions are covered only by the random part."),
    "note": common.TRUSTED,
}


def check(run):
    t = run.tier == "thorough"
    run.mc("MC_Struct", consts={"Kind": "mapping", "MaxLen": 9 if t else 8, "StopRule": "fits"}, invariants=["Framing", "LoopBounded"], tag="MC_Struct_mapping_bounds")
    run.gen("Gen_C04", consts={"Part": "all"})
    run.gen("Gen_MapBodies")
    common.gen_structs(run)
    # values that come from constructors rather than parsers (every key-type pair with keys of the table sizes, the size-defect variants,
    # the other structures' constructors): constructor, Validate, serialisation and re-parse all return normally
    for fam in ("ident", "keycert", "cert", "raddr", "lease", "offsig", "ls2", "mapping"):
        run.gen("Gen_Build", consts={"Fam": fam}, tag="Gen_Build_" + fam)
    # DecryptInnerData on accepted values, with plaintext a peer chose (independently sealed, bytes after the LeaseSet2)
    run.gen("Gen_C16", consts={"Part": "encdec"}, tag="Gen_C16_encdec")
    run.replay_and_judge()
    return vlib.finish(run, "exploration", RULE, ASSUME)
