"""X01 (extension, not a listed property) — RouterInfo capability / version / transport queries are functions of the decoded options."""
import vlib
from props import common

RULE = ("RouterInfo encodings computed by TLC (Enc.tla) with caps values (every documented letter, first-wins bandwidth classes, values whose "
        "LENGTH is the code of a capability letter, 255 bytes, empty, absent), router.version values (plain in/out of 0.9.58..0.9.99, wrong "
        "part counts, non-digits) and address sets (styles in several cases, IPv4/IPv6/hostname/no host) parsed by ReadRouterInfo; every query "
        "compared by TLC with Caps.tla applied to the reference-decoded option values. Non-trivial = an X01 predicate's antecedent held.")
ASSUME = [common.TRUSTED, "extension family: grows the specification beyond the listed properties; not registered in MANIFEST.json"]
META = None   # not a listed property: bin/mkmanifest skips it


def check(run):
    run.gen("Gen_Struct2", consts={"Fam": "ricaps"}, tag="Gen_Struct2_ricaps")
    run.gen("Gen_Struct2", consts={"Fam": "rinfo"}, tag="Gen_Struct2_rinfo")
    run.replay_and_judge()
    return vlib.finish(run, "model_checking", RULE, ASSUME)
