"""C09 — prohibited key types never appear in a Destination or RouterIdentity."""
import vlib
from props import common

RULE = ("All (signing, crypto) pairs over the known codes (10 x 8) plus unknown representatives and seeded random codes, through every API "
        "path that yields an identity: ReadDestination, NewDestinationFromBytes, NewDestination(ReadKeysAndCert), ReadRouterIdentity, "
        "NewRouterIdentityFromBytes, NewRouterIdentityFromKeysAndCert, NewRouterIdentity, NewDestination/NewKeysAndCert constructors, and "
        "embedded in ReadRouterInfo, ReadLeaseSet, ReadDestinationFromLeaseSet, ReadLeaseSet2, ReadMetaLeaseSet. Judged: no successful call "
        "returns a prohibited type for its role; every permitted, supported, well-formed combination is accepted. Non-trivial = an identity "
        "was returned (policy predicate evaluated) or a permitted combination was presented.")
RULE += (' Caller-assembled KeysAndCert literals handed to the wrappers; prohibited types next to experimental-range codes.')
ASSUME = [common.TRUSTED, "prohibited sets per I2P 0.9.67: Destination: crypto 5-7, signing 4,5,6,8; RouterIdentity: those and signing 11"]
META = {
    "level": "model_checking",
    "technique": "policy sets in Tables.tla, model-checked on the Small identity grammar (a Destination/RouterIdentity accepted by the reference never carries a prohibited type); every type pair x every API path computed by TLC, replayed, and the returned identities' types validated by TLC",
    "text": ("Exhaustive over known type codes x API paths (parsers, wrappers, constructors, and the identities embedded in RouterInfo and the "
             "three leaseset kinds), with unknown codes sampled. Both directions are judged: nothing prohibited is returned on any path, and "
             "nothing permitted+supported is rejected. The path list is fixed in the specification; a new path added to the library later is "
             "not covered until listed."),
    "note": common.TRUSTED,
}


def check(run):
    run.mc("MC_Tables", consts={"Scale": "real"}, invariants=["TableShape", "PolicyShape"], tag="MC_Tables_real", workers=4)
    common.mc_structs(run, kinds=("identity",))
    common.gen_structs(run, fams1=("ident",), fams2=("rinfo", "ls", "ls2", "meta"))
    run.gen("Gen_Build", consts={"Fam": "ident"}, tag="Gen_Build_ident")
    # the signing constructors handed caller-assembled identities that declare another signing type, with and without an offline block
    run.gen("Gen_C06", consts={"Part": "decl"}, tag="Gen_C06_decl")
    # histories on the library's mutable objects: what a builder / a RouterInfo handed out earlier stays what it was
    run.gen("Gen_Objects")
    run.replay_and_judge()
    return vlib.finish(run, "model_checking", RULE, ASSUME)
