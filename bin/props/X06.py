"""X06 (extension, not a listed property) — derived values follow the fields they are derived from (no stale caches)."""
import vlib
from props import common

RULE = ("WarmEdit events: for pairs (A, B) of accepted encodings of the same shape (identities of 5 key-type pairs through 5 readers, RouterInfos, "
        "router addresses with hosts of different families) and every place reachable through exported fields or pointer-returning accessors: one "
        "parse of A has all read-only methods called, then the place given B's content; a second parse receives the content first. Every read-only "
        "method has to answer alike on both. Non-trivial = at least one place was edited.")
ASSUME = [common.TRUSTED, "extension family: grows the specification beyond the listed properties; the hash / serialisation / address-query parts are judged under C07, C10, C01 and C17 in those checks"]
META = None


def check(run):
    run.gen("Gen_WarmEdit")
    run.replay_and_judge()
    return vlib.finish(run, "model_checking", RULE, ASSUME)
