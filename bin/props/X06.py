"""X06 (extension, not a listed property) — derived values follow the fields they are derived from (no stale caches)."""
import vlib
from props import common

RULE = ("WarmEdit events: for pairs (A, B) of accepted encodings of the same shape (identities of 5 key-type pairs through 5 readers, RouterInfos, "
        "router addresses with hosts of different families) and every place reachable through exported fields or pointer-returning accessors: one "
        "parse of A has all read-only methods called, then the place given B's content; a second parse receives the content first. Every read-only "
        "method has to answer alike on both. Non-trivial = at least one place was edited.")
ASSUME = [common.TRUSTED, "extension family: grows the specification beyond the listed properties; the hash / serialisation / address-query parts are judged under C07, C10, C01 and C17 in those checks"]
META = None


def mc_cache(run):
    """the state machine behind WarmEdit: assignments and queries in any order; memoising variants that TLC must refute"""
    for v in ("none", "invalidate"):
        run.mc("MC_Cache", consts={"Variant": v, "MaxSteps": 6}, invariants=["AnswersFollowFields"], tag="MC_Cache_" + v, workers=4)
    for v in ("memo", "at-birth"):
        run.mc("MC_Cache", consts={"Variant": v, "MaxSteps": 4}, invariants=["AnswersFollowFields"], tag="MC_Cache_" + v.replace("-", ""),
               expect_violation="AnswersFollowFields", workers=1)


def check(run):
    mc_cache(run)
    run.gen("Gen_WarmEdit")
    run.replay_and_judge()
    return vlib.finish(run, "model_checking", RULE, ASSUME)
