"""Shared pieces of the per-property pipelines."""
import vlib

STRUCT1 = ("cert", "ident", "mapping")
STRUCT2 = ("prims", "lease", "sig", "offsig", "raddr", "rinfo", "ricaps", "ls", "ls2", "meta", "els", "serchain")


def gen_structs(run, fams1=STRUCT1, fams2=STRUCT2):
    for fam in fams1:
        run.gen("Gen_Struct", consts={"Fam": fam}, tag="Gen_Struct_" + fam)
    for fam in fams2:
        run.gen("Gen_Struct2", consts={"Fam": fam}, tag="Gen_Struct2_" + fam)


def mc_structs(run, kinds=("mapping", "cert", "identity"), negative_control=True):
    t = run.tier == "thorough"
    if "mapping" in kinds:
        run.mc("MC_Struct", consts={"Kind": "mapping", "MaxLen": 9 if t else 8, "StopRule": "fits"},
               invariants=["Framing", "RoundTrip", "ImplRefinesGrammar"], tag="MC_Struct_mapping")
        if negative_control:
            run.mc("MC_Struct", consts={"Kind": "mapping", "MaxLen": 7, "StopRule": "six"}, invariants=["ImplRefinesGrammar"],
                   tag="MC_Struct_mapping_oldrule", expect_violation="ImplRefinesGrammar")
    if "cert" in kinds:
        run.mc("MC_Struct", consts={"Kind": "cert", "MaxLen": 8 if t else 7, "StopRule": "fits"}, invariants=["Framing", "RoundTrip"], tag="MC_Struct_cert")
    if "identity" in kinds:
        run.mc("MC_Struct", consts={"Kind": "identity", "MaxLen": 8 if t else 7, "StopRule": "fits"}, invariants=["Framing", "RoundTrip"], tag="MC_Struct_identity")


TRUSTED = ("Trusted: TLC's evaluation of the specification; the Go driver (no layout knowledge: it only calls the public API, copies bytes and "
           "compares byte slices); Go's standard library. Exhaustive only within the stated bounds (Small instance for content, shape space for "
           "real-size encodings); real-size byte content is position-dependent fill, real keys or seeded pseudo-random.")


def mc_fresh(run, controls=("template", "pool", "onto-field")):
    """Who owns the memory behind a result (MC_Fresh): every result an array of its own satisfies ResultRight, KeptStable and InputStable
    in every reachable state; a constructor handing out copies of a template, a serialiser handing out its recycled buffer and a
    serialiser appending onto a field that views the input buffer are negative controls TLC must refute."""
    run.mc("MC_Fresh", consts={"Variant": "fresh", "MaxResults": 5}, invariants=["ResultRight", "KeptStable", "InputStable"], tag="MC_Fresh_fresh", workers=4)
    inv = {"template": "ResultRight", "pool": "KeptStable", "onto-field": "InputStable"}
    for v in controls:
        run.mc("MC_Fresh", consts={"Variant": v, "MaxResults": 4}, invariants=[inv[v]], tag="MC_Fresh_" + v.replace("-", ""),
               expect_violation=inv[v], workers=1)
