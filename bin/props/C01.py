"""C01 — re-serialising any accepted wire input reproduces the consumed bytes exactly."""
import vlib
from props import common

RULE = ("Every parser entry point (~60 Read*/New*FromBytes functions) is run on encodings computed by TLC from the reference layout "
        "(Enc.tla): every certificate type x payload length x declared-length delta x tail; every known and sampled unknown "
        "(signing, crypto) type pair x certificate kind for identities through 9 entry points; mappings incl. short final pairs, junk "
        "tails, unsorted/duplicate keys, size +-1; all composite structures over their shape dimensions (one-at-a-time + seeded random "
        "combinations), each also with appended data and, via Sweep, on every prefix. Non-trivial = the parser accepted the input and a "
        "serialisation was compared with the consumed bytes; distinct = distinct vector content.")
RULE += (' Every Read/Twins event also records query stability (all read-only methods of the accepted value in two passes, then the serialisation again), and a Chain of kept serialisations of two values of every structure checks that a serialisation a caller still holds is not overwritten by later calls.')
RULE += (" Structures of every non-canonical accepted shape (excess key-certificate payload, NULL certificate, unsorted options, peer_size 0/1/3, 0..16 leases) are given real keys and a genuine signature over the wire bytes and must verify (C01's last sentence).")
ASSUME = [common.TRUSTED, "'accepted' for ReadMapping/NewMapping = error list empty or only the documented 'data exists beyond length of mapping' warning",
          "ReadLeaseSet returns no remainder: its serialisation must be a prefix of the input (and have the reference length when the reference accepts)"]
META = {
    "level": "model_checking",
    "technique": "TLA+ reference codec model-checked exhaustively (append graph, Small instance) incl. an implementation-shaped model of the mapping pair loop; TLC-computed encodings replayed into every parser; recorded (input, remainder, serialisation) validated by TLC against the spec; heap machine MC_Fresh (negative controls: append onto a view of the input, recycled buffer handed out) sampled by struct copies of parsed values that are edited and serialised while the original and its input buffer are observed",
    "text": ("The predicate 'serialisation = input minus remainder' is evaluated by TLC on every recorded parser call of the real library, for "
             "inputs that TLC computed from an independent TLA+ description of the I2P layout across the whole shape space, including the "
             "non-canonical-but-accepted classes (excess certificate payload, unknown certificate types, odd mappings, every key-type pair) and "
             "every cut point. Model checking shows the oracle itself round-trips and that the modelled pair loop refines the grammar for all "
             "mapping strings up to 10-11 bytes. Bounded: real-size content is sampled, not enumerated."),
    "note": common.TRUSTED,
}


def check(run):
    # who owns the memory behind a result: the machine behind the kept-result chains, the "again" twins and the edited struct copies
    common.mc_fresh(run, controls=("onto-field", "pool"))
    common.mc_structs(run)
    common.gen_structs(run)
    run.gen("Gen_MapBodies")
    # honest signed structures over the non-canonical accepted shapes: signatures are computed over the re-serialised bytes
    run.gen("Gen_Signed")
    # histories on one EncryptedLeaseSet: decryption leaves its serialisation alone
    run.gen("Gen_C16", consts={"Part": "encdec"}, tag="Gen_C16_encdec")
    # a struct copy of a parsed value, edited through an exported field and serialised: the original and its input buffer do not notice
    run.gen("Gen_WarmEdit", consts={"Part": "all"}, tag="Gen_WarmEdit_all")
    run.replay_and_judge()
    return vlib.finish(run, "model_checking", RULE, ASSUME)
