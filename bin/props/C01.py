"""C01 — re-serialising any accepted wire input reproduces the consumed bytes exactly."""
import vlib

RULE = "..."
ASSUME = []
META = {"level": "model_checking", "technique": "t", "text": "t", "note": "n"}


def check(run):
    for fam in ("cert", "ident", "mapping"):
        run.gen("Gen_Struct", consts={"Fam": fam}, tag="Gen_Struct_" + fam)
    for fam in ("lease", "sig", "offsig", "raddr", "rinfo", "ls", "ls2", "meta", "els"):
        run.gen("Gen_Struct2", consts={"Fam": fam}, tag="Gen_Struct2_" + fam)
    run.replay_and_judge()
    return vlib.finish(run, "model_checking", RULE, ASSUME)
