"""C13 — I2P base32/base64: decode(encode(x)) = x and only the I2P alphabet is accepted."""
import vlib
from props import common

RULE = ("All byte strings of length <= 2 through every encoder (exhaustive, chunked), every length residue mod 5 / mod 3 up to 17 and "
        "larger sizes, seeded random strings; decoders on valid encodings of every residue, on the other variant's encodings (padded vs "
        "unpadded), on 10 malformed variants each (extra/missing/misplaced padding, CR/LF, space, NUL), and with the character at the first/"
        "middle/last position replaced by each of the 256 byte values (accepted set must be exactly the reference's); size guards at 0, 1, "
        "MAX-8, MAX, MAX+1, MAX+8. Non-trivial = a C13 predicate's antecedent held.")
RULE += (' Size guards with CR/LF at the limit; decoded results kept while other strings are decoded (Chain).')
ASSUME = [common.TRUSTED, "trailing padding bits of a final character are not required to be zero (RFC 4648 non-strict), as in the reference decoder"]
META = {
    "level": "model_checking",
    "technique": "bit-level base32/base64 in TLA+ (Text.tla) model-checked exhaustively as inverse pairs with strict alphabets; TLC-computed inputs replayed into every encoder/decoder variant; outputs and accept/reject sets validated by TLC; heap machine MC_Fresh (recycled-buffer negative control) behind the kept-result chains, plain and line-wrapped text side by side",
    "text": ("The reference encodings are defined by 5-/6-bit regrouping, independent of encoding/base32|64, and model-checked over all byte "
             "strings up to length 2 (and a 9-symbol alphabet to length 5-6). The library's outputs must equal the reference for every string "
             "of length <= 2 and every sampled longer one; each decoder's accepted byte set at a position must equal the reference's for all 256 "
             "values; guards are probed at their exact limits. Longer strings are sampled."),
    "note": common.TRUSTED,
}


def check(run):
    # who owns the memory behind a result: the machine behind the kept-result chains, the "again" twins and the edited struct copies
    common.mc_fresh(run, controls=("pool",))
    t = run.tier == "thorough"
    run.mc("MC_Text", consts={"MaxLen": 2, "FullAlpha": True}, invariants=["Inverse", "Shape", "DecoderStrict"], tag="MC_Text_full2")
    run.mc("MC_Text", consts={"MaxLen": 6 if t else 5, "FullAlpha": False}, invariants=["Inverse", "Shape", "DecoderStrict"], tag="MC_Text_alpha")
    run.gen("Gen_C13")
    run.replay_and_judge()
    return vlib.finish(run, "model_checking", RULE, ASSUME, extra_cov={"exhaustive_subspaces": ["all byte strings of length <= 2 x every encoder"]})
