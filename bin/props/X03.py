"""X03 (extension, not a listed property) — exported functions that take structured values return normally for nil / zero / pooled arguments."""
import vlib
from props import common

RULE = ("every exported package-level function of the tree (registry generated from source at build time) called with up to 48 (1500 thorough) "
        "argument combinations: byte strings / strings / integers from fixed domains, nil, zero values, and values the library returned for "
        "TLC-computed encodings. Functions with only byte-string / integer parameters are judged under C04; the others here. "
        "Non-trivial = the function was called at least once.")
ASSUME = [common.TRUSTED, "extension family: grows the specification beyond the listed properties; not registered in MANIFEST.json"]
META = None


def check(run):
    run.gen("Gen_C04", consts={"Part": "api"})
    run.replay_and_judge()
    return vlib.finish(run, "exploration", RULE, ASSUME)
