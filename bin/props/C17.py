"""C17 — router address host/port accessors are consistent and never accept a hostname."""
import vlib
from props import common

RULE = ("Option maps computed by TLC: 44 host strings (IPv4/IPv6 in every compression form, v4-mapped, leading zeros, 5 hex digits, zones, "
        "host:port, brackets, whitespace, hostnames, IDN bytes, hex/short IPv4, empty) x port, 20 port strings (decimal, signed, zero-padded, "
        "0, 65535, 65536, 2^63, hex, exponent, whitespace, empty) x host, keys that are prefixes/extensions/case variants of host, port, s, i, "
        "caps, v, s/i values of length 0,1,15,16,17,31,32,33,64,255, seeded combinations; each through NewRouterAddress and through "
        "ReadRouterAddress of TLC's encoding. Non-trivial = a C17 predicate's antecedent held.")
RULE += (" 39-45-byte literals, IPv6 with embedded dotted quads, introducer options ihN/iexpN/itagN; an IPv4-mapped literal's version must be the family of the address Host() returned.")
ASSUME = [common.TRUSTED, "IP-literal grammar = dotted quad / RFC 4291 section 2.2 text forms (Net.tla), permissive about leading zeros; judged in the direction 'accepted => literal'",
          "decimal port = [+-]?[0-9]+ with value 1..65535; canonical form = shortest decimal"]
META = {
    "level": "model_checking",
    "technique": "IP-literal and decimal-port grammars in TLA+ (Net.tla) model-checked over all strings up to 5-6 characters of a 10/8-symbol alphabet; TLC-computed option maps replayed through constructor and parser paths; accessor outcomes validated by TLC; the struct behind a pointer field as an editable place",
    "text": ("Host() may succeed only on strings the TLA+ grammar classifies as IP literals and must return the literal's numeric value; "
             "HasValidHost/HasValidPort must coincide with Host()/Port() success on every input; Port() only on decimal 1..65535 and in canonical "
             "form; IPVersion must match the literal's family; GetOption must be an exact-key lookup; StaticKey/IV succeed exactly for 32/16 "
             "bytes. The grammar itself is model-checked exhaustively on short strings. The corpus is directed, not exhaustive."),
    "note": common.TRUSTED,
}


def check(run):
    t = run.tier == "thorough"
    run.mc("MC_Net", consts={"MaxLen": 6 if t else 5, "Which": "host"}, invariants=["HostGrammar"], tag="MC_Net_host")
    run.mc("MC_Net", consts={"MaxLen": 7 if t else 6, "Which": "port"}, invariants=["PortGrammar"], tag="MC_Net_port")
    run.gen("Gen_C17")
    # derived values follow the fields they are derived from: edits through exported fields after every query has been called once
    run.gen("Gen_WarmEdit", consts={"Part": "raddr"}, tag="Gen_WarmEdit_raddr")
    run.replay_and_judge()
    return vlib.finish(run, "model_checking", RULE, ASSUME)
