"""C11 — mapping: map -> bytes -> map is the identity and the encoding is canonical."""
import vlib
from props import common

RULE = ("Go maps over key/value lengths {0,1,2,5,254,255} incl. '=' ';' 0x00 0xFF and multi-byte UTF-8, pair counts up to 100 (1000/1001 in "
        "the thorough tier), totals 65534/65535/65536, 256-byte strings; each converted 2-20 times (GoMapToMapping: Go's randomised iteration; "
        "ValuesToMapping: rotated insertion order) and compared with TLC's CanonicalSer; bytes parsed back; plus TLC-computed mapping byte "
        "strings (short final pairs, junk tails, unsorted, duplicate keys, size +-1) into ReadMapping/NewMapping and every cut point. "
        "Non-trivial = a C11 predicate's antecedent held.")
RULE += (' Hash-collision, UTF-16-order and prefix key families; pair counts 999/1000/1001 (thorough); kept Data() results (Chain); re-serialisation after every query of the mapping.')
ASSUME = [common.TRUSTED, "keys of a Go map are distinct, so model pair lists have distinct keys"]
META = {
    "level": "model_checking",
    "technique": "mapping grammar, canonical serialisation and the implementation-shaped pair loop in TLA+ (Mapping.tla, MC_Struct) model-checked over all mapping strings up to 10-11 bytes; maps and byte strings computed by TLC replayed into GoMapToMapping/ValuesToMapping/ReadMapping; results validated by TLC; heap machine MC_Fresh (recycled-buffer negative control) behind the kept serialisations",
    "text": ("TLC exhausts every mapping byte string up to 10 bytes (11 thorough) over {0,1,2,'=',';','a'}: the reference grammar round-trips, the "
             "canonical form is a sorted fixpoint with a correct size field, and the modelled pair loop of the repaired tree refines the grammar "
             "(the old six-byte rule is kept as a negative control that TLC must refute). The real conversions are then judged against "
             "CanonicalSer for maps at the string, pair-count and total-size limits, repeatedly, to expose iteration-order dependence."),
    "note": common.TRUSTED,
}


def check(run):
    # who owns the memory behind a result: the machine behind the kept-result chains, the "again" twins and the edited struct copies
    common.mc_fresh(run, controls=("pool",))
    common.mc_structs(run, kinds=("mapping",))
    run.gen("Gen_Build", consts={"Fam": "mapping"}, tag="Gen_Build_mapping")
    common.gen_structs(run, fams1=("mapping",), fams2=())
    run.gen("Gen_MapBodies")
    run.replay_and_judge()
    return vlib.finish(run, "model_checking", RULE, ASSUME)
