"""C02 — wire format agrees with the I2P common-structures specification, both directions."""
import vlib
from props import common

RULE = ("Direction 1: encodings computed by TLC from Enc.tla (independent layout) over the shape space of every structure; the library "
        "must accept, consume exactly, and expose through its public accessors exactly the field values the reference decoder (Structs.tla) "
        "reads from the same bytes. Direction 2: model values (records) handed to every non-signing constructor; the produced bytes are decoded "
        "by the reference decoder and compared with the model field by field. Non-trivial = a field comparison was evaluated for the event.")
RULE += (' Accessors are re-observed after every read-only query has been called (query stability); option sets include hash-collision, UTF-16-order and prefix keys; caps/version accessors, certificate key-type getters, MetaLeaseSet GetEntry/FindEntriesByType.')
ASSUME = [common.TRUSTED, "MetaLeaseSet is specified in the layout this library documents (entry = hash, type, expires, cost, properties)",
          "only well-formed encodings of library-supported key types are demanded to be accepted"]
META = {
    "level": "model_checking",
    "technique": "independent TLA+ encoder/decoder pair (Enc.tla/Structs.tla) model-checked on the Small instance; TLC-computed encodings and model values replayed into parsers and constructors; accessor projections and produced bytes validated by TLC field by field; heap machine MC_Fresh (negative controls: append onto a view of the input, template shared by the copies handed out) sampled by edited struct copies and by again-twins of every constructor vector; query stability on every constructed value",
    "text": ("The oracle is an independent TLA+ implementation of the layout, not the library's helpers, so a change applied consistently to the "
             "read and write side (fields swapped, key moved to the other end of its field, endianness) is seen. Every structure's fields are "
             "compared for every shape in the enumerated space (type pairs x certificate kinds x counts 0..17 x flag words x option shapes x "
             "offline types x timestamps) in both directions. Bounded by that shape space; byte content is position-dependent fill."),
    "note": common.TRUSTED,
}
BUILD = ("cert", "keycert", "ident", "raddr", "lease", "offsig", "ls2", "mapping")


def check(run):
    # who owns the memory behind a result: the machine behind the kept-result chains, the "again" twins and the edited struct copies
    common.mc_fresh(run, controls=("onto-field", "template"))
    common.mc_structs(run, negative_control=False)
    common.gen_structs(run)
    for fam in BUILD:
        run.gen("Gen_Build", consts={"Fam": fam}, tag="Gen_Build_" + fam)
    run.gen("Gen_C06")      # signing constructors: decoded content (C02), published date (C15)
    # histories on the library's mutable objects: what a builder / a RouterInfo handed out earlier stays what it was
    run.gen("Gen_Objects")
    # a struct copy of a parsed value, edited through an exported field and serialised: the original and its input buffer do not notice
    run.gen("Gen_WarmEdit", consts={"Part": "all"}, tag="Gen_WarmEdit_all")
    run.replay_and_judge()
    return vlib.finish(run, "model_checking", RULE, ASSUME)
