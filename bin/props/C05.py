"""C05 — successful verification implies authenticity under the identity's own key."""
import vlib
from props import common

RULE = ("45 signed structures computed by TLC with key and signature slots (RouterInfo; LeaseSet for DSA/P-256/P-384/Ed25519 destinations; "
        "LeaseSet2 and MetaLeaseSet for Ed25519/RedDSA/DSA/P-256/P-384 destinations with and without offline blocks of transient type "
        "7/11/1/8; EncryptedLeaseSet for blinded types 11/7 with and without offline blocks; OfflineSignature for 8 type pairs), filled by the "
        "driver with real keys and signatures, then ONE adversary step each: a bit flipped at ~35 positions spread over the covered region, "
        "the keys and the signature (every byte in the thorough tier) with masks 0x01/0x80, closing signature replaced by an attacker's, "
        "identity key substituted, content edited and re-signed by the attacker, offline block forged (attacker transient key + random "
        "authorisation) or transplanted (another identity's valid authorisation), right key but wrong scheme (plain Ed25519 under an "
        "Ed25519ph key). Judged: library verification success => the independent decision on the raw bytes (signature valid under the key "
        "at the specification's offset over prefix ++ received bytes; transient key authorised by the identity key). Non-trivial = the "
        "library reported success (antecedent) or an adversary step was applied to a structure the library had verified.")
RULE += (' Adversary steps include whole-pair swaps of options; MetaLeaseSet skeletons with DSA/ECDSA identities; every skeleton is also verified as two DISTINCT values (genuine / one content bit flipped) by 16 goroutines at the same time (no false accept).')
ASSUME = [common.TRUSTED, "independent verification uses crypto/ed25519, crypto/ecdsa and go-i2p/crypto's DSA verifier (dependencies, not the code under test)",
          "unforgeability of the signature schemes; the adversary owns only its own keys",
          "an event is judged only when the reference decoder finds the signature/key slots of the mutated bytes where the driver used them"]
META = {
    "level": "model_checking",
    "technique": "symbolic (Dolev-Yao) model of signing and offline authorisation in TLA+ (Crypto.tla) with adversary actions, model-checked by TLC over all adversary sequences up to length 4 (and a no-authorisation-check negative control); TLC-computed signed-structure skeletons with slots, real keys, one adversary derivation each replayed into the library; verification results validated by TLC against an independent verification of the raw bytes (adversary steps now include pair swaps, insertions into certificate payloads, forgery through a legacy LeaseSet's own signing_key field, and transient-key re-signing after an offline-block edit; the model has the offline expiry, the revocation key, a leaked transient key and two flawed verifiers that TLC refutes)",
    "text": ("TLC shows on the symbolic model that a verifier which checks the closing signature under the selected key AND the offline "
             "authorisation accepts only authentic structures under every adversary sequence up to depth 4, and that dropping the authorisation "
             "check admits the forged-offline attack. The real verifiers are then confronted with concrete forgeries of every class for every "
             "verifiable type and the implication success => authentic is evaluated by TLC on each recorded outcome. One derivation step per "
             "event; bit positions sampled in the quick tier."),
    "note": common.TRUSTED,
}


def check(run):
    t = run.tier == "thorough"
    run.mc("MC_Crypto", consts={"ChecksAuth": True, "MaxSteps": 5 if t else 4, "Flaw": "none", "Leaked": False}, invariants=["VerifyImpliesAuthentic", "OwnerNeverImpersonated"], tag="MC_Crypto_checks_auth")
    run.mc("MC_Crypto", consts={"ChecksAuth": False, "MaxSteps": 3, "Flaw": "none", "Leaked": False}, invariants=["VerifyImpliesAuthentic"], tag="MC_Crypto_no_auth_check",
           expect_violation="VerifyImpliesAuthentic", workers=2)
    # a leaked transient key: the sound verifier still accepts only what the identity authorised; a verifier that forgets the expiry, and one
    # that takes a legacy LeaseSet's own signing_key field for a verification key, are refuted
    run.mc("MC_Crypto", consts={"ChecksAuth": True, "MaxSteps": 3, "Flaw": "none", "Leaked": True}, invariants=["VerifyImpliesAuthentic"], tag="MC_Crypto_leaked_sound", workers=4)
    run.mc("MC_Crypto", consts={"ChecksAuth": True, "MaxSteps": 3, "Flaw": "cache-no-expiry", "Leaked": True}, invariants=["VerifyImpliesAuthentic"],
           tag="MC_Crypto_cache_no_expiry", expect_violation="VerifyImpliesAuthentic", workers=2)
    run.mc("MC_Crypto", consts={"ChecksAuth": True, "MaxSteps": 3, "Flaw": "accepts-revkey", "Leaked": False}, invariants=["VerifyImpliesAuthentic"],
           tag="MC_Crypto_accepts_revkey", expect_violation="VerifyImpliesAuthentic", workers=2)
    run.gen("Gen_C05")
    run.replay_and_judge()
    return vlib.finish(run, "model_checking", RULE, ASSUME)
