"""C20 — zero values and failed-parse results are safe to touch."""
import json
import os
import re
import vlib
from props import common

RULE = ("Every exported struct type of the library (21, listed in the specification and cross-checked against a go/ast scan of /repo) and the 8 "
        "named value types: every exported argument-free method in the value and pointer method sets called by reflection on T{} and &T{} "
        "under recover() and a deadline; the same methods on the value a parser returns together with an error for EVERY truncation point of "
        "well-formed encodings of every parsed structure (2-4 destination types). Verify*/VerifySignature must not report success. "
        "Non-trivial = a type whose methods were all called / a reader with at least one partial value.")
RULE += (' Partial values also come from structure-aware mutation (every offset x boundary values) and from mutate-then-sign sweeps over genuinely signed skeletons (SignedMutSweep): what comes back with an error never verifies.')
ASSUME = [common.TRUSTED, "zero value means T{} and &T{}; a nil *T is not a value of the structure type and is not called",
          "methods with parameters are out of the property's scope"]
META = {
    "level": "exploration",
    "technique": "lifecycle state machine (zero / partial / valid origins x method classes) model-checked by TLC with a nil-guard negative control; the (type, origin, method) space enumerated from the specification's catalogue, executed reflectively on the real library, outcomes validated by TLC; catalogue cross-checked against go/ast",
    "text": ("The decisive observation is dynamic (panic / no panic), so the level is exploration: exhaustive over (type, receiver kind, "
             "argument-free method) for zero values by reflection, and over every cut point of the listed encodings for partial values. TLC "
             "enumerates and judges (every listed type must appear and have all its methods called; no outcome may be a panic, a hang or a "
             "successful verification) and the lifecycle model documents the guard the code relies on."),
    "note": common.TRUSTED,
}


def astscan_structs():
    code, out, _ = vlib.run([vlib.GO, "run", "./cmd/astscan", vlib.REPO], 300, cwd=vlib.HARNESS, env=vlib.GOENV)
    if code != 0:
        raise vlib.MachineryError("astscan failed\n" + out[-2000:])
    d = json.loads(out[out.index("{"):])
    return {t.split(":")[0] for t in d["types"] if t.endswith(":struct")}


def check(run):
    spec = open(os.path.join(run.specdir, "J_C20.tla")).read()
    listed = set(re.findall(r'"([a-z_0-9]+\.[A-Za-z0-9]+)"', spec[spec.index("StructTypes =="):spec.index("OtherTypes ==")]))
    missing = astscan_structs() - listed
    if missing:
        raise vlib.MachineryError("exported struct types in /repo that the specification's catalogue does not list: %s" % sorted(missing))
    run.mc("MC_Lifecycle", consts={"NilGuards": True}, invariants=["ReturnsNormally", "NeverVerifiesGarbage"], tag="MC_Lifecycle_guarded", workers=2)
    run.mc("MC_Lifecycle", consts={"NilGuards": False}, invariants=["ReturnsNormally"], tag="MC_Lifecycle_unguarded", expect_violation="ReturnsNormally", workers=1)
    run.gen("Gen_C20")
    run.replay_and_judge()
    return vlib.finish(run, "exploration", RULE, ASSUME, exhaustive=True,
                       extra_cov={"exhaustive_subspaces": ["(struct type, receiver kind, argument-free method) on zero values", "every truncation point of the listed encodings"]})
