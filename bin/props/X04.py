"""X04 (extension, not a listed property) — the library's mutable objects follow their state machines (Objects.tla) along any history of calls."""
import vlib
from props import common

RULE = ("call sequences computed by TLC: every sequence of CertificateBuilder calls up to length 2 (3 thorough) over a 15-call alphabet (each setter "
        "with valid, invalid and out-of-range arguments, Validate, Build), observed after every call and only at the end; 60 (600) random histories "
        "of 4-9 calls over 27 calls; SetBytes with every length class on the three fixed-size types; MappingValues.Add at the string limits; "
        "RouterInfo.AddAddress across the 255 limit. Trace.tla steps the abstract state along the recorded calls and compares call result and "
        "observation after every step. Non-trivial = a predicate of the family's property held its antecedent.")
ASSUME = [common.TRUSTED, "extension family: grows the specification beyond the listed properties; the builder histories are also part of C19"]
META = None

INVS = ["BuilderRefines", "BuildIdempotent", "KeyTypesHonoured", "FailedCallsChangeNothing", "CountFitsByte", "SizeKept", "NonEmptyKeys", "KeptUnchanged"]


def mc_objects(run):
    for kind in ("builder", "fixed", "mvals", "rinfo"):
        run.mc("MC_Objects", consts={"Kind": kind, "Variant": "none"}, invariants=INVS, tag="MC_Objects_" + kind)
    run.mc("MC_Objects", consts={"Kind": "builder", "Variant": "keeps-payloadset"}, invariants=["BuilderRefines"],
           tag="MC_Objects_firstwins", expect_violation="BuilderRefines")
    run.mc("MC_Objects", consts={"Kind": "builder", "Variant": "truncates"}, invariants=["BuilderRefines"],
           tag="MC_Objects_truncates", expect_violation="BuilderRefines")
    run.mc("MC_Objects", consts={"Kind": "builder", "Variant": "shares-scratch"}, invariants=["KeptUnchanged"],
           tag="MC_Objects_scratch", expect_violation="KeptUnchanged")


def check(run):
    mc_objects(run)
    run.gen("Gen_Objects")
    run.replay_and_judge()
    return vlib.finish(run, "model_checking", RULE, ASSUME)
