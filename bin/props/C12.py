"""C12 — Integer, Date and String primitives are exact inverses within their domain."""
import vlib
from props import common

RULE = ("vectors computed by TLC from Prims.tla: widths 1-2 exhaustively (range ops), boundary values 2^(8n)-1, 2^(8n), 2^63-1, "
        "seeded pseudo-random values of every width x sizes -1..9; every decode of all 1- and 2-byte strings; string reader on every "
        "prefix of 300-byte inputs per declared length; date constructors/accessors at ms/second boundaries. A vector is non-trivial "
        "when at least one C12 predicate's antecedent held on its recorded event; distinct = distinct vector content.")
RULE += (' Chain events: one/two-byte integers, strings and dates kept by the caller, appended to and overwritten while neighbours are encoded; second counts whose product wraps around 2^64.')
ASSUME = ["TLC evaluates the reference codecs (Prims.tla, Bytes.tla limb arithmetic) correctly",
          "the driver converts limb arrays to Go ints with encoding/binary only",
          "values >= 2^63 are outside the domain of the int-typed constructors and are not demanded of Int()/IntSafe()"]


def check(run):
    # who owns the memory behind a result: the machine behind the kept-result chains, the "again" twins and the edited struct copies
    common.mc_fresh(run, controls=("pool",))
    inv = ["RoundTrip", "ReaderContract", "LimbLaws"]
    run.mc("MC_Prims", consts={"MaxW": 2, "FullAlpha": True}, invariants=inv, tag="MC_Prims_full2")
    run.mc("MC_Prims", consts={"MaxW": 4 if run.tier == "quick" else 5, "FullAlpha": False}, invariants=inv, tag="MC_Prims_alpha")
    run.gen("Gen_C12")
    run.replay_and_judge()
    return vlib.finish(run, "model_checking", RULE, ASSUME, exhaustive=False)

META = {
    "level": "model_checking",
    "technique": "TLA+ reference codec (Prims.tla) model-checked exhaustively by TLC on the append graph; TLC-generated vectors replayed into the Go primitives; recorded trace validated by TLC (Trace.tla); heap machine MC_Fresh (recycled-buffer negative control) behind the kept-result chains",
    "text": ("TLC exhausts the reference Integer/String/Date codec over all byte strings of width <= 2 (and a 15-symbol alphabet to width 4-5) "
             "proving it is an exact inverse pair, prefix-free and append-independent; the same operators then judge every recorded call of the "
             "real constructors/readers/accessors: widths 1-2 exhaustively, all size arguments -1..9, the 2^(8n) boundaries, every prefix of "
             "string inputs for every declared length, date constructors at second/millisecond/nanosecond-overflow boundaries. Wide values are "
             "exact limb arithmetic, so no oracle overflow. Bounded exhaustive + boundary-directed, not a proof over all 2^64 values."),
    "note": "Trusted: TLC's evaluation of Bytes.tla/Prims.tla; the driver's use of encoding/binary to turn limb arrays into Go ints; Go's time.Unix. Values >= 2^63 are not demanded of the int-typed API.",
}
