"""C18 — shared values may be read concurrently."""
import os
import vlib
from props import common

RULE = ("For 24 shared values (every structure type; parsed from TLC-computed encodings incl. NULL/KEY certificates, offline blocks, options) "
        "and N in {2,4,8} ({2,3,4,8} thorough) goroutines released together: every goroutine calls every read-only argument-free method of "
        "the value (Bytes/Data, Hash, Base32Address, Base64, Verify, Validate, IsValid, every accessor) in a rotated order 20 (200) times, "
        "interleaved with package-level size lookups, under the Go race detector. Judged per event: no race report, every concurrent result "
        "equal to the sequential result, the value's full observation and the four package-level tables unchanged, and (verif hook) "
        "len == cap for the certificate's kind/len slices. Non-trivial = a shared value on which the goroutines ran.")
RULE += (' Phase 0 parses the same bytes in n goroutines at once; a lock-step round (n fresh goroutines make the same call at the same moment, for every call, calls with arguments included) precedes the free-running phase; the queried value is compared field by field (reflect.DeepEqual, unexported fields included) with a fresh parse; really-verifying signed structures; distinct genuine/tampered values verified concurrently.')
ASSUME = [common.TRUSTED, "the Go race detector's happens-before analysis (a race need not manifest as a wrong result to be reported)",
          "read-only = argument-free methods not named Set*/Add*/With*/Build; IsExpired (clock) is excluded from result comparison"]
META = {
    "level": "exploration",
    "technique": "interleaving model of concurrent serialisers over a shared slice with/without spare capacity, model-checked by TLC (MC_Conc: readers-do-not-write action property, results equal sequential; spare-capacity negative control); TLC-generated op sets run on real goroutines under the Go race detector; race reports, result equality, mutation snapshots and the len==cap hook validated by TLC; shared values on which no method has run before they are shared (bare parser calls), incl. mappings returned through the documented recovery",
    "text": ("The deciding instruments are the race detector and result/snapshot equality, hence exploration. TLC explores every interleaving of "
             "the modelled Bytes()/accessor steps for 2-3 goroutines and shows the property holds exactly when the receiver-owned slice has no "
             "spare capacity; the hook binds that fact on the real values, so a change that gives the slice capacity, adds a cache or writes a "
             "package-level map is caught either by the detector, by the snapshots or by the hook predicate. Schedules are sampled, not enumerated."),
    "note": common.TRUSTED,
}


def check(run):
    t = run.tier == "thorough"
    ops = '@{"Bytes", "Type", "Hash"}'
    run.mc("MC_Conc", consts={"N": 3 if t else 2, "Cap": 1, "Ops": ops}, invariants=["SameAsSequential"], properties=["ReadersDoNotWrite"], tag="MC_Conc_tight")
    run.mc("MC_Conc", consts={"N": 2, "Cap": 4, "Ops": ops}, properties=["ReadersDoNotWrite"], tag="MC_Conc_spare", expect_violation="ReadersDoNotWrite", workers=1)
    run.gen("Gen_C18")
    run.race = True
    racedir = os.path.join(run.dir, "race")
    os.makedirs(racedir, exist_ok=True)
    run.env_extra = {"GORACE": "halt_on_error=0 exitcode=0 log_path=%s/race" % racedir, "VERIF_RACE_DIR": racedir}
    run.replay_and_judge(race=True, env_extra=run.env_extra, driver_workers=1)
    return vlib.finish(run, "exploration", RULE, ASSUME)
