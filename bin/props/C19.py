"""C19 — alternative entry points for the same structure agree."""
import vlib
from props import common

RULE = ("Twins ops: every group of equivalent entry points is run on private copies of the same TLC-computed input (accepted, rejected, with "
        "appended data): 3 keys-and-cert readers (the key-type-specific ones only within their stated types), 3 Destination and 3 "
        "RouterIdentity paths, NewKeyCertificate vs KeyCertificateFromCertificate(ReadCertificate), pointer vs value readers of Lease, Lease2, "
        "Date, Mapping, Signature (x3 constructors), SessionKey, SessionTag, ECIESSessionTag, Integer; NewKeyCertificateWithTypes vs "
        "CertificateBuilder.WithKeyTypes vs BuildKeyTypePayload; NewI2PString vs ToI2PString; NewIntegerFromInt vs EncodeIntN (C12 ops). "
        "Judged per pair: same accept/reject, identical serialisation, identical remainder. The certificate builder is in addition a state "
        "machine (Objects.tla): every sequence of WithType/WithKeyTypes/WithPayload/Validate/Build calls up to length 2 (3 thorough) over a "
        "15-call alphabet plus 60 (600) random histories is replayed call by call, and after every call the result of Build() must equal what "
        "the direct constructor NewCertificateWithType does on the (type, payload) the history determines.")
ASSUME = [common.TRUSTED, "fast-path readers are compared only on inputs whose key certificate declares their key types"]
META = {
    "level": "model_checking",
    "technique": "twin relation (TwinGroup/TwinApplies) in the TLA+ trace specification; TLC-checked state machine of the certificate builder (MC_Objects: contract vs implementation shape, 2 negative controls) with step-wise trace validation of replayed call histories; TLC-computed inputs replayed through every alternative entry point; pairwise agreement of (accept, serialisation, remainder) validated by TLC, each result also judged against the reference decoder; every certificate a builder handed out is kept and re-examined after every later call (KeptUnchanged in MC_Objects, scratch-sharing negative control); heap machine of results and the arrays behind them (MC_Fresh, template-sharing negative control) sampled by the again-twins of every constructor vector (call, overwrite everything reachable from the result, call again)",
    "text": ("Each twin is additionally judged on its own against the reference decoder, so two twins that regress together are still caught, and "
             "a fix or regression applied to one twin only shows as a disagreement. Covers the ~25 pairs named in the property over the C01 "
             "input space (all type pairs, certificate kinds, cut and appended inputs)."),
    "note": common.TRUSTED,
}


def check(run):
    # who owns the memory behind a result: the machine behind the kept-result chains, the "again" twins and the edited struct copies
    common.mc_fresh(run, controls=("template",))
    common.mc_structs(run, kinds=("cert", "identity"))
    common.gen_structs(run, fams1=("cert", "ident", "mapping"), fams2=("prims", "lease", "sig"))
    run.gen("Gen_Build", consts={"Fam": "keycert"}, tag="Gen_Build_keycert")
    run.gen("Gen_C19")
    # the certificate builder as a state machine: every call history (Objects.tla), with its own exhaustive model and negative controls
    from props import X04
    X04.mc_objects(run)
    run.gen("Gen_Objects")
    run.replay_and_judge()
    return vlib.finish(run, "model_checking", RULE, ASSUME)
