"""X05 (extension, not a listed property) — the structures C08's list leaves out do not share memory with the caller's buffer either."""
import vlib
from props import common

RULE = ("C08's overwrite histories (whole buffer, region by region, returned slices) for ReadMapping / NewMapping, ReadRouterAddress, ReadRouterInfo, a "
        "LeaseSet2 observed through its whole serialisation, and LeaseSet2 / MetaLeaseSet / RouterInfo with non-empty options that really verify "
        "(real keys, genuine signature; the outcome of Verify() is part of every observation). Trace.tla keeps the first observation of the "
        "session and compares every later one with it. Non-trivial = an observation after at least one overwrite was compared.")
ASSUME = [common.TRUSTED, "extension family: grows the specification beyond the listed properties; not registered in MANIFEST.json"]
META = None


def check(run):
    run.gen("Gen_C08", consts={"Part": "ext"}, tag="Gen_C08_ext")
    run.replay_and_judge()
    return vlib.finish(run, "model_checking", RULE, ASSUME)
