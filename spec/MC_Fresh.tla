------------------------------ MODULE MC_Fresh ------------------------------
(***************************************************************************)
(* Who owns the memory behind a result.  The machine behind the "again"    *)
(* twins of Build events, the kept-result chains and the edited struct     *)
(* copies of WarmEdit: a heap of byte arrays, library calls that hand out  *)
(* results referring to arrays, and a caller that keeps results, writes    *)
(* into what it was given, copies a parsed value (a struct copy shares the *)
(* arrays of the original), edits the copy and serialises it.              *)
(*                                                                         *)
(* Variant "fresh"     every result is an array of its own                 *)
(*         "template"  a constructor builds its result once and hands out  *)
(*                     struct copies of it, which share its arrays         *)
(*         "pool"      a serialiser writes into a recycled buffer and      *)
(*                     hands that buffer out                               *)
(*         "onto-field" a serialiser appends onto a field of the value it  *)
(*                     serialises; for a parsed value that field is a      *)
(*                     sub-slice of the caller's input buffer with spare   *)
(*                     capacity behind it                                  *)
(* "fresh" satisfies every invariant; each of the others is a negative     *)
(* control that TLC must refute (ResultRight / KeptStable / InputStable).   *)
(***************************************************************************)
EXTENDS Integers, Sequences, FiniteSets, TLC
CONSTANTS Variant, MaxResults

Contents == {1, 2}            \* two argument tuples / two values: what the result must read as
Junk == 9                     \* what the caller writes
VARIABLES heap,     \* array id -> content
          results,  \* what the caller holds: [arr, want, got, mine]  (mine: the caller wrote into it itself)
          tmpl,     \* content -> array id of the template (0: not built yet)
          pool,     \* array id of the recycled buffer (0: empty)
          input,    \* [arr, want]: the caller's input buffer a value was parsed from (its fields are views of it)
          nextId
vars == << heap, results, tmpl, pool, input, nextId >>

Init == /\ heap = [a \in {1} |-> 1] /\ input = [arr |-> 1, want |-> 1]      \* the input buffer holds encoding 1
        /\ results = << >> /\ tmpl = [c \in Contents |-> 0] /\ pool = 0 /\ nextId = 2

Give(arr, c, h) == results' = Append(results, [arr |-> arr, want |-> c, got |-> h[arr], mine |-> FALSE])
New(c) == heap' = (nextId :> c) @@ heap

\* a constructor called with argument tuple c
Construct(c) ==
  /\ Len(results) < MaxResults
  /\ IF Variant = "template"
     THEN IF tmpl[c] = 0
          THEN New(c) /\ tmpl' = [tmpl EXCEPT ![c] = nextId] /\ nextId' = nextId + 1 /\ Give(nextId, c, heap')
          ELSE UNCHANGED << heap, tmpl, nextId >> /\ Give(tmpl[c], c, heap)
     ELSE New(c) /\ nextId' = nextId + 1 /\ Give(nextId, c, heap') /\ UNCHANGED tmpl
  /\ UNCHANGED << pool, input >>

\* a value with content c is serialised
Serialise(c) ==
  /\ Len(results) < MaxResults
  /\ CASE Variant = "pool" ->
            IF pool = 0 THEN New(c) /\ pool' = nextId /\ nextId' = nextId + 1 /\ Give(nextId, c, heap') /\ UNCHANGED input
            ELSE heap' = [heap EXCEPT ![pool] = c] /\ Give(pool, c, heap') /\ UNCHANGED << pool, nextId, input >>
       [] Variant = "onto-field" ->
            \* the value is (a struct copy of) the parsed one: its first field is input[:1], capacity to the end of the input buffer
            heap' = [heap EXCEPT ![input.arr] = c] /\ Give(input.arr, c, heap') /\ UNCHANGED << pool, nextId, input >>
       [] OTHER -> New(c) /\ nextId' = nextId + 1 /\ Give(nextId, c, heap') /\ UNCHANGED << pool, input >>
  /\ UNCHANGED tmpl

\* the caller writes into a result it holds (it is the caller's)
Scribble(i) ==
  /\ ~results[i].mine
  /\ heap' = [heap EXCEPT ![results[i].arr] = Junk]
  /\ results' = [j \in 1..Len(results) |-> IF results[j].arr = results[i].arr /\ j = i THEN [results[j] EXCEPT !.mine = TRUE] ELSE results[j]]
  /\ UNCHANGED << tmpl, pool, input, nextId >>

Next == (\E c \in Contents : Construct(c) \/ Serialise(c)) \/ (\E i \in 1..Len(results) : Scribble(i))

\* a result reads as it should at the moment it is handed out
ResultRight == \A i \in 1..Len(results) : results[i].got = results[i].want
\* a result the caller has not written into itself keeps reading as it did
KeptStable == \A i \in 1..Len(results) : ~results[i].mine => heap[results[i].arr] = results[i].want
\* the caller's input buffer (and with it every view of it the parsed value holds) is written by nobody: not by the library, and not by
\* the caller through a result either, because no result IS the input buffer
InputStable == heap[input.arr] = input.want
=============================================================================
