------------------------------ MODULE Gen_C05 ------------------------------
(***************************************************************************)
(* Signed structures with key/signature slots (filled with real keys by    *)
(* the driver) followed by one adversary step each: bit flips across the   *)
(* covered region and the signature, signature replacement, identity key   *)
(* substitution, forged and transplanted offline blocks, edit-and-re-sign. *)
(***************************************************************************)
EXTENDS Enc, J_C05, GenUtil, Json
CONSTANTS Tier, Seed, OutFile
Thorough == Tier = "thorough"
T4 == << 101, 36, 248, 0 >>
Opts == << << << 97 >>, << 98 >> >>, << << 99, 97, 112, 115 >>, << 102, 82 >> >> >>
Id(st, ct) == IF st = 0 THEN EncIdentity("null", 0, 0, 3) ELSE EncIdentity("key", st, ct, st + ct + 1)
Addr == EncRouterAddress(5, Zeros(8), << 78, 84, 67, 80, 50 >>, << << << 104, 111, 115, 116 >>, << 49, 46, 50, 46, 51, 46, 52 >> >> >>)
OffB(has, tst, dst) == IF has THEN EncOffline(T4, tst, dst, 4) ELSE << >>

\* skeletons: <<fn, base bytes, st, typ>>
LS2(st, ct, off, tst) == EncLS2(Id(st, ct), T4, << 2, 88 >>, IF off THEN 1 ELSE 0, OffB(off, tst, st), Opts, 1, << EncEncKey(4, 32, Fill(32, 1)) >>, 2,
                                << EncLease2(1, T4, T4), EncLease2(2, T4, T4) >>, IF off THEN tst ELSE st, 5)
Meta(st, ct, off, tst) == EncMeta(Id(st, ct), T4, << 2, 88 >>, IF off THEN 1 ELSE 0, OffB(off, tst, st), Opts, 1, << EncMetaEntry(1, 3, T4, 1, << >>) >>, IF off THEN tst ELSE st, 5)
ELS(st, off, tst) == EncELS(st, T4, << 2, 88 >>, IF off THEN 1 ELSE 0, OffB(off, tst, st), 100, Fill(100, 2), IF off THEN tst ELSE st, 5)
LS(st, ct) == EncLeaseSet(Id(st, ct), st, 2, << EncLease(1, T4, Zeros(8)), EncLease(2, T4, Zeros(8)) >>, 5)
RI(st, ct) == EncRouterInfo(Id(st, ct), st, Zeros(8), << Addr >>, 0, Opts, 5)

Slots(fn, base, typ) == SlotsOf(fn, base, typ)
\* positions to flip: spread over the covered region and the signature (every byte in the thorough tier)
FlipPositions(sl, structural) ==
  LET total == sl.sigoff + sl.siglen
      step == IF Thorough THEN 1 ELSE Max(total \div 28, 1) IN
  [k \in 1..((total + step - 1) \div step) |-> (k - 1) * step] \o << sl.idoff, sl.idoff + sl.idlen - 1, sl.sigoff - 1, sl.sigoff, total - 1 >>
  \o (IF sl.off THEN << sl.keyoff, sl.keyoff + sl.keylen - 1, sl.osigoff, sl.osigoff + sl.osiglen - 1, sl.from, sl.from + 4 >> ELSE << >>)
  \o structural
Probe(fn, base, st, typ, adv, stream) ==
  LET sl == Slots(fn, base, typ) IN
  [op |-> "SignedProbe", fn |-> fn, base |-> base, st |-> st, typ |-> typ, prefix |-> StoreTypePrefix(fn),
   idkey |-> [off |-> sl.idoff, len |-> sl.idlen], sig |-> [off |-> sl.sigoff, len |-> sl.siglen], adv |-> adv, stream |-> stream]
  @@ (IF sl.off THEN [offline |-> [keyoff |-> sl.keyoff, keylen |-> sl.keylen, tst |-> (IF fn = "ReadEncryptedLeaseSet" THEN RefEncryptedLeaseSet(base).tst
                                                                                        ELSE IF fn = "ReadLeaseSet2" THEN RefLeaseSet2(base).h.tst ELSE RefMetaLeaseSet(base).h.tst),
                                   sigoff |-> sl.osigoff, siglen |-> sl.osiglen, from |-> sl.from, to |-> sl.to]] ELSE << >>)
Steps(sl, structural, swaps, ins) ==
  SeqMap(LAMBDA w : [kind |-> "swap", off |-> w.off, la |-> w.la, lb |-> w.lb], swaps) \o ins \o
  (IF sl.off THEN SeqMap(LAMBDA k : [kind |-> "transient_resign_after_offline_edit", k |-> k, mask |-> (IF k = 0 THEN 64 ELSE 1)], << 0, 1, 2, 3 >>) ELSE << >>) \o
  << [kind |-> "none"], [kind |-> "edit_value_after_verify"], [kind |-> "replace_sig"], [kind |-> "swap_idkey"], [kind |-> "resign_after_edit", off |-> sl.sigoff - 3] >>
  \o (IF sl.off THEN << [kind |-> "forge_offline"], [kind |-> "transplant_offline"], [kind |-> "wrong_scheme"] >> ELSE << >>)
  \o SeqMap(LAMBDA p : [kind |-> "flip", off |-> p, mask |-> 1], FlipPositions(sl, structural))
  \o SeqMap(LAMBDA p : [kind |-> "flip", off |-> p, mask |-> 128], SubSeq(FlipPositions(sl, structural), 1, 6) \o structural)
Session(fn, base, st, typ, salt) ==
  LET sl == Slots(fn, base, typ)  steps == Steps(sl, StructuralOffsets(fn, base, typ), PairSwaps(fn, base, typ), Insertions(fn, base, typ) \o RevocationForgery(fn, base, st)) IN
  [ops |-> [k \in 1..Len(steps) |-> Probe(fn, base, st, typ, steps[k], salt * 1000 + k)]]

SigTs == << 7, 11 >>
Shapes ==
  \* LeaseSet2 / MetaLeaseSet: Ed25519 and RedDSA destinations, DSA and P-256 destinations, with every verifiable transient type
  Concat(SeqMap(LAMBDA st : << << "ReadLeaseSet2", LS2(st, 4, FALSE, 7), st, 0 >>, << "ReadMetaLeaseSet", Meta(st, 4, FALSE, 7), st, 0 >> >>, << 7, 11 >>))
  \o << << "ReadLeaseSet2", LS2(0, 0, FALSE, 7), 0, 0 >>, << "ReadLeaseSet2", LS2(1, 0, FALSE, 7), 1, 0 >>, << "ReadLeaseSet2", LS2(2, 0, FALSE, 7), 2, 0 >> >>
  \o Concat(Cross2(<< 7, 11 >>, << 7, 11, 1 >>, LAMBDA st, tst : << << "ReadLeaseSet2", LS2(st, 4, TRUE, tst), st, 0 >>, << "ReadMetaLeaseSet", Meta(st, 4, TRUE, tst), st, 0 >> >>))
  \o << << "ReadLeaseSet2", LS2(0, 0, TRUE, 7), 0, 0 >>, << "ReadLeaseSet2", LS2(1, 0, TRUE, 7), 1, 0 >>, << "ReadLeaseSet2", LS2(2, 0, TRUE, 7), 2, 0 >> >>
  \* the same for MetaLeaseSet: identities whose offline block the library cannot verify itself must not be waved through
  \o << << "ReadMetaLeaseSet", Meta(0, 0, TRUE, 7), 0, 0 >>, << "ReadMetaLeaseSet", Meta(1, 0, TRUE, 7), 1, 0 >>, << "ReadMetaLeaseSet", Meta(2, 0, TRUE, 11), 2, 0 >>,
        << "ReadMetaLeaseSet", Meta(0, 0, FALSE, 7), 0, 0 >>, << "ReadMetaLeaseSet", Meta(1, 0, FALSE, 7), 1, 0 >> >>
  \* Ed25519ph (type 8) transient keys: offline-only type
  \o << << "ReadLeaseSet2", LS2(7, 4, TRUE, 8), 7, 0 >>, << "ReadMetaLeaseSet", Meta(7, 4, TRUE, 8), 7, 0 >>, << "ReadEncryptedLeaseSet", ELS(11, TRUE, 8), 11, 0 >> >>
  \o Concat(SeqMap(LAMBDA st : << << "ReadEncryptedLeaseSet", ELS(st, FALSE, 7), st, 0 >>, << "ReadEncryptedLeaseSet", ELS(st, TRUE, 7), st, 0 >>, << "ReadEncryptedLeaseSet", ELS(st, TRUE, 11), st, 0 >> >>, << 11, 7 >>))
  \o SeqMap(LAMBDA p : << "ReadLeaseSet", LS(p[1], p[2]), p[1], 0 >>, << << 0, 0 >>, << 1, 0 >>, << 2, 0 >>, << 7, 0 >>, << 7, 4 >> >>)
  \o << << "ReadRouterInfo", RI(7, 4), 7, 0 >>, << "ReadRouterInfo", RI(7, 0), 7, 0 >> >>
  \o Cross2(<< 7, 11 >>, << 7, 11, 1, 0 >>, LAMBDA dst, tst : << "ReadOfflineSignature", EncOffline(T4, tst, dst, 4), dst, dst >>)
\* the same skeletons, genuine and with one covered bit flipped, verified as DISTINCT values by several goroutines at the same time
DistinctVecs ==
  Concat([k \in 1..Len(Shapes) |->
     LET sh == Shapes[k]  p == Probe(sh[1], sh[2], sh[3], sh[4], [kind |-> "none"], 5000 + k) IN
     SeqMap(LAMBDA off : [ops |-> << [p EXCEPT !.op = "ConcurrentVerify"] @@ [n |-> 8, reps |-> (IF Thorough THEN 20000 ELSE 1000), flipoff |-> off, cls |-> "flip"] >>],
            ContentOffsets(sh[1], sh[2], sh[4]))])
Vecs == [k \in 1..Len(Shapes) |-> Session(Shapes[k][1], Shapes[k][2], Shapes[k][3], Shapes[k][4], k)] \o DistinctVecs
VARIABLE done
Init == done = FALSE
Next == ~done /\ ndJsonSerialize(OutFile, Vecs) /\ PrintT(<< "GENERATED", Len(Vecs) >>) /\ done' = TRUE
=============================================================================
