------------------------------ MODULE Gen_C04 ------------------------------
(***************************************************************************)
(* Structure-aware mutation: for well-formed encodings of every structure  *)
(* (several shapes each) every byte offset is set to each boundary value   *)
(* and every offset to each 2-byte boundary value, every cut point is      *)
(* tried; accepted mutants have all their methods called.  Plus seeded     *)
(* random bytes (pure and grafted on prefixes), and every 16-bit code for  *)
(* every function that takes a type or size.                               *)
(***************************************************************************)
EXTENDS Enc, Ref, GenUtil, TLC, Json
CONSTANTS Tier, Seed, OutFile
Thorough == Tier = "thorough"
V1 == IF Thorough THEN << 0, 1, 2, 3, 4, 5, 7, 8, 11, 16, 17, 59, 61, 127, 128, 254, 255 >> ELSE << 0, 1, 2, 3, 4, 5, 17, 128, 255 >>
V2 == IF Thorough THEN << 0, 1, 255, 256, 32767, 32768, 65534, 65535 >> ELSE << 0, 256, 65535 >>
BS(fn, w, extra, cls) == [op |-> "ByteSweep", fn |-> fn, in |-> w, values |-> V1, values2 |-> V2, step |-> 1, cls |-> cls] @@ extra
RS(fn, w, extra, cls, k) == [op |-> "RandomSweep", fn |-> fn, in |-> w, count |-> (IF Thorough THEN 4000 ELSE 400), maxlen |-> (IF k % 2 = 0 THEN 64 ELSE 5000), stream |-> k, cls |-> cls] @@ extra
T4 == << 101, 36, 248, 0 >>
Opts == << << << 97 >>, << 98 >> >>, << << 99, 97, 112, 115 >>, << 102, 82 >> >> >>
Id(kind, st, ct) == EncIdentity(kind, st, ct, st + ct + 1)
Addr == EncRouterAddress(5, Zeros(8), << 78, 84, 67, 80, 50 >>, << << << 104, 111, 115, 116 >>, << 49, 46, 50, 46, 51, 46, 52 >> >>, << << 112, 111, 114, 116 >>, << 56, 48 >> >> >>)
Off(dst) == EncOffline(T4, 7, dst, 2)
Shapes(p) ==
  << << "ReadKeysAndCert", Id("key", p[1], p[2]), << >> >>, << "ReadDestination", Id("keyx", p[1], p[2]), << >> >>, << "ReadRouterIdentity", Id("key", p[1], p[2]), << >> >>,
     << "ReadRouterInfo", EncRouterInfo(Id("key", p[1], p[2]), p[1], Zeros(8), << Addr, Addr >>, 0, Opts, 3), << >> >>,
     << "ReadLeaseSet", EncLeaseSet(Id("key", p[1], p[2]), p[1], 2, << EncLease(1, T4, Zeros(8)), EncLease(2, T4, Zeros(8)) >>, 3), << >> >>,
     << "ReadLeaseSet2", EncLS2(Id("key", p[1], p[2]), T4, << 2, 88 >>, 1, Off(p[1]), Opts, 2, << EncEncKey(4, 32, Fill(32, 1)), EncEncKey(0, 256, Fill(256, 2)) >>, 2,
                               << EncLease2(1, T4, T4), EncLease2(2, T4, T4) >>, 7, 3), << >> >>,
     << "ReadLeaseSet2", EncLS2(Id("key", p[1], p[2]), T4, << 2, 88 >>, 0, << >>, << >>, 1, << EncEncKey(4, 32, Fill(32, 1)) >>, 16, [i \in 1..16 |-> EncLease2(i, T4, T4)], p[1], 3), << >> >>,
     << "ReadMetaLeaseSet", EncMeta(Id("key", p[1], p[2]), T4, << 2, 88 >>, 1, Off(p[1]), Opts, 2, << EncMetaEntry(1, 3, T4, 1, Opts), EncMetaEntry(2, 5, T4, 2, << >>) >>, 7, 3), << >> >> >>
FixedShapes ==
  << << "ReadCertificate", << 5, 0, 6, 0, 7, 0, 4, 9, 9 >>, << >> >>, << "NewKeyCertificate", << 5, 0, 4, 0, 7, 0, 4 >>, << >> >>, << "KeyCertificateFromCertificate", << 5, 0, 4, 0, 7, 0, 4 >>, << >> >>,
     << "ReadKeysAndCertElgAndEd25519", Id("key", 7, 0), << >> >>, << "ReadKeysAndCertX25519AndEd25519", Id("key", 7, 4), << >> >>, << "ReadKeysAndCert", Id("null", 0, 0), << >> >>,
     << "NewDestinationFromBytes", Id("key", 7, 4), << >> >>, << "NewRouterIdentityFromBytes", Id("key", 7, 4), << >> >>, << "ReadDestinationFromLeaseSet", Id("key", 7, 4) \o Fill(20, 1), << >> >>,
     << "ReadRouterAddress", Addr, << >> >>,
     \* addresses without a usable host: the IP version falls back to the caps option (empty, bare family digit, letters + digit, no digit)
     << "ReadRouterAddress", EncRouterAddress(5, Zeros(8), << 83, 83, 85, 50 >>, << << << 99, 97, 112, 115 >>, << >> >> >>), << >> >>,
     << "ReadRouterAddress", EncRouterAddress(5, Zeros(8), << 83, 83, 85, 50 >>, << << << 99, 97, 112, 115 >>, << 54 >> >> >>), << >> >>,
     << "ReadRouterAddress", EncRouterAddress(5, Zeros(8), << 83, 83, 85, 50 >>, << << << 99, 97, 112, 115 >>, << 66, 67, 52 >> >>, << << 104, 111, 115, 116 >>, << 120, 46, 105, 50, 112 >> >> >>), << >> >>,
     << "ReadRouterAddress", EncRouterAddress(5, Zeros(8), << 83, 83, 85 >>, << << << 99, 97, 112, 115 >>, << 66 >> >>, << << 104, 111, 115, 116 >>, << >> >>,
                                                                           << << 105, 104, 48 >>, Fill(32, 1) >>, << << 105, 104, 49 >>, << >> >>, << << 105, 116, 97, 103, 50 >>, << >> >> >>), << >> >>, << "ReadMapping", SerMapping(Opts), << >> >>, << "NewMapping", SerMapping(Opts), << >> >>,
     << "ReadOfflineSignature", Off(7), [typ |-> 7] >>, << "ReadOfflineSignature", EncOffline(T4, 1, 0, 2), [typ |-> 0] >>,
     << "ReadSignature", Fill(64, 1), [typ |-> 7] >>, << "NewSignature", Fill(40, 1), [typ |-> 0] >>, << "NewSignatureFromBytes", Fill(64, 1), [typ |-> 11] >>,
     << "ReadEncryptedLeaseSet", EncELS(11, T4, << 2, 88 >>, 1, Off(11), 100, Fill(100, 2), 7, 3), << >> >>, << "ReadEncryptedLeaseSet", EncELS(7, T4, << 2, 88 >>, 0, << >>, 61, Fill(61, 2), 7, 3), << >> >>,
     << "ReadLease", Fill(44, 1), << >> >>, << "NewLeaseFromBytes", Fill(44, 1), << >> >>, << "ReadLease2", Fill(40, 1), << >> >>, << "NewLease2FromBytes", Fill(40, 1), << >> >>,
     << "ReadI2PString", << 5, 1, 2, 3, 4, 5 >>, << >> >>, << "ReadDate", Fill(8, 1), << >> >>, << "NewDate", Fill(8, 1), << >> >>, << "ReadHash", Fill(32, 1), << >> >>, << "NewHashFromSlice", Fill(32, 1), << >> >>,
     << "ReadInteger", Fill(8, 1), [size |-> 4] >>, << "NewInteger", Fill(8, 1), [size |-> 8] >>,
     << "ReadSessionKey", Fill(32, 1), << >> >>, << "NewSessionKey", Fill(32, 1), << >> >>, << "ReadSessionTag", Fill(32, 1), << >> >>, << "NewSessionTag", Fill(32, 1), << >> >>,
     << "NewSessionTagFromBytes", Fill(32, 1), << >> >>, << "ReadECIESSessionTag", Fill(8, 1), << >> >>, << "NewECIESSessionTag", Fill(8, 1), << >> >>, << "NewECIESSessionTagFromBytes", Fill(8, 1), << >> >> >>
DestPairs == IF Thorough THEN << << 7, 4 >>, << 0, 0 >>, << 1, 0 >>, << 2, 4 >>, << 11, 4 >> >> ELSE << << 7, 4 >>, << 0, 0 >> >>
All == Concat(SeqMap(Shapes, DestPairs)) \o FixedShapes
ByteVecs == [i \in 1..Len(All) |-> BS(All[i][1], All[i][2], All[i][3], "bytes")]
RandVecs == [i \in 1..Len(All) |-> RS(All[i][1], All[i][2], All[i][3], "random", i)]
CodeFns == << "signature.SignatureSize", "signature.ReadSignature", "signature.NewSignature", "signature.NewSignatureFromBytes", "key_certificate.GetKeySizes(sig)",
              "key_certificate.GetKeySizes(crypto)", "key_certificate.GetSigningKeySize", "key_certificate.GetCryptoKeySize", "key_certificate.GetSignatureSize",
              "key_certificate.ConstructSigningPublicKeyByType", "key_certificate.NewKeyCertificateWithTypes(sig)", "key_certificate.NewKeyCertificateWithTypes(crypto)",
              "offline_signature.SigningPublicKeySize", "offline_signature.SignatureSize", "offline_signature.ReadOfflineSignature",
              "offline_signature.NewOfflineSignature(tst)", "offline_signature.NewOfflineSignature(dst)", "certificate.BuildKeyTypePayload", "certificate.WithKeyTypes",
              "certificate.NewCertificateWithType" >>
CodeVecs ==
  Cross2(CodeFns, << 0, 32, 64, 600 >>, LAMBDA fn, n : [op |-> "CodeSweep", fn |-> fn, from |-> -2, to |-> 65537, in |-> Fill(n, n), cls |-> "codes/len" \o ToString(n)])
  \o Cross2(<< "data.ReadInteger", "data.NewInteger", "data.NewIntegerFromInt", "data.EncodeIntN" >>, << 0, 1, 7, 8, 9 >>, LAMBDA fn, n :
       [op |-> "CodeSweep", fn |-> fn, from |-> -5, to |-> 300, in |-> Rep(n, 255), cls |-> "sizes"])
  \o Cross2(<< "base32.DecodeString(byte)", "base32.DecodeStringNoPadding(byte)", "base64.DecodeString(byte)" >>, << << >>, << 97 >>, << 97, 97, 97 >>, << 97, 97, 97, 97, 97, 97, 97 >>, << 97, 61 >> >>,
       LAMBDA fn, s : [op |-> "CodeSweep", fn |-> fn, from |-> 0, to |-> 255, in |-> s, cls |-> "bytevalues"])
\* every exported package-level function of the tree (registry generated from source at build time), per package; structured
\* arguments come from a pool of values the library returned for these encodings
ApiPkgs == << "base32.", "base64.", "certificate.", "data.", "destination.", "encrypted_leaseset.", "fuzz/", "key_certificate.", "keys_and_cert.", "lease.",
             "lease_set.", "lease_set2.", "meta_leaseset.", "offline_signature.", "router_address.", "router_identity.", "router_info.", "session_key.",
             "session_tag.", "signature." >>
ApiSeeds == [i \in 1..Len(All) |-> [fn |-> All[i][1], in |-> All[i][2]] @@ All[i][3]]
ApiCombos == IF Thorough THEN 1500 ELSE 48
ApiVecs == SeqMap(LAMBDA p : [op |-> "ApiSweep", fn |-> "api", only |-> p, seeds |-> ApiSeeds, combos |-> ApiCombos, cls |-> p], ApiPkgs)
           \o << [op |-> "ApiSweep", fn |-> "api", only |-> "", seeds |-> << >>, combos |-> ApiCombos, cls |-> "all/emptypool"] >>
\* families of RELATED accepted values (one member's list is a prefix / a suffix / a one-element variant of another's): every method that
\* takes another value of the type is called for every ordered pair of members (comparisons that walk two lists in step)
P1 == << << 97 >>, << 98 >> >>  P2 == << << 99, 97, 112, 115 >>, << 102, 82 >> >>  P3 == << << 104, 111, 115, 116 >>, << 49, 46, 50, 46, 51, 46, 52 >> >>
P3x == << << 104, 111, 115, 116 >>, << 49, 46, 50, 46, 51, 46, 53 >> >>
PairFamilies == << << >>, << P1 >>, << P1, P2 >>, << P1, P2, P3 >>, << P1, P2, P3x >>, << P2, P3 >>, << P3 >>, << P1, P3 >> >>
AddrOf(ps) == EncRouterAddress(5, Zeros(8), << 83, 83, 85, 50 >>, ps)
CS(fn, items, extra, cls) == [op |-> "CrossSweep", fn |-> fn, items |-> items, cls |-> cls] @@ extra
Id74 == Id("key", 7, 4)
CrossVecs ==
  << CS("ReadRouterAddress", SeqMap(AddrOf, PairFamilies) \o << EncRouterAddress(6, Zeros(8), << 83, 83, 85, 50 >>, << P1 >>), EncRouterAddress(5, Zeros(8), << 83, 83, 85 >>, << P1 >>),
                                                                EncRouterAddress(5, Zeros(8), << 83, 83, 85, 50, 51 >>, << P1, P2 >>) >>, << >>, "family/options"),
     CS("ReadMapping", SeqMap(SerMapping, PairFamilies), << >>, "family/pairs"),
     CS("ReadRouterInfo", SeqMap(LAMBDA as : EncRouterInfo(Id74, 7, Zeros(8), as, 0, Opts, 3),
                                 << << AddrOf(<< P1 >>) >>, << AddrOf(<< P1 >>), AddrOf(<< P1, P2 >>) >>, << AddrOf(<< P1 >>), AddrOf(<< P1, P2 >>), AddrOf(<< P3 >>) >>, << AddrOf(<< P1, P2 >>) >>, << AddrOf(<< P1, P2 >>), AddrOf(<< P1 >>) >> >>)
                          \o SeqMap(LAMBDA ps : EncRouterInfo(Id74, 7, Zeros(8), << AddrOf(<< P1 >>) >>, 0, ps, 3), PairFamilies), << >>, "family/addresses-and-options"),
     CS("ReadLeaseSet2", SeqMap(LAMBDA n : EncLS2(Id74, T4, << 2, 88 >>, 0, << >>, << >>, 1, << EncEncKey(4, 32, Fill(32, 1)) >>, n, [i \in 1..n |-> EncLease2(i, T4, T4)], 7, 3), << 0, 1, 2, 3 >>)
                         \o SeqMap(LAMBDA k : EncLS2(Id74, T4, << 2, 88 >>, 0, << >>, << >>, k, [i \in 1..k |-> EncEncKey(4, 32, Fill(32, i))], 1, << EncLease2(1, T4, T4) >>, 7, 3), << 1, 2, 3 >>)
                         \o SeqMap(LAMBDA ps : EncLS2(Id74, T4, << 2, 88 >>, 0, << >>, ps, 1, << EncEncKey(4, 32, Fill(32, 1)) >>, 1, << EncLease2(1, T4, T4) >>, 7, 3), PairFamilies), << >>, "family/leases-keys-options"),
     CS("ReadLeaseSet", SeqMap(LAMBDA n : EncLeaseSet(Id74, 7, n, [i \in 1..n |-> EncLease(i, T4, Zeros(8))], 3), << 0, 1, 2, 3 >>), << >>, "family/leases"),
     CS("ReadMetaLeaseSet", SeqMap(LAMBDA n : EncMeta(Id74, T4, << 2, 88 >>, 0, << >>, Opts, n, [i \in 1..n |-> EncMetaEntry(i, 3, T4, 1, << >>)], 7, 3), << 0, 1, 2, 3 >>), << >>, "family/entries"),
     CS("ReadCertificate", << << 0, 0, 0 >>, << 1, 0, 0 >>, << 1, 0, 1, 9 >>, << 1, 0, 2, 9, 8 >>, << 1, 0, 3, 9, 8, 7 >>, << 5, 0, 4, 0, 7, 0, 4 >>, << 5, 0, 6, 0, 7, 0, 4, 9, 9 >> >>, << >>, "family/payloads"),
     CS("ReadKeysAndCert", << Id("key", 7, 4), Id("keyx", 7, 4), Id("key", 7, 0), Id("null", 0, 0), Id("key", 11, 4), Id("key", 0, 4) >>, << >>, "family/identities"),
     CS("ReadDestination", << Id("key", 7, 4), Id("keyx", 7, 4), Id("key", 7, 0), Id("null", 0, 0), Id("key", 11, 4) >>, << >>, "family/identities") >>
CONSTANT Part       \* "all" | "api" (the extension check X03 replays only the API sweep)
Vecs == IF Part = "api" THEN ApiVecs ELSE ByteVecs \o RandVecs \o CodeVecs \o CrossVecs \o ApiVecs
VARIABLE done
Init == done = FALSE
Next == ~done /\ ndJsonSerialize(OutFile, Vecs) /\ PrintT(<< "GENERATED", Len(Vecs) >>) /\ done' = TRUE
=============================================================================
