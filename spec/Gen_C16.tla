------------------------------ MODULE Gen_C16 ------------------------------
(* LeaseSet2 shapes x recipient key forms x ciphertext modifications; destinations x secrets x instants either side of UTC midnight in several zones. *)
EXTENDS Enc, Ref, Civil, GenUtil, TLC, Json
CONSTANTS Tier, Seed, OutFile
Thorough == Tier = "thorough"
T4 == << 101, 36, 248, 0 >>
Opts == << << << 97 >>, << 98 >> >> >>
Id(st, ct) == IF st = 0 THEN EncIdentity("null", 0, 0, 3) ELSE EncIdentity("key", st, ct, st + ct + 1)
LS2(st, ct, opts, nk, nl, off) ==
  EncLS2(Id(st, ct), T4, << 2, 88 >>, IF off THEN 1 ELSE 0, IF off THEN EncOffline(T4, 7, st, 4) ELSE << >>, opts, nk,
         [i \in 1..nk |-> EncEncKey(4, 32, Fill(32, i))], nl, [i \in 1..nl |-> EncLease2(i, T4, T4)], IF off THEN 7 ELSE st, 5)
Shapes == << LS2(7, 4, << >>, 1, 1, FALSE), LS2(7, 4, Opts, 2, 3, TRUE), LS2(0, 0, Opts, 1, 0, FALSE), LS2(11, 4, << >>, 1, 16, FALSE), LS2(1, 0, Opts, 16, 2, FALSE), LS2(2, 4, << >>, 1, 1, FALSE) >>
Positions(n) ==
  LET total == 60 + n
      step == IF Thorough THEN 1 ELSE Max(total \div 40, 1) IN
  [k \in 1..((total + step - 1) \div step) |-> (k - 1) * step] \o << 0, 30, 31, 32, 43, 44, 45, total - 17, total - 16, total - 1 >>
EncVecs ==
  Cross2(Shapes, << 0, 1, 2 >>, LAMBDA w, kf :
     [op |-> "EncDec", fn |-> "EncryptInnerLeaseSet2", in |-> w, keyform |-> kf, positions |-> Positions(Len(w)), masks |-> << 1, 85 >>,
      cuts |-> << 61, 32 + 12 + 16, Len(w) \div 2, Len(w) + 59 >>, stream |-> kf + Len(w)])
\* instants (seconds < 2^31): either side of several UTC midnights, noon, year/month/leap boundaries
\* (... and before 1970: negative second counts, where truncating division and flooring division part ways)
Midnights == << 1700006400, 1709164800, 1709251200, 1735689600, 951782400, 0 + 86400, 2145916800, 0, -86400, -14256000, -2145916800 >>
Instants == Concat(SeqMap(LAMBDA m : << m - 1, m, m + 1, m + 43200, m + 86399 >>, Midnights))
Zones == << 0, -43200, -18000, 3600, 19800, 50400 >>
Inst(sec, tz) == [sec |-> sec, tzsec |-> tz, day |-> DayString(sec), otherday |-> DayString(sec + 86400)]
InstSets == [k \in 1..Len(Midnights) |-> Concat(SeqMap(LAMBDA z : SeqMap(LAMBDA s : Inst(s, z), SubSeq(Instants, 5 * (k - 1) + 1, 5 * k)), IF Thorough THEN Zones ELSE << 0, -43200, 50400 >>))]
Secrets == << Fill(32, 1), Fill(33, 2), Fill(64, 3), Fill(31, 4), Fill(16, 5), << >> >>
Dests == << << 7, 4 >>, << 7, 0 >>, << 11, 4 >> >>
BlindVecs ==
  Cross3(Dests, Secrets, Range(1, Len(Midnights)), LAMBDA p, sec, k :
     LET w == EncIdentity(IF k % 2 = 0 THEN "key" ELSE "keyx", p[1], p[2], k) IN
     [op |-> "Blind", fn |-> "CreateBlindedDestination", in |-> w, st |-> p[1], idkey |-> [off |-> BlockLen - SigPubLen(p[1]), len |-> SigPubLen(p[1])],
      secret |-> sec, instants |-> InstSets[k], stream |-> k + Len(sec)])
\* the same with the PROCESS's local time zone set away from UTC (the blinded key must depend on the UTC day only)
BlindLocalVecs ==
  Cross3(<< << 7, 4 >>, << 11, 4 >> >>, << -28800, 19800, 50400 >>, Range(1, Len(Midnights)), LAMBDA p, lo, k :
     [op |-> "Blind", fn |-> "CreateBlindedDestination", in |-> EncIdentity("key", p[1], p[2], k), st |-> p[1], idkey |-> [off |-> BlockLen - SigPubLen(p[1]), len |-> SigPubLen(p[1])],
      secret |-> Secrets[1], instants |-> InstSets[k], stream |-> k + 77, localoffset |-> lo])
CONSTANT Part      \* "all" | "encdec" (C01 and C06 replay the encrypt / decrypt histories only)
Vecs == IF Part = "encdec" THEN EncVecs ELSE EncVecs \o BlindVecs \o BlindLocalVecs
VARIABLE done
Init == done = FALSE
Next == ~done /\ ndJsonSerialize(OutFile, Vecs) /\ PrintT(<< "GENERATED", Len(Vecs) >>) /\ done' = TRUE
=============================================================================
