------------------------------- MODULE J_C20 -------------------------------
(* C20 / C04: reflective calls of every exported argument-free method on zero values, partial values and accepted values. *)
EXTENDS Judge, Sequences, FiniteSets, TLC

\* the exported structure types of the library (the catalogue the specification enumerates; cross-checked against go/ast by the runner)
StructTypes ==
  << "certificate.Certificate", "certificate.CertificateBuilder", "data.Mapping", "destination.Destination",
     "encrypted_leaseset.EncryptedLeaseSet", "key_certificate.KeyCertificate", "key_certificate.KeySizeInfo",
     "keys_and_cert.KeysAndCert", "keys_and_cert.PrivateKeysAndCert", "lease_set.LeaseSet", "lease_set2.EncryptionKey",
     "lease_set2.LeaseSet2", "meta_leaseset.MetaLeaseSet", "meta_leaseset.MetaLeaseSetEntry", "offline_signature.OfflineSignature",
     "router_address.RouterAddress", "router_identity.RouterIdentity", "router_info.RouterInfo", "session_tag.ECIESSessionTag",
     "session_tag.SessionTag", "signature.Signature" >>
OtherTypes == << "data.MappingValues", "data.Integer", "data.I2PString", "data.Date", "data.Hash", "lease.Lease", "lease.Lease2", "session_key.SessionKey" >>

\* class of the first bad outcome (keys known findings): recv/method
BadClass(bad) == IF Len(bad) = 0 THEN "ok" ELSE bad[1].recv \o "." \o bad[1].method
NoPanic(bad) == \A i \in 1..Len(bad) : ~bad[i].panicked /\ ~bad[i].hung
NoVerifySuccess(bad) == \A i \in 1..Len(bad) : ~bad[i].verify_success
\* one verdict per bad method: sequence of R records
PerBad(prop, pred, bad, tname, Cond(_)) ==
  [i \in 1..Len(bad) |-> R(prop, pred, TRUE, Cond(bad[i]), tname \o "/" \o bad[i].recv \o "." \o bad[i].method)]

JZero(e) ==
  << R("C20", "type_in_catalogue", TRUE, e.r.known, e.type),
     R("C20", "zero_value_methods_called", e.r.known, e.r.ncalls = Len(e.r.value_methods) + Len(e.r.pointer_methods), e.type) >>
  \o (IF e.r.known THEN PerBad("C20", "zero_value_method_returns_normally", e.r.bad, e.type, LAMBDA b : ~b.panicked /\ ~b.hung)
                        \o PerBad("C20", "zero_value_verification_never_succeeds", e.r.bad, e.type, LAMBDA b : ~b.verify_success)
      ELSE << >>)
  \o << R("C20", "zero_value_all_methods_safe", e.r.known /\ Len(e.r.bad) = 0, TRUE, e.type) >>

JPartial(e) ==
  LET cls == e.fn \o "/" \o (IF "cls" \in DOMAIN e THEN e.cls ELSE "-") IN
  << R("C20", "partial_values_explored", TRUE, e.r.nerr >= 1, cls) >>
  \o [i \in 1..Len(e.r.bad) |->
        R("C20", "partial_value_method_returns_normally", TRUE, ~e.r.bad[i].panicked /\ ~e.r.bad[i].hung, e.fn \o "/" \o e.r.bad[i].method)]
  \o [i \in 1..Len(e.r.bad) |->
        R("C20", "partial_value_verification_never_succeeds", TRUE, ~e.r.bad[i].verify_success, e.fn \o "/" \o e.r.bad[i].method)]
  \o << R("C20", "partial_values_all_methods_safe", Len(e.r.bad) = 0 /\ e.r.npartial >= 1, TRUE, cls) >>

JCatalogue(e) ==
  LET names == { e.r.types[i].type : i \in 1..Len(e.r.types) } IN
  << R("C20", "catalogue_covers_specified_types", TRUE,
       \A i \in 1..Len(StructTypes) : StructTypes[i] \in names, "catalogue") >>
=============================================================================
