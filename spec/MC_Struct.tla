----------------------------- MODULE MC_Struct -----------------------------
(***************************************************************************)
(* Exhaustive model checking of the reference codecs on the append graph   *)
(* (Small instance): every byte string over Alpha up to MaxLen is a state. *)
(*   Kind = "mapping"  : w is a whole mapping (size field + body)          *)
(*   Kind = "cert"     : w is a certificate / key certificate              *)
(*   Kind = "identity" : w = fixed key block ++ certificate bytes          *)
(* Invariants: the oracle is a function with the framing properties the    *)
(* listed properties demand of the implementation (round trip, extent,     *)
(* prefix-freeness, append-independence), so that a disagreement in trace  *)
(* validation can only be the implementation's.  For mappings the          *)
(* implementation-shaped pair loop is modelled too (ImplLoop): with the    *)
(* loop's stop rule of the repaired tree it refines the grammar, with the  *)
(* old "fewer than six bytes left" rule TLC finds the dropped pair.        *)
(***************************************************************************)
EXTENDS Ref, TLC

CONSTANTS Kind, MaxLen, StopRule     \* StopRule: "fits" (repaired tree) or "six" (the defect, negative control)

Alpha == CASE Kind = "mapping" -> {0, 1, 2, 59, 61, 97}
           [] Kind = "cert" -> {0, 1, 2, 4, 5, 7, 255}
           [] OTHER -> {0, 1, 4, 5, 7, 255}
Prefix == IF Kind = "identity" THEN Fill(BlockLen, 3) ELSE << >>

VARIABLE w
Init == w = Prefix
Next == Len(w) < Len(Prefix) + MaxLen /\ \E b \in Alpha : w' = Append(w, b)

Parse(x) == CASE Kind = "mapping" -> RefParse("ReadMapping", x, [size |-> 0])
              [] Kind = "cert" -> RefParse("ReadCertificate", x, [size |-> 0])
              [] OTHER -> RefParse("ReadKeysAndCert", x, [size |-> 0])

\* extent inside the input; nothing shorter accepted; appending changes nothing
Framing ==
  LET r == Parse(w) IN
  /\ r.ok => r.consumed <= Len(w)
  /\ r.ok => \A k \in 0..(r.consumed - 1) : ~Parse(Take(w, k)).ok
  /\ r.ok => \A b \in Alpha : Parse(Append(w, b)).ok /\ Parse(Append(w, b)).consumed = r.consumed
  /\ r.short => ~r.ok
  /\ ~r.ok /\ ~r.short => \A b \in Alpha : ~Parse(Append(w, b)).ok     \* malformed stays malformed

\* decode then encode reproduces the consumed bytes (the reference codec is an inverse pair)
RoundTrip ==
  CASE Kind = "mapping" ->
         LET m == RefReadMapping(w) IN
         /\ m.ok => SerMapping(m.pairs) = Take(w, m.consumed)
         /\ m.ok => RefReadMapping(CanonicalSer(m.pairs)).ok
         /\ m.ok => RefReadMapping(CanonicalSer(m.pairs)).pairs = SortPairs(m.pairs)
         /\ m.ok => IsSortedPairs(SortPairs(m.pairs)) /\ Len(SortPairs(m.pairs)) = Len(m.pairs)
         /\ m.ok => CanonicalSer(SortPairs(m.pairs)) = CanonicalSer(m.pairs)
         /\ m.ok /\ IsSortedPairs(m.pairs) => CanonicalSer(m.pairs) = Take(w, m.consumed)
         /\ m.ok => U16(CanonicalSer(m.pairs), 0) = Len(CanonicalSer(m.pairs)) - 2
    [] Kind = "cert" ->
         LET c == RefReadCert(w) IN
         /\ c.ok => SerCert(c.type, c.payload) = Take(w, c.consumed)
         /\ c.ok /\ IsKeyCert(c) => Take(c.payload, 4) = KeyCertPayload(KeyCertSigType(c), KeyCertCryptoType(c))
    [] OTHER ->
         LET r == RefReadKAC(w) IN
         /\ r.ok => SerKAC(KACPub(w, 0, r), KACPadding(w, 0, r), KACSpk(w, 0, r), Slice(w, BlockLen, r.cert.consumed)) = Take(w, r.consumed)
         /\ r.ok => Len(KACPub(w, 0, r)) + Len(KACPadding(w, 0, r)) + Len(KACSpk(w, 0, r)) = BlockLen
         /\ r.ok => LibSupportsPair(r.st, r.ct)
         /\ RefReadDestination(w).ok => ~DestProhibited(r.st, r.ct)
         /\ RefReadRouterIdentity(w).ok => RefReadDestination(w).ok /\ ~RouterProhibited(r.st, r.ct)

(***************************************************************************)
(* The implementation-shaped pair loop of data/mapping_values.go.          *)
(***************************************************************************)
AnnouncedPairFits(rest) ==
  /\ Len(rest) >= 4
  /\ LET vi == 1 + rest[1] + 1 IN vi < Len(rest) /\ vi + 1 + rest[vi + 1] + 1 <= Len(rest)
HasMinimum(rest) == IF StopRule = "six" THEN Len(rest) >= 6 ELSE (Len(rest) >= 6 \/ AnnouncedPairFits(rest))

RECURSIVE ImplLoop(_, _, _, _)
ImplLoop(b, pos, pairs, count) ==   \* [pairs, leftover, err]
  LET rest == Drop(b, pos) IN
  IF count >= 1000 THEN [pairs |-> pairs, leftover |-> Len(rest), err |-> TRUE]
  ELSE IF ~HasMinimum(rest) THEN [pairs |-> pairs, leftover |-> Len(rest), err |-> FALSE]
  ELSE LET p == PairAt(b, pos) IN
       IF ~p.ok THEN [pairs |-> pairs, leftover |-> Len(rest), err |-> TRUE]
       ELSE IF \E i \in 1..Len(pairs) : pairs[i][1] = p.k THEN [pairs |-> Append(pairs, << p.k, p.v >>), leftover |-> Len(b) - p.next, err |-> TRUE]
       ELSE IF p.next = Len(b) THEN [pairs |-> Append(pairs, << p.k, p.v >>), leftover |-> 0, err |-> FALSE]
       ELSE ImplLoop(b, p.next, Append(pairs, << p.k, p.v >>), count + 1)
\* complete mapping (all declared bytes present): trailing bytes that are not a pair are an error in the repaired tree
ImplReadComplete(body) ==
  LET r == ImplLoop(body, 0, << >>, 0) IN
  IF Len(body) = 0 THEN [pairs |-> << >>, err |-> FALSE]
  ELSE [pairs |-> r.pairs, err |-> r.err \/ (StopRule # "six" /\ r.leftover > 0)]

\* C04 at design level: the loop's position stays inside the body, every iteration consumes at least the
\* 4 bytes of the shortest pair (variant), so the number of iterations is bounded by the input length
LoopBounded ==
  Kind = "mapping" =>
    LET m == RefReadMapping(w) IN
    m.framed =>
      LET body == Slice(w, 2, m.consumed - 2)
          r == ImplLoop(body, 0, << >>, 0) IN
      /\ r.leftover \in 0..Len(body)
      /\ 4 * Len(r.pairs) <= Len(body) + 4

ImplRefinesGrammar ==
  Kind = "mapping" =>
    LET m == RefReadMapping(w) IN
    m.framed /\ m.consumed = Len(w) =>
      LET i == ImplReadComplete(Slice(w, 2, m.consumed - 2)) IN
      /\ m.ok => ~i.err /\ i.pairs = m.pairs                         \* no well-formed pair is lost
      /\ ~i.err => SerMapping(i.pairs) = w                           \* accepted without error => re-serialises to the input (C01/C11)
=============================================================================
