----------------------------- MODULE Gen_Signed -----------------------------
(***************************************************************************)
(* Honest signed structures over the NON-CANONICAL but accepted shapes:    *)
(* the driver puts real keys and genuine signatures over the wire bytes    *)
(* into the slots (SignedProbe with no adversary step).  C01: the value    *)
(* re-serialises to the consumed bytes, and since signatures are computed  *)
(* over the re-serialised bytes, the structure verifies.                   *)
(***************************************************************************)
EXTENDS Enc, J_C05, GenUtil, Json
CONSTANTS Tier, Seed, OutFile
T4 == << 101, 36, 248, 0 >>
Sorted == << << << 97 >>, << 98 >> >>, << << 99, 97, 112, 115 >>, << 102, 82 >> >> >>
Unsorted == << << << 118 >>, << 50 >> >>, << << 99, 97, 112, 115 >>, << 102, 82 >> >>, << << 97 >>, << 98 >> >> >>
EmptyVal == << << << 97 >>, << >> >> >>
OptSets == << << >>, Sorted, Unsorted, EmptyVal >>
Addr(opts) == EncRouterAddress(5, Zeros(8), << 78, 84, 67, 80, 50 >>, opts)
AddrH == Addr(<< << << 104, 111, 115, 116 >>, << 49, 46, 50, 46, 51, 46, 52 >> >>, << << 112, 111, 114, 116 >>, << 56, 48 >> >> >>)
AddrU == Addr(<< << << 112, 111, 114, 116 >>, << 56, 48 >> >>, << << 104, 111, 115, 116 >>, << 49, 46, 50, 46, 51, 46, 52 >> >> >>)
\* identities: KEY certificate, KEY certificate with excess payload, NULL certificate (DSA-SHA1)
Ids(st) == IF st = 0 THEN << EncIdentity("null", 0, 0, 3) >> ELSE << EncIdentity("key", st, 4, st + 2), EncIdentity("keyx", st, 4, st + 3), EncIdentity("key", st, 0, st + 4) >>
HP(fn, base, st, k, cls) == [ops |-> << [op |-> "SignedProbe", adv |-> [kind |-> "none"], cls |-> cls] @@ [SignedShape(fn, base, st, 0) EXCEPT !.stream = 9000 + k] >>]
RIs(st) ==
  Concat(SeqMap(LAMBDA id :
    Concat(SeqMap(LAMBDA ps : SeqMap(LAMBDA o : HP("ReadRouterInfo", EncRouterInfo(id, st, Zeros(8), << AddrH, AddrU >>, ps, o, 5), st, ps, "ri/peers" \o ToString(ps)), OptSets),
                  << 0, 1, 3 >>))
    \o << HP("ReadRouterInfo", EncRouterInfo(id, st, Zeros(8), << >>, 0, Sorted, 5), st, 11, "ri/noaddr") >>, Ids(st)))
LSs(st) == Concat(SeqMap(LAMBDA id : SeqMap(LAMBDA n : HP("ReadLeaseSet", EncLeaseSet(id, st, n, [i \in 1..n |-> EncLease(i, T4, Zeros(8))], 5), st, n, "ls/n" \o ToString(n)), << 0, 1, 16 >>), Ids(st)))
LS2s(st) ==
  Concat(SeqMap(LAMBDA id : Concat(SeqMap(LAMBDA o :
     << HP("ReadLeaseSet2", EncLS2(id, T4, << 2, 88 >>, 0, << >>, o, 2, << EncEncKey(4, 32, Fill(32, 1)), EncEncKey(0, 256, Fill(256, 2)) >>, 2, << EncLease2(1, T4, T4), EncLease2(2, T4, T4) >>, st, 5), st, 21, "ls2"),
        HP("ReadMetaLeaseSet", EncMeta(id, T4, << 2, 88 >>, 0, << >>, o, 2, << EncMetaEntry(1, 3, T4, 1, o), EncMetaEntry(2, 5, T4, 2, << >>) >>, st, 5), st, 22, "meta") >>
     \o (IF st = 0 THEN << >> ELSE
        << HP("ReadLeaseSet2", EncLS2(id, T4, << 2, 88 >>, 1, EncOffline(T4, 7, st, 4), o, 1, << EncEncKey(4, 32, Fill(32, 1)) >>, 0, << >>, 7, 5), st, 23, "ls2off"),
           HP("ReadMetaLeaseSet", EncMeta(id, T4, << 2, 88 >>, 1, EncOffline(T4, 11, st, 4), o, 1, << EncMetaEntry(1, 3, T4, 1, << >>) >>, 11, 5), st, 24, "metaoff") >>), OptSets)), Ids(st)))
\* (RouterInfo verification exists for Ed25519 identities only)
Vecs == RIs(7) \o Concat(SeqMap(LAMBDA st : LSs(st) \o LS2s(st), << 7, 0 >>)) \o LS2s(11)
VARIABLE done
Init == done = FALSE
Next == ~done /\ ndJsonSerialize(OutFile, Vecs) /\ PrintT(<< "GENERATED", Len(Vecs) >>) /\ done' = TRUE
=============================================================================
