------------------------------- MODULE J_C04 -------------------------------
(* C04: no input makes a parser, decoder or accessor panic or hang (sweep events carry counts and every non-normal outcome). *)
EXTENDS Judge, Sequences, TLC
JSweepOutcome(e) ==
  LET cls == e.fn \o "/" \o (IF "cls" \in DOMAIN e THEN e.cls ELSE "-") IN
  << R("C04", "sweep_executed", TRUE, e.r.n >= 1, cls),
     R("C04", "all_calls_returned_normally", e.r.n >= 1 /\ Len(e.r.bad) = 0, TRUE, cls) >>
  \o [i \in 1..Len(e.r.bad) |-> R("C04", "returns_normally", TRUE, FALSE, e.fn \o "/" \o e.r.bad[i].site)]
=============================================================================
