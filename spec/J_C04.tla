------------------------------- MODULE J_C04 -------------------------------
(* C04: no input makes a parser, decoder or accessor panic or hang (sweep events carry counts and every non-normal outcome). *)
EXTENDS Judge, Sequences, TLC
IsPartialSite(site) == Len(site) >= 8 /\ SubSeq(site, 1, 8) = "partial "
JSweepOutcome(e) ==
  LET cls == e.fn \o "/" \o (IF "cls" \in DOMAIN e THEN e.cls ELSE "-") IN
  << R("C04", "sweep_executed", TRUE, e.r.n >= 1, cls),
     R("C04", "all_calls_returned_normally", e.r.n >= 1 /\ Len(e.r.bad) = 0, TRUE, cls) >>
  \o [i \in 1..Len(e.r.bad) |->
        \* sites "partial ...": methods of a value that came back together with an error (structure-aware mutation, not only truncation) - C20
        IF IsPartialSite(e.r.bad[i].site)
        THEN R("C20", IF SubSeq(e.r.bad[i].site, 1, 14) = "partial verify" THEN "partial_value_never_verifies" ELSE "partial_value_method_returns_normally", TRUE, FALSE, e.fn \o "/" \o e.r.bad[i].site)
        ELSE R("C04", "returns_normally", TRUE, FALSE, e.fn \o "/" \o e.r.bad[i].site)]
  \o << R("C20", "partial_values_touched", "partial" \in DOMAIN e /\ e.partial, e.r.npartial >= 0, cls) >>

\* ApiSweep: one record per exported package-level function.  A function whose parameters are only byte strings, strings,
\* integers and booleans is a "parser/decoder/size-lookup" in the sense of C04 (inputs: byte strings and type/size arguments);
\* functions taking structured values (constructors, comparers) are judged under the extension family X03.
DataKinds == { "bytes", "string", "int", "uint", "bool", "bytearray" }
JApiSweep(e) ==
  LET fs == e.r.funcs
      PureData(f) == f.synth /\ \A k \in 1..Len(f.kinds) : f.kinds[k] \in DataKinds IN
  << R("C04", "api_sweep_executed", e.only # "zzz", e.r.nfuncs >= 1 /\ e.r.ncalls >= 1, e.cls) >>
  \o [i \in 1..Len(fs) |-> R("C04", "api_function_returns_normally", PureData(fs[i]), fs[i].nbad = 0, "api/" \o fs[i].name)]
  \o [i \in 1..Len(fs) |-> R("X03", "api_function_returns_normally", fs[i].synth /\ ~PureData(fs[i]), fs[i].nbad = 0, "api/" \o fs[i].name)]
=============================================================================
