------------------------------- MODULE J_Chain -------------------------------
(***************************************************************************)
(* Chain events: results kept by the caller while later calls run, then    *)
(* appended to, then the same calls again.  A returned byte slice belongs  *)
(* to the caller: no later call may overwrite it, and what the caller      *)
(* appends to it may not leak into later results.  (C11 for mapping        *)
(* serialisations, C13 for decoders, C12 for the primitives: "encode then  *)
(* decode yields the same" has to stay true for a result one still holds.) *)
(***************************************************************************)
EXTENDS Judge, Sequences, Integers, TLC
ChainProp(kind) == CASE kind = "mapping" -> "C11" [] kind = "textdec" -> "C13" [] kind = "ser" -> "C01" [] kind = "build" -> "C07" [] OTHER -> "C12"
JChain(e) ==
  LET p == ChainProp(e.kind)
      cls == e.kind \o "/" \o (IF "cls" \in DOMAIN e THEN e.cls ELSE "-") IN
  << R(p, "chain_executed", TRUE, e.r.ncalls >= Len(e.items), cls),
     R(p, "result_not_overwritten_by_later_calls", e.r.ncalls >= 1, Len(e.r.changed) = 0, cls),
     R(p, "result_repeatable_after_caller_appends", e.r.ncalls >= 1, Len(e.r.differs) = 0, cls),
     \* eight goroutines making the same calls at the same time get the answers obtained alone
     R(p, "results_same_under_concurrent_callers", e.r.ncalls >= 1 /\ "concurrent_bad" \in DOMAIN e.r, Len(e.r.concurrent_bad) = 0, cls),
     \* for structure serialisations: every first-round result is the parsed input again (C01 on the kept results), and the memory-separation reading (C08)
     R("C01", "kept_serialisation_is_the_consumed_input", e.kind = "ser", \A i \in 1..Len(e.items) : e.r.first[i].ok /\ e.r.first[i].out = e.items[i]["in"], cls),
     R("C08", "kept_serialisation_not_overwritten", e.kind = "ser" /\ e.r.ncalls >= 1, Len(e.r.changed) = 0 /\ Len(e.r.differs) = 0, cls) >>
=============================================================================
