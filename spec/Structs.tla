------------------------------ MODULE Structs ------------------------------
(***************************************************************************)
(* Reference decoders/encoders of the composite common structures          *)
(* (I2P 0.9.67): Lease, Lease2, Signature, OfflineSignature,               *)
(* RouterAddress, RouterInfo, LeaseSet, LeaseSet2, EncryptedLeaseSet, and  *)
(* the MetaLeaseSet in the layout this library documents (entry = hash,    *)
(* type, expires, cost, properties mapping).                               *)
(* Every decoder takes the bytes starting at the structure and returns     *)
(* [ok, short, consumed, ...fields]; composite decoders chain on Drop.     *)
(***************************************************************************)
EXTENDS Identity, Mapping, TLC

LeaseLen == IF Real THEN 44 ELSE 4       \* gateway hash | tunnel id | end date (ms, 8)
Lease2Len == IF Real THEN 40 ELSE 3      \* gateway hash | tunnel id | end date (s, 4)
HashLen == IF Real THEN 32 ELSE 1
MaxLeases == IF Real THEN 16 ELSE 2
MaxKeys == IF Real THEN 16 ELSE 2
MaxEntries == IF Real THEN 16 ELSE 2
ElgLen == IF Real THEN 256 ELSE 4

Fail(short, consumed) == [ok |-> FALSE, short |-> short, consumed |-> consumed]
FixedRec(b, n) == [ok |-> Len(b) >= n, short |-> Len(b) < n, consumed |-> n]

RefLease(b) == FixedRec(b, LeaseLen)
RefLease2(b) == FixedRec(b, Lease2Len)
LeaseGateway(b) == Take(b, HashLen)
LeaseTunnelId(b) == Slice(b, HashLen, 4)
LeaseEnd(b) == Slice(b, HashLen + 4, 8)        \* ms, 8 bytes
Lease2End(b) == Slice(b, HashLen + 4, 4)       \* seconds, 4 bytes

\* Signature of a given type
RefSignature(b, st) ==
  IF ~SigKnown(st) THEN [ok |-> FALSE, short |-> FALSE, consumed |-> 0]
  ELSE FixedRec(b, SigLen(st))

\* OfflineSignature: expires(4) | transient sig type(2) | transient public key | signature by the destination key
RefOfflineSig(b, destSt) ==
  IF Len(b) < 6 THEN Fail(TRUE, 6) @@ [tst |-> 0]
  ELSE LET tst == U16(b, 4) IN
       IF ~SigKnown(tst) \/ ~SigKnown(destSt) THEN Fail(FALSE, 6) @@ [tst |-> tst]
       ELSE LET n == 6 + SigPubLen(tst) + SigLen(destSt) IN
            [ok |-> Len(b) >= n, short |-> Len(b) < n, consumed |-> n, tst |-> tst]
OffExpires(b) == Take(b, 4)
OffTransientKey(b, tst) == Slice(b, 6, SigPubLen(tst))
OffSignature(b, tst, destSt) == Slice(b, 6 + SigPubLen(tst), SigLen(destSt))
\* what the destination key signs to authorise a transient key: expires | type | key
OffSignedData(b, tst) == Take(b, 6 + SigPubLen(tst))

\* RouterAddress: cost(1) | expiration(8) | transport style String | options Mapping
RefRouterAddress(b) ==
  IF Len(b) < 9 THEN Fail(TRUE, 9) @@ [styleEnd |-> 0, m |-> RefReadMapping(<< >>)]
  ELSE LET s == RefReadString(Drop(b, 9)) IN
       IF ~s.ok THEN Fail(TRUE, 9 + s.consumed) @@ [styleEnd |-> 0, m |-> RefReadMapping(<< >>)]
       ELSE LET se == 9 + s.consumed
                m == RefReadMapping(Drop(b, se)) IN
            [ok |-> m.ok, short |-> m.short, consumed |-> se + m.consumed, styleEnd |-> se, m |-> m]

\* n consecutive structures decoded by Dec(_) starting at pos: [ok, short, end, starts]
RECURSIVE Repeat(_, _, _, _, _)
Repeat(b, pos, n, Dec(_), starts) ==
  IF n = 0 THEN [ok |-> TRUE, short |-> FALSE, end |-> pos, starts |-> starts]
  ELSE LET r == Dec(Drop(b, pos)) IN
       IF ~r.ok THEN [ok |-> FALSE, short |-> r.short, end |-> pos + r.consumed, starts |-> starts]
       ELSE Repeat(b, pos + r.consumed, n - 1, Dec, Append(starts, pos))

\* RouterInfo: RouterIdentity | published(8) | size(1) | addresses | peer_size(1) | options | signature
RefRouterInfo(b) ==
  LET id == RefReadRouterIdentity(b) IN
  IF ~id.ok THEN [ok |-> FALSE, short |-> id.short, consumed |-> id.consumed, id |-> id]
  ELSE LET p == id.consumed IN
       IF Len(b) < p + 9 THEN Fail(TRUE, p + 9) @@ [id |-> id]
       ELSE LET na == b[p + 9]
                as == Repeat(b, p + 9, na, RefRouterAddress, << >>) IN
            IF ~as.ok THEN Fail(as.short, as.end) @@ [id |-> id]
            ELSE IF Len(b) < as.end + 1 THEN Fail(TRUE, as.end + 1) @@ [id |-> id]
            ELSE LET peers == b[as.end + 1]
                     m == RefReadMapping(Drop(b, as.end + 1)) IN
                 IF ~m.ok THEN Fail(m.short, as.end + 1 + m.consumed) @@ [id |-> id]
                 ELSE LET se == as.end + 1 + m.consumed
                          sl == SigLen(id.st) IN
                      [ok |-> peers = 0 /\ Len(b) >= se + sl, short |-> Len(b) < se + sl, consumed |-> se + sl, id |-> id,
                       \* laidOut: the layout the library uses whatever the peer_size byte says (named deviation PeerHashesNotParsed:
                       \* peer_size is read and kept, the peer hashes it announces are never parsed)
                       laidOut |-> Len(b) >= se + sl, peerOff |-> as.end,
                       pubOff |-> p, naddr |-> na, addrStarts |-> as.starts, addrEnd |-> as.end, optOff |-> as.end + 1,
                       optPairs |-> m.pairs, sigOff |-> se]

\* LeaseSet: Destination | ElGamal encryption key | signing key (destination's type) | num(1) | leases | signature
RefLeaseSet(b) ==
  LET d == RefReadDestination(b) IN
  IF ~d.ok THEN [ok |-> FALSE, short |-> d.short, consumed |-> d.consumed, d |-> d]
  ELSE LET p == d.consumed + ElgLen + SigPubLen(d.st) IN
       IF Len(b) < p + 1 THEN Fail(TRUE, p + 1) @@ [d |-> d]
       ELSE LET n == b[p + 1]
                e == p + 1 + n * LeaseLen + SigLen(d.st) IN
            IF n > MaxLeases THEN Fail(FALSE, p + 1) @@ [d |-> d]
            ELSE [ok |-> Len(b) >= e, short |-> Len(b) < e, consumed |-> e, d |-> d, encOff |-> d.consumed,
                  spkOff |-> d.consumed + ElgLen, n |-> n, leaseOff |-> p + 1, sigOff |-> p + 1 + n * LeaseLen]

\* LeaseSet2 encryption key section: type(2) | length(2) | data
RefEncKey(b) ==
  IF Len(b) < 4 THEN Fail(TRUE, 4)
  ELSE LET n == 4 + U16(b, 2) IN [ok |-> Len(b) >= n, short |-> Len(b) < n, consumed |-> n]

\* common header of LeaseSet2 / MetaLeaseSet: Destination | published(4) | expires(2) | flags(2) | [offline signature]
RefLS2Header(b) ==
  LET d == RefReadDestination(b) IN
  IF ~d.ok THEN [ok |-> FALSE, short |-> d.short, consumed |-> d.consumed, d |-> d, flags |-> 0, off |-> FALSE, tst |-> 0, offOff |-> 0]
  ELSE LET p == d.consumed IN
       IF Len(b) < p + 8 THEN Fail(TRUE, p + 8) @@ [d |-> d, flags |-> 0, off |-> FALSE, tst |-> 0, offOff |-> 0]
       ELSE LET flags == U16(b, p + 6)
                hasOff == flags % 2 = 1 IN
            IF ~hasOff THEN [ok |-> TRUE, short |-> FALSE, consumed |-> p + 8, d |-> d, flags |-> flags, off |-> FALSE, tst |-> 0, offOff |-> p + 8]
            ELSE LET o == RefOfflineSig(Drop(b, p + 8), d.st) IN
                 [ok |-> o.ok, short |-> o.short, consumed |-> p + 8 + o.consumed, d |-> d, flags |-> flags, off |-> TRUE, tst |-> o.tst, offOff |-> p + 8]
\* the type whose signature closes the structure
ClosingSigType(h) == IF h.off THEN h.tst ELSE h.d.st

RefLeaseSet2(b) ==
  LET h == RefLS2Header(b) IN
  IF ~h.ok THEN [ok |-> FALSE, short |-> h.short, consumed |-> h.consumed, h |-> h]
  ELSE LET m == RefReadMapping(Drop(b, h.consumed)) IN
       IF ~m.ok THEN Fail(m.short, h.consumed + m.consumed) @@ [h |-> h]
       ELSE LET kp == h.consumed + m.consumed IN
            IF Len(b) < kp + 1 THEN Fail(TRUE, kp + 1) @@ [h |-> h]
            ELSE LET nk == b[kp + 1] IN
                 IF nk < 1 \/ nk > MaxKeys THEN Fail(FALSE, kp + 1) @@ [h |-> h]
                 ELSE LET ks == Repeat(b, kp + 1, nk, RefEncKey, << >>) IN
                      IF ~ks.ok THEN Fail(ks.short, ks.end) @@ [h |-> h]
                      ELSE IF Len(b) < ks.end + 1 THEN Fail(TRUE, ks.end + 1) @@ [h |-> h]
                      ELSE LET nl == b[ks.end + 1]
                               e == ks.end + 1 + nl * Lease2Len + SigLen(ClosingSigType(h)) IN
                           IF nl > MaxLeases THEN Fail(FALSE, ks.end + 1) @@ [h |-> h]
                           ELSE [ok |-> Len(b) >= e, short |-> Len(b) < e, consumed |-> e, h |-> h, optOff |-> h.consumed,
                                 optPairs |-> m.pairs, nk |-> nk, keyStarts |-> ks.starts, nl |-> nl, leaseOff |-> ks.end + 1,
                                 sigOff |-> ks.end + 1 + nl * Lease2Len]

\* MetaLeaseSet entry (this library's documented layout): hash | type(1) | expires(4) | cost(1) | properties Mapping
MetaEntryTypes == {1, 3, 5}
RefMetaEntry(b) ==
  LET fixed == HashLen + 6 IN
  IF Len(b) < fixed + 2 THEN Fail(TRUE, fixed + 2)
  ELSE IF b[HashLen + 1] \notin MetaEntryTypes THEN Fail(FALSE, fixed)
  ELSE LET m == RefReadMapping(Drop(b, fixed)) IN
       [ok |-> m.ok, short |-> m.short, consumed |-> fixed + m.consumed]
RefMetaLeaseSet(b) ==
  LET h == RefLS2Header(b) IN
  IF ~h.ok THEN [ok |-> FALSE, short |-> h.short, consumed |-> h.consumed, h |-> h]
  ELSE LET m == RefReadMapping(Drop(b, h.consumed)) IN
       IF ~m.ok THEN Fail(m.short, h.consumed + m.consumed) @@ [h |-> h]
       ELSE LET ep == h.consumed + m.consumed IN
            IF Len(b) < ep + 1 THEN Fail(TRUE, ep + 1) @@ [h |-> h]
            ELSE LET ne == b[ep + 1] IN
                 IF ne < 1 \/ ne > MaxEntries THEN Fail(FALSE, ep + 1) @@ [h |-> h]
                 ELSE LET es == Repeat(b, ep + 1, ne, RefMetaEntry, << >>) IN
                      IF ~es.ok THEN Fail(es.short, es.end) @@ [h |-> h]
                      ELSE LET e == es.end + SigLen(ClosingSigType(h)) IN
                           [ok |-> Len(b) >= e, short |-> Len(b) < e, consumed |-> e, h |-> h, optOff |-> h.consumed,
                            optPairs |-> m.pairs, ne |-> ne, entryStarts |-> es.starts, sigOff |-> es.end]

\* EncryptedLeaseSet: sig type(2) | blinded key | published(4) | expires(2) | flags(2) | [offline] | len(2) | data | signature
ElsReservedFlags(flags) == flags \div 4 # 0
ElsMinInner == 61
RefEncryptedLeaseSet(b) ==
  IF Len(b) < 2 THEN Fail(TRUE, 2)
  ELSE LET st == U16(b, 0) IN
       IF ~SigKnown(st) THEN Fail(FALSE, 2)
       ELSE LET p == 2 + SigPubLen(st) IN
            IF Len(b) < p + 8 THEN Fail(TRUE, p + 8)
            ELSE LET flags == U16(b, p + 6)
                     expires == U16(b, p + 4)
                     hasOff == flags % 2 = 1
                     o == IF hasOff THEN RefOfflineSig(Drop(b, p + 8), st) ELSE [ok |-> TRUE, short |-> FALSE, consumed |-> 0, tst |-> 0] IN
                 IF ElsReservedFlags(flags) \/ expires = 0 THEN Fail(FALSE, p + 8)
                 ELSE IF ~o.ok THEN Fail(o.short, p + 8 + o.consumed)
                 ELSE LET lp == p + 8 + o.consumed IN
                      IF Len(b) < lp + 2 THEN Fail(TRUE, lp + 2)
                      ELSE LET il == U16(b, lp)
                               cst == IF hasOff THEN o.tst ELSE st
                               e == lp + 2 + il + SigLen(cst) IN
                           IF il < ElsMinInner THEN Fail(FALSE, lp + 2)
                           ELSE [ok |-> Len(b) >= e, short |-> Len(b) < e, consumed |-> e, st |-> st, keyOff |-> 2, hdrOff |-> p,
                                 flags |-> flags, off |-> hasOff, tst |-> o.tst, offOff |-> p + 8, lenOff |-> lp, innerLen |-> il,
                                 sigOff |-> lp + 2 + il, cst |-> cst]
=============================================================================
