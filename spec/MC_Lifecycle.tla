---------------------------- MODULE MC_Lifecycle ----------------------------
(***************************************************************************)
(* The lifecycle part of the Library machine (C20): a handle is a zero     *)
(* value, a partial value (a parser returned it together with an error) or *)
(* a valid value; CallMethod must lead back to "returned", never to        *)
(* "panicked"; Verify on a zero or partial value never yields success.     *)
(* NilGuards is the named fact about the implementation: with guards the   *)
(* invariant holds over every (type, origin, method-class) triple; without *)
(* them TLC exhibits the dereference (negative control).                   *)
(***************************************************************************)
EXTENDS J_C20
CONSTANTS NilGuards
Origins == {"zero", "partial", "valid"}
MethodClasses == {"accessor", "serialise", "verify", "validate", "derived-query"}   \* derived-query: built on another accessor's result
VARIABLES ty, origin, method, state, verdict
vars == << ty, origin, method, state, verdict >>
Init == /\ ty \in { StructTypes[i] : i \in 1..Len(StructTypes) } /\ origin \in Origins /\ method \in MethodClasses
        /\ state = "idle" /\ verdict = "none"
\* fields of a zero/partial value may be nil; a method dereferences only behind a guard
Deref(o) == IF o = "valid" THEN "ok" ELSE IF NilGuards THEN "guarded" ELSE "nil-deref"
Call == /\ state = "idle"
        /\ state' = IF Deref(origin) = "nil-deref" THEN "panicked" ELSE "returned"
        /\ verdict' = IF method = "verify" THEN (IF origin = "valid" THEN "success-or-failure" ELSE "failure") ELSE "n/a"
        /\ UNCHANGED << ty, origin, method >>
Next == Call
ReturnsNormally == state # "panicked"
NeverVerifiesGarbage == (state = "returned" /\ method = "verify" /\ origin # "valid") => verdict = "failure"
=============================================================================
