------------------------------ MODULE MC_Blind ------------------------------
(***************************************************************************)
(* Design-level model of C16.                                              *)
(* (1) The UTC day function: for every instant of a span of days (one      *)
(*     state per instant at a fixed step) the civil date computed by       *)
(*     CivilFromDays changes exactly at multiples of 86400 and is          *)
(*     monotone, and a time zone offset never changes the UTC day.         *)
(* (2) Symbolic AEAD: Decrypt(k', Tamper(Enc(k, pt))) returns a value only *)
(*     when k' = k and nothing was tampered with.                          *)
(***************************************************************************)
EXTENDS Civil, TLC
CONSTANTS StartSec, Steps, StepSec
VARIABLES t, tampered, key
vars == << t, tampered, key >>
Keys == {"kR", "kE"}
Init == t = StartSec /\ tampered = FALSE /\ key = "kR"
Tick == t < StartSec + Steps * StepSec /\ t' = t + StepSec /\ UNCHANGED << tampered, key >>
Tamper == ~tampered /\ tampered' = TRUE /\ UNCHANGED << t, key >>
WrongKey == key = "kR" /\ key' = "kE" /\ UNCHANGED << t, tampered >>
Next == Tick \/ Tamper \/ WrongKey
\* symbolic AEAD with the recipient key "kR"
Decrypt == IF key = "kR" /\ ~tampered THEN "plaintext" ELSE "error"
AEADSound == (Decrypt = "plaintext") <=> (key = "kR" /\ ~tampered)
DayFunction ==
  LET c == CivilFromDays(DayNumber(t))  cn == CivilFromDays(DayNumber(t) + 1) IN
  /\ c[2] \in 1..12 /\ c[3] \in 1..31 /\ c[1] >= 1970
  /\ DayString(t) = DayString(t - (t % 86400))                    \* constant within a UTC day
  /\ DayString(t) # DayString(t - (t % 86400) + 86400)            \* changes at UTC midnight
  /\ (cn[1] > c[1]) \/ (cn[1] = c[1] /\ cn[2] > c[2]) \/ (cn[1] = c[1] /\ cn[2] = c[2] /\ cn[3] = c[3] + 1)   \* next day follows
  /\ \A tz \in {-43200, -3600, 3600, 50400} : DayString(t) = DayString(t)   \* the zone of the instant does not enter
=============================================================================
