----------------------------- MODULE Gen_Objects -----------------------------
(***************************************************************************)
(* Call sequences on the mutable objects (Objects.tla) for replay: every   *)
(* sequence of builder calls up to length 2 (3 in the thorough tier) over  *)
(* an alphabet that contains each setter with valid, invalid and           *)
(* out-of-range arguments, observed after every call or only at the end;   *)
(* seeded random longer histories; SetBytes with every length class; Add   *)
(* at the string limits; AddAddress across the 255 limit of the count.     *)
(***************************************************************************)
EXTENDS Enc, GenUtil, TLC, Json
CONSTANTS Tier, Seed, OutFile
Thorough == Tier = "thorough"

New(fn, extra) == [op |-> "ObjNew", fn |-> fn, cls |-> "new"] @@ extra
Call(fn, c, obs, cls) == [op |-> "ObjCall", fn |-> fn, c |-> c, obs |-> obs, cls |-> cls]

(******************************* builder ***********************************)
WT(t) == [m |-> "WithType", t |-> t]
WKT(s, c) == [m |-> "WithKeyTypes", st |-> s, ct |-> c]
WP(p) == [m |-> "WithPayload", p |-> p]
BAlpha == << WT(0), WT(1), WT(3), WT(5), WT(6), WKT(7, 4), WKT(0, 0), WKT(65543, 4), WKT(7, 65536), WKT(-1, 0),
             WP(<< >>), WP(<< 0, 7, 0, 4 >>), WP(Fill(40, 1)), [m |-> "Validate"], [m |-> "Build"] >>
BAlphaBig == BAlpha \o << WT(2), WT(4), WT(255), WKT(11, 4), WKT(65535, 65535), WKT(1, 0), WKT(0, -1), WP(<< 9 >>), WP(Fill(72, 2)), WP(Fill(41, 3)),
                          WP(<< 0, 0, 0, 0 >>), WP(Fill(300, 4)) >>
\* the k-th sequence of length n over alphabet A (k in 0..|A|^n - 1)
SeqNo(A, n, k) == LET D[i \in 0..n] == IF i = 0 THEN k ELSE D[i - 1] \div Len(A) IN [i \in 1..n |-> A[(D[i - 1] % Len(A)) + 1]]
Pow(b, n) == LET F[i \in 0..n] == IF i = 0 THEN 1 ELSE b * F[i - 1] IN F[n]
BuilderSession(calls, everyStep, cls) ==
  [ops |-> << New("CertificateBuilder", << >>) >>
           \o [i \in 1..Len(calls) |-> Call("CertificateBuilder", calls[i], everyStep \/ i = Len(calls), cls)]]
BuilderExhaustive(n) ==
  [k \in 1..Pow(Len(BAlpha), n) |-> BuilderSession(SeqNo(BAlpha, n, k - 1), TRUE, "all-len" \o ToString(n))]
  \o [k \in 1..Pow(Len(BAlpha), n) |-> BuilderSession(SeqNo(BAlpha, n, k - 1), FALSE, "all-len" \o ToString(n) \o "-endonly")]
NRandB == IF Thorough THEN 600 ELSE 60
BuilderRandom ==
  [k \in 1..NRandB |->
     LET n == 4 + RndNat(Seed, k, 6)
         calls == [i \in 1..n |-> BAlphaBig[RndNat(Seed, 100 * k + i, Len(BAlphaBig)) + 1]] IN
     BuilderSession(calls, k % 2 = 0, "random")]
\* payloads at the two-byte length limit through the builder (65534, 65535 accepted like the direct constructor, 65536 refused)
BuilderLimit ==
  Cross2(<< 1, 4, 5 >>, << 65534, 65535, 65536 >>, LAMBDA t, n : BuilderSession(<< WT(t), WP(Fill(n, t)), [m |-> "Validate"], [m |-> "Build"] >>, TRUE, "payload-limit"))
  \o << BuilderSession(<< WP(Fill(65535, 9)), WKT(7, 4), [m |-> "Build"], WP(Fill(65535, 3)), [m |-> "Build"] >>, TRUE, "payload-limit") >>
\* one builder used for several certificates in a row (what it built earlier is kept and looked at again after every later call)
KTs == << << 7, 4 >>, << 11, 0 >>, << 8, 4 >>, << 0, 0 >>, << 7, 0 >>, << 1, 4 >>, << 11, 4 >> >>
BuilderReuse ==
  Cross2(KTs, KTs, LAMBDA a, b : BuilderSession(<< WKT(a[1], a[2]), [m |-> "Build"], WKT(b[1], b[2]), [m |-> "Build"], WT(1), WP(Fill(40, 1)), [m |-> "Build"], WKT(a[1], a[2]), [m |-> "Build"] >>,
                                                TRUE, "reuse"))
  \o SeqMap(LAMBDA a : BuilderSession(<< WT(3), WP(Fill(40, 1)), [m |-> "Build"], WKT(a[1], a[2]), [m |-> "Build"], WP(<< 0, 11, 0, 0 >>), [m |-> "Build"] >>, FALSE, "reuse"), KTs)
BuilderVecs == BuilderReuse \o BuilderLimit \o BuilderExhaustive(1) \o BuilderExhaustive(2) \o (IF Thorough THEN BuilderExhaustive(3) ELSE << >>) \o BuilderRandom

(******************************* fixed-size values *************************)
FixedSession(fn, n) ==
  [ops |-> << New(fn, << >>) >> \o
     [i \in 1..9 |-> Call(fn, [m |-> "SetBytes", b |-> Fill(<< n, n - 1, n, n + 1, 0, 2 * n, n, 1, n >>[i], 10 * i)], TRUE, "lengths")]]
FixedVecs == << FixedSession("SessionKey", 32), FixedSession("SessionTag", 32), FixedSession("ECIESSessionTag", 8) >>

(******************************* mapping values ****************************)
Add(k, v) == [m |-> "Add", k |-> k, v |-> v]
MAlpha == << Add(<< 97 >>, << 120 >>), Add(<< >>, << 120 >>), Add(Fill(255, 1), << >>), Add(Fill(256, 1), << 1 >>), Add(<< 97 >>, << 121 >>),
             Add(<< 98 >>, << >>), Add(<< 99 >>, Fill(256, 2)), Add(<< 99 >>, Fill(255, 2)), Add(<< 61, 59 >>, << 0, 255 >>) >>
MValsSession(calls, cap, cls) ==
  [ops |-> << New("MappingValues", [capacity |-> cap]) >> \o [i \in 1..Len(calls) |-> Call("MappingValues", calls[i], TRUE, cls)]]
MValsVecs == << MValsSession(MAlpha, 0, "designed"), MValsSession(MAlpha, 4, "designed-cap4") >>
  \o [k \in 1..(IF Thorough THEN 100 ELSE 12) |->
        MValsSession([i \in 1..(3 + RndNat(Seed, k, 5)) |-> MAlpha[RndNat(Seed, 50 * k + i, Len(MAlpha)) + 1]], k % 3, "random")]

(******************************* router info *******************************)
AddrA(i) == EncRouterAddress(i % 256, Zeros(8), << 78, 84, 67, 80, 50 >>, << << << 104 >>, << 49 + (i % 9) >> >> >>)
RIId == EncIdentity("key", 7, 4, 5)
RISig == Fill(64, 9)
RIOpts == << << << 99, 97, 112, 115 >>, << 102, 82 >> >> >>
RInfoSession(na, nadd) ==
  LET addrs == [i \in 1..na |-> AddrA(i)]
      pub8 == << 0, 0, 1, 138, 207, 146, 32, 0 >> IN
  [ops |-> << New("RouterInfo", [id |-> RIId, st |-> 7, pub8 |-> pub8, addrs |-> addrs, peers |-> 0, opts |-> RIOpts, sig |-> RISig,
                                  in |-> RIId \o pub8 \o << na >> \o Flatten(addrs) \o << 0 >> \o SerMapping(RIOpts) \o RISig]) >>
           \o [i \in 1..nadd |-> Call("RouterInfo", [m |-> "AddAddress", a |-> AddrA(na + i)], TRUE, "from" \o ToString(na))]]
\* AddAddress called on plain struct copies of the session's RouterInfo (the copy becomes the session's object; the original is kept)
RInfoCopySession(na, nadd) ==
  LET base == RInfoSession(na, nadd) IN
  [ops |-> [i \in 1..Len(base.ops) |-> IF i = 1 THEN base.ops[1] ELSE [base.ops[i] EXCEPT !.c = @ @@ [oncopy |-> i % 2 = 0], !.cls = "copy-from" \o ToString(na)]]]
RInfoVecs == << RInfoSession(0, 3), RInfoSession(2, 2), RInfoSession(253, 4), RInfoCopySession(1, 4), RInfoCopySession(0, 3) >> \o (IF Thorough THEN << RInfoSession(255, 2), RInfoSession(0, 257) >> ELSE << >>)

Vecs == BuilderVecs \o FixedVecs \o MValsVecs \o RInfoVecs
VARIABLE done
Init == done = FALSE
Next == ~done /\ ndJsonSerialize(OutFile, Vecs) /\ PrintT(<< "GENERATED", Len(Vecs) >>) /\ done' = TRUE
=============================================================================
