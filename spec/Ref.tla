-------------------------------- MODULE Ref --------------------------------
(***************************************************************************)
(* Dispatch from a parser entry point's name to the reference parser of    *)
(* the structure it reads.  Result: [known, ok, consumed, short]           *)
(*   known    - the specification has a reference parser for this entry    *)
(*   ok       - the input starts with a well-formed encoding               *)
(*   consumed - its extent                                                 *)
(*   short    - the input is a proper prefix of what its own length fields *)
(*              declare (so no complete value exists)                      *)
(***************************************************************************)
EXTENDS Prims

Unknown == [known |-> FALSE, ok |-> FALSE, consumed |-> 0, short |-> FALSE]
Fixed(in, n) == [known |-> TRUE, ok |-> Len(in) >= n, consumed |-> n, short |-> Len(in) < n]
Exact(in, n) == [known |-> TRUE, ok |-> Len(in) = n, consumed |-> n, short |-> Len(in) < n]

RefParse(fn, in, e) ==
  CASE fn \in {"ReadDate", "NewDate"} -> Fixed(in, 8)
    [] fn = "ReadHash" -> Fixed(in, 32)
    [] fn = "NewHashFromSlice" -> Exact(in, 32)
    [] fn \in {"ReadInteger", "NewInteger"} ->
         IF e.size \in IntWidths THEN Fixed(in, e.size) ELSE [known |-> TRUE, ok |-> FALSE, consumed |-> 0, short |-> FALSE]
    [] fn = "ReadI2PString" ->
         LET r == RefReadString(in) IN [known |-> TRUE, ok |-> r.ok, consumed |-> r.consumed, short |-> ~r.ok]
    [] OTHER -> Unknown

\* entry points that do not return a remainder
RefHasRem(fn) == fn \notin {"NewHashFromSlice"}
=============================================================================
