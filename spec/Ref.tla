-------------------------------- MODULE Ref --------------------------------
(***************************************************************************)
(* Dispatch from a parser entry point's name to the reference parser of    *)
(* the structure it reads.  Result: [known, ok, consumed, short]           *)
(*   known    - the specification has a reference parser for this entry    *)
(*   ok       - the input starts with a well-formed encoding that the      *)
(*              library is documented to support                           *)
(*   consumed - its extent                                                 *)
(*   short    - the input ends before the extent its own length fields     *)
(*              declare (so no complete value exists)                      *)
(***************************************************************************)
EXTENDS Structs, Text

Unknown == [known |-> FALSE, ok |-> FALSE, consumed |-> 0, short |-> FALSE]
Fixed(in, n) == [known |-> TRUE, ok |-> Len(in) >= n, consumed |-> n, short |-> Len(in) < n]
Exact(in, n) == [known |-> TRUE, ok |-> Len(in) = n, consumed |-> n, short |-> Len(in) < n]
Of(r) == [known |-> TRUE, ok |-> r.ok, consumed |-> r.consumed, short |-> r.short]

KACReaders == {"ReadKeysAndCert", "ReadKeysAndCertElgAndEd25519", "ReadKeysAndCertX25519AndEd25519"}
DestReaders == {"ReadDestination", "NewDestinationFromBytes", "NewDestination(ReadKeysAndCert)", "ReadDestinationFromLeaseSet"}
RIReaders == {"ReadRouterIdentity", "NewRouterIdentityFromBytes", "NewRouterIdentityFromKeysAndCert(ReadKeysAndCert)"}
IdentityReaders == KACReaders \cup DestReaders \cup RIReaders

\* the two key-type-specific readers are only specified for their own key types
FastPathApplies(fn, r) ==
  CASE fn = "ReadKeysAndCertElgAndEd25519" -> r.cert.ok /\ r.cert.type = CertKey /\ r.st = 7 /\ r.ct = 0
    [] fn = "ReadKeysAndCertX25519AndEd25519" -> r.cert.ok /\ r.cert.type = CertKey /\ r.st = 7 /\ r.ct = 4
    [] OTHER -> TRUE

RefIdentity(fn, in) ==
  CASE fn \in DestReaders -> RefReadDestination(in)
    [] fn \in RIReaders -> RefReadRouterIdentity(in)
    [] OTHER -> RefReadKAC(in)

RefParse(fn, in, e) ==
  CASE fn \in {"ReadDate", "NewDate"} -> Fixed(in, 8)
    [] fn = "ReadHash" -> Fixed(in, 32)
    [] fn = "NewHashFromSlice" -> Exact(in, 32)
    [] fn \in {"ReadInteger", "NewInteger"} ->
         IF e.size \in IntWidths THEN Fixed(in, e.size) ELSE [known |-> TRUE, ok |-> FALSE, consumed |-> 0, short |-> FALSE]
    [] fn = "ReadI2PString" ->
         LET r == RefReadString(in) IN [known |-> TRUE, ok |-> r.ok, consumed |-> r.consumed, short |-> ~r.ok]
    [] fn = "ReadCertificate" -> Of(RefReadCert(in))
    [] fn \in {"NewKeyCertificate", "KeyCertificateFromCertificate"} ->
         LET c == RefReadCert(in) IN
         [known |-> TRUE, ok |-> IsKeyCert(c) /\ SigKnown(KeyCertSigType(c)) /\ CryptoKnown(KeyCertCryptoType(c))
                 /\ c.len >= 4 + ExcessFor(KeyCertSigType(c), KeyCertCryptoType(c)),
          consumed |-> c.consumed, short |-> c.short]
    [] fn \in IdentityReaders ->
         LET r == RefIdentity(fn, in) IN
         IF FastPathApplies(fn, r) THEN Of(r) ELSE [known |-> FALSE, ok |-> FALSE, consumed |-> r.consumed, short |-> FALSE]
    [] fn \in {"ReadMapping", "NewMapping"} -> Of(RefReadMapping(in))
    [] fn \in {"ReadLease", "NewLeaseFromBytes"} -> Of(RefLease(in))
    [] fn \in {"ReadLease2", "NewLease2FromBytes"} -> Of(RefLease2(in))
    [] fn \in {"ReadSignature", "NewSignature"} -> Of(RefSignature(in, e.typ))
    [] fn = "NewSignatureFromBytes" ->
         LET r == RefSignature(in, e.typ) IN [known |-> TRUE, ok |-> r.ok /\ Len(in) = r.consumed, consumed |-> r.consumed, short |-> r.short]
    [] fn = "ReadOfflineSignature" -> Of(RefOfflineSig(in, e.typ))
    [] fn = "ReadRouterAddress" -> Of(RefRouterAddress(in))
    [] fn = "ReadRouterInfo" -> Of(RefRouterInfo(in))
    [] fn = "ReadLeaseSet" -> Of(RefLeaseSet(in))
    [] fn = "ReadDestinationFromLeaseSet" -> Of(RefReadDestination(in))
    [] fn = "ReadLeaseSet2" -> Of(RefLeaseSet2(in))
    [] fn = "ReadMetaLeaseSet" -> Of(RefMetaLeaseSet(in))
    [] fn = "ReadEncryptedLeaseSet" -> Of(RefEncryptedLeaseSet(in))
    [] fn \in {"ReadSessionKey", "NewSessionKey", "ReadSessionTag", "NewSessionTag"} -> Fixed(in, 32)
    [] fn = "NewSessionTagFromBytes" -> Exact(in, 32)
    [] fn \in {"ReadECIESSessionTag", "NewECIESSessionTag"} -> Fixed(in, 8)
    [] fn = "NewECIESSessionTagFromBytes" -> Exact(in, 8)
    [] OTHER -> Unknown

\* spec-computed class of an input (keys known findings): which leniency class a mapping body falls in
MappingClass(in) ==
  LET m == RefReadMapping(in) IN
  IF m.framed THEN BodyClass(Slice(in, 2, m.consumed - 2)) ELSE "unframed"
InputClass(fn, in, e) ==
  CASE fn \in {"ReadMapping", "NewMapping"} -> MappingClass(in)
    [] OTHER -> (IF "cls" \in DOMAIN e THEN e.cls ELSE "-")


\* entry points that do not return a remainder
RefHasRem(fn) == fn \notin {"NewHashFromSlice", "NewSignatureFromBytes", "ReadLeaseSet", "NewSessionTagFromBytes", "NewECIESSessionTagFromBytes"}
=============================================================================
