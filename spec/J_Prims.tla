------------------------------ MODULE J_Prims ------------------------------
(* Judging recorded calls of the primitive codecs against Prims (C12, and C01/C03 for the readers). *)
EXTENDS Prims, Judge

PrimOps == {"EncInt", "EncRange", "DecInt", "DecChunks", "ReadInt", "IntFromBytes", "Fixed",
            "DateNew", "DateGet", "NewStr", "StrFromBytes", "StrGet", "CtorTwins"}

FixedWidth(fn) == CASE fn \in {"U16", "I16"} -> 2 [] fn \in {"U32", "I32"} -> 4 [] OTHER -> 8

\* expected output of EncRange: concatenation over from..to of the encodings that exist
RangeOuts(from, to, size) ==
  LET F[i \in (from - 1)..to] ==
        IF i < from THEN << >>
        ELSE IF IntEncodable(NatLimbs(i), size) THEN F[i - 1] \o EncInt(NatLimbs(i), size) ELSE F[i - 1]
  IN F[to]
RunsOK(runs, from, to, size) ==
  /\ Len(runs) >= 1
  /\ runs[1][1] = from /\ runs[Len(runs)][2] = to
  /\ \A j \in 1..Len(runs) :
       /\ runs[j][1] <= runs[j][2]
       /\ (j > 1 => runs[j][1] = runs[j - 1][2] + 1)
       /\ \A v \in runs[j][1]..runs[j][2] : runs[j][3] = IntEncodable(NatLimbs(v), size)

ChunkVals(blob, w, n) == LET F[i \in 0..n] == IF i = 0 THEN << >> ELSE F[i - 1] \o PadTo(Slice(blob, (i - 1) * w, w), 8) IN F[n]

JPrims(e) ==
  CASE e.op = "EncInt" ->
        LET valid == (~e.neg \/ AllZero(e.v)) /\ IntEncodable(e.v, e.size)
            cls == "size=" \o ToString(e.size) IN
        << R("C12", "enc_accepts_in_domain", valid, e.r.ok, cls),
           R("C12", "enc_rejects_outside_domain", ~valid, ~e.r.ok, cls),
           R("C12", "enc_bytes_exact", valid /\ e.r.ok, e.r.out = EncInt(e.v, e.size), cls) >>
    [] e.op = "EncRange" ->
        LET cls == "size=" \o ToString(e.size) IN
        << R("C12", "encrange_accept_reject", TRUE, RunsOK(e.r.runs, e.from, e.to, e.size), cls),
           R("C12", "encrange_bytes_exact", TRUE, e.r.outs = RangeOuts(e.from, e.to, e.size), cls) >>
    [] e.op = "DecInt" ->
        LET n == Len(e["in"])
            cls == "len=" \o ToString(n)
            inDom == n \in 1..8
            small == inDom /\ FitsInt64(e["in"]) IN
        << R("C12", "dec_uint_full_range", e.fn = "UintSafe" /\ inDom, e.r.ok /\ e.r.v = PadTo(e["in"], 8), cls),
           R("C12", "dec_int_exact", e.fn # "UintSafe" /\ small, e.r.ok /\ e.r.v = PadTo(e["in"], 8), cls),
           R("C12", "dec_rejects_bad_width", e.fn \in {"IntSafe", "UintSafe", "DecodeIntN"} /\ ~inDom, ~e.r.ok, cls) >>
    [] e.op = "DecChunks" ->
        LET cls == "width=" \o ToString(e.width) IN
        << R("C12", "decchunks_exact", TRUE,
             e.r.allok /\ e.r.n = Len(e.blob) \div e.width /\ e.r.vals = ChunkVals(e.blob, e.width, e.r.n), cls) >>
    [] e.op = "ReadInt" ->
        LET ref == RefReadInt(e["in"], e.size)
            cls == "size=" \o ToString(e.size) IN
        << R("C12", "readint_value", ref.ok, e.r.val = Take(e["in"], e.size), cls),
           R("C03", "readint_remainder", ref.ok, e.r.rem = Drop(e["in"], e.size), cls),
           R("C12", "readint_short_input_incomplete", ~ref.ok, Len(e.r.val) # e.size \/ e.size \notin IntWidths, cls) >>
    [] e.op = "IntFromBytes" ->
        LET n == Len(e["in"])  cls == "len=" \o ToString(n) IN
        << R("C12", "intfrombytes_domain", TRUE, e.r.ok = (n \in 1..8), cls),
           R("C12", "intfrombytes_value", n \in 1..8 /\ e.r.ok, e.r.out = e["in"], cls) >>
    [] e.op = "Fixed" ->
        LET w == FixedWidth(e.fn) IN
        << R("C12", "fixed_big_endian", TRUE, e.r.enc = Last(e.bits, w), e.fn),
           R("C12", "fixed_inverse", TRUE, e.r.dec = Zeros(8 - w) \o Last(e.bits, w), e.fn) >>
    [] e.op = "DateNew" ->
        LET nonneg == ~e.neg \/ AllZero(e.v)
            ms == CASE e.fn = "NewDateFromMillis" -> Norm(e.v)
                    [] e.fn = "NewDateFromUnix" -> MulSmallBE(e.v, 1000)
                    [] OTHER -> TimeToDate(e.v, e.ns)
            inDom == nonneg /\ FitsInt64(ms)
            cls == e.fn IN
        << R("C12", "date_accepts_in_domain", inDom, e.r.ok, cls),
           R("C12", "date_exact", inDom /\ e.r.ok, e.r.out = PadTo(ms, 8), cls),
           \* the same observation under C15 (second / millisecond conversions are exact, never wrapped, for every millisecond date below 2^63)
           R("C15", "seconds_to_milliseconds_exact", inDom /\ e.r.ok, e.r.out = PadTo(ms, 8), cls),
           R("C15", "date_constructor_never_stores_wrapped_value", nonneg /\ ~FitsInt64(ms) /\ e.fn # "DateFromTime", ~e.r.ok, cls),
           R("C12", "date_rejects_negative", ~nonneg /\ e.fn # "DateFromTime", ~e.r.ok, cls),
           \* values that do not fit a non-negative 63-bit millisecond count are refused, never wrapped
           R("C12", "date_rejects_out_of_domain", nonneg /\ ~FitsInt64(ms) /\ e.fn # "DateFromTime", ~e.r.ok, cls) >>
    [] e.op = "DateGet" ->
        LET small == FitsInt64(e["in"])
            t == DateToTime(e["in"]) IN
        << R("C12", "date_time_exact", small, ~e.r.secneg /\ EqBE(e.r.sec, t[1]) /\ e.r.ns = t[2], "Time"),
           R("C15", "milliseconds_to_time_exact", small, ~e.r.secneg /\ EqBE(e.r.sec, t[1]) /\ e.r.ns = t[2], "Time"),
           R("C12", "date_int_exact", small, e.r.int = e["in"], "Int"),
           R("C12", "date_bytes", TRUE, e.r.bytes = e["in"] /\ e.r.iszero = AllZero(e["in"]), "Bytes") >>
    [] e.op = "NewStr" ->
        LET cls == "len=" \o ToString(Len(e.s)) IN
        << R("C12", "str_domain", TRUE, e.r.ok = StringEncodable(e.s), cls),
           R("C12", "str_bytes_exact", StringEncodable(e.s) /\ e.r.ok, e.r.out = EncString(e.s), cls) >>
    [] e.op = "StrFromBytes" ->
        LET good == IsCompleteString(e["in"]) IN
        << R("C12", "strfrombytes_domain", TRUE, e.r.ok = good, "StrFromBytes"),
           R("C12", "strfrombytes_value", good /\ e.r.ok, e.r.out = e["in"], "StrFromBytes") >>
    [] e.op = "StrGet" ->
        LET good == IsCompleteString(e["in"]) IN
        << R("C12", "str_data_inverse", good,
             e.r.data_ok /\ e.r.data = Drop(e["in"], 1) /\ e.r.safe_ok /\ e.r.safe = Drop(e["in"], 1)
             /\ e.r.len_ok /\ e.r.len = e["in"][1] /\ e.r.valid, "good"),
           R("C12", "str_incomplete_never_complete", ~good,
             ~e.r.safe_ok /\ ~e.r.valid /\ (Len(e["in"]) = 0 \/ ~e.r.data_ok), "bad") >>
    [] e.op = "CtorTwins" ->
        << R("C19", "constructor_twins_agree", TRUE, e.r.ok1 = e.r.ok2 /\ (e.r.ok1 => e.r.out1 = e.r.out2), e.fn) >>
    [] OTHER -> << >>
=============================================================================
