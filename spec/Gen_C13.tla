------------------------------ MODULE Gen_C13 ------------------------------
(* Base32/base64 behaviours: all strings of length <= 2 (chunked), every length residue, seeded random up to 4 KiB,
   every byte value at first/middle/last position of valid encodings, malformed padding, CR/LF, size guards. *)
EXTENDS Text, GenUtil, TLC, Json
CONSTANTS Tier, Seed, OutFile
Thorough == Tier = "thorough"
Encs == << << "b32", "EncodeToString" >>, << "b32", "EncodeToStringNoPadding" >>, << "b32", "EncodeToStringSafe" >>, << "b64", "EncodeToString" >>, << "b64", "EncodeToStringSafe" >> >>
Decs == << << "b32", "DecodeString" >>, << "b32", "DecodeStringNoPadding" >>, << "b32", "DecodeStringSafe" >>, << "b32", "DecodeStringSafeNoPadding" >>,
           << "b64", "DecodeString" >>, << "b64", "DecodeStringSafe" >> >>
Blob1 == [i \in 1..256 |-> i - 1]
Blob2(c) == [j \in 1..8192 |-> LET v == c * 4096 + ((j - 1) \div 2) IN IF j % 2 = 1 THEN v \div 256 ELSE v % 256]
ChunkVecs ==
  SeqMap(LAMBDA p : [op |-> "TextEncChunks", pkg |-> p[1], fn |-> p[2], width |-> 1, blob |-> Blob1], Encs)
  \o Cross2(IF Thorough THEN Encs ELSE << Encs[2], Encs[4] >>, Range(0, 15), LAMBDA p, c : [op |-> "TextEncChunks", pkg |-> p[1], fn |-> p[2], width |-> 2, blob |-> Blob2(c)])
  \o (IF Thorough THEN << >> ELSE Cross2(<< Encs[1], Encs[3], Encs[5] >>, << 0, 7, 15 >>, LAMBDA p, c : [op |-> "TextEncChunks", pkg |-> p[1], fn |-> p[2], width |-> 2, blob |-> Blob2(c)]))
Lens == Range(0, 17) \o << 31, 32, 33, 63, 64, 65, 384, 387, 391 >> \o (IF Thorough THEN << 1000, 4096 >> ELSE << >>)
EncVecs == Cross2(Encs, Lens, LAMBDA p, n : [op |-> "TextEnc", pkg |-> p[1], fn |-> p[2], in |-> Rnd(Seed, n, n)])
  \o Cross2(Encs, Range(1, IF Thorough THEN 100 ELSE 10), LAMBDA p, k : [op |-> "TextEnc", pkg |-> p[1], fn |-> p[2], in |-> Rnd(Seed, RndNat(Seed, k, 200), 50 + k)])
EncOf(p, in) == IF p[1] = "b64" THEN B64(in) ELSE IF p[2] \in {"DecodeStringNoPadding", "DecodeStringSafeNoPadding"} THEN B32NoPad(in) ELSE B32(in)
\* valid encodings of every length residue decoded through every decoder (also the wrong-padding decoder)
DecValid == Cross2(Decs, Range(0, 12), LAMBDA p, n : [op |-> "TextDec", pkg |-> p[1], fn |-> p[2], in |-> EncOf(p, Rnd(Seed, n, n + 3))])
DecCross == Cross2(Decs, Range(0, 12), LAMBDA p, n : [op |-> "TextDec", pkg |-> p[1], fn |-> p[2], in |-> (IF p[1] = "b64" THEN B64NoPad(Rnd(Seed, n, n)) ELSE IF p[2] \in {"DecodeStringNoPadding", "DecodeStringSafeNoPadding"} THEN B32(Rnd(Seed, n, n)) ELSE B32NoPad(Rnd(Seed, n, n)))])
\* malformed padding, CR/LF insertions, truncations
Malform(s) == << s \o << 61 >>, << 61 >> \o s, (IF Len(s) > 0 THEN SubSeq(s, 1, Len(s) - 1) ELSE s), s \o << 13, 10 >>, << 10 >> \o s,
                 (IF Len(s) > 2 THEN SubSeq(s, 1, 2) \o << 13 >> \o SubSeq(s, 3, Len(s)) ELSE s), (IF Len(s) > 2 THEN SubSeq(s, 1, 2) \o << 61 >> \o SubSeq(s, 3, Len(s)) ELSE s),
                 s \o << 61, 61, 61, 61, 61, 61, 61, 61 >>, s \o << 32 >>, s \o << 0 >>,
                 \* line breaks between the (possibly padded) string and trailing junk: the junk is as foreign as without them
                 s \o << 13, 10 >> \o << 33 >>, s \o << 13, 10, 13, 10, 13, 10, 13, 10 >> \o << 33 >>, s \o << 10 >> \o << 97, 98, 99, 100, 101, 102, 103 >>,
                 s \o << 10, 10, 10, 10, 10, 10, 10, 10, 10 >> \o << 97 >>, s \o << 13, 10, 13, 10, 13, 10, 13, 10 >> \o << 61 >> >>
DecMal == Concat(Cross2(Decs, Range(0, 9), LAMBDA p, n : SeqMap(LAMBDA s : [op |-> "TextDec", pkg |-> p[1], fn |-> p[2], in |-> s], Malform(EncOf(p, Rnd(Seed, n, n + 7))))))
\* all 1-character strings and, for 2 characters, every value against a fixed valid first character (via mutate)
MutVecs ==
  Concat(Cross2(Decs, IF Thorough THEN << 1, 2, 3, 4, 5, 7, 10 >> ELSE << 1, 3, 5, 10 >>, LAMBDA p, n :
     LET s == EncOf(p, Rnd(Seed, n, n + 11)) IN
     SeqMap(LAMBDA pos : [op |-> "TextDecMutate", pkg |-> p[1], fn |-> p[2], in |-> s, pos |-> pos], << 0, Len(s) \div 2, Len(s) - 1 >>)))
  \o SeqMap(LAMBDA p : [op |-> "TextDecMutate", pkg |-> p[1], fn |-> p[2], in |-> << 97 >>, pos |-> 0], Decs)
GuardNs(max) == << 0, 1, max - 8, max, max + 1, max + 8 >>
GuardVecs ==
  Cross2(Encs, GuardNs(10485760), LAMBDA p, n : [op |-> "TextGuard", pkg |-> p[1], fn |-> p[2], n |-> n])
  \o Cross2(SubSeq(Decs, 1, 4), GuardNs((10485760 * 8 + 4) \div 5), LAMBDA p, n : [op |-> "TextGuard", pkg |-> p[1], fn |-> p[2], n |-> n])
  \o Cross2(SubSeq(Decs, 5, 6), GuardNs(((10485760 + 2) \div 3) * 4), LAMBDA p, n : [op |-> "TextGuard", pkg |-> p[1], fn |-> p[2], n |-> n])
\* line breaks are skipped by the decoders but are bytes of the string: the size limit counts them
GuardCRLF(decs, max) ==
  Cross3(decs, << << max - 8, 8 >>, << max - 8, 9 >>, << max, 1 >>, << max - 16, 17 >>, << max - 16, 16 >> >>, << "end", "start", "middle" >>,
         LAMBDA p, nk, pos : [op |-> "TextGuard", pkg |-> p[1], fn |-> p[2], n |-> nk[1], crlf |-> nk[2], crlfpos |-> pos])
GuardCRLFVecs == GuardCRLF(SubSeq(Decs, 1, 4), (10485760 * 8 + 4) \div 5) \o GuardCRLF(SubSeq(Decs, 5, 6), ((10485760 + 2) \div 3) * 4)
\* decoded results kept while further strings (of other lengths) are decoded
ChainVecs == SeqMap(LAMBDA p : [op |-> "Chain", fn |-> p[2], kind |-> "textdec", cls |-> p[1] \o "." \o p[2],
                                items |-> SeqMap(LAMBDA n : [pkg |-> p[1], fn |-> p[2], in |-> EncOf(p, Rnd(Seed, n, n + 40))], << 10, 3, 25, 10, 1, 64, 5, 32, 100, 7 >>)], Decs)
\* ... and the same for line-wrapped text (CR LF after every k characters, which the decoders skip): wrapped and plain strings side by side
RECURSIVE WrapEvery(_, _)
WrapEvery(t, k) == IF Len(t) <= k THEN t \o << 13, 10 >> ELSE SubSeq(t, 1, k) \o << 13, 10 >> \o WrapEvery(SubSeq(t, k + 1, Len(t)), k)
WrappedChainVecs == SeqMap(LAMBDA p : [op |-> "Chain", fn |-> p[2], kind |-> "textdec", cls |-> p[1] \o "." \o p[2] \o "/wrapped",
                                items |-> SeqMap(LAMBDA n : [pkg |-> p[1], fn |-> p[2],
                                                              in |-> IF n % 2 = 1 THEN EncOf(p, Rnd(Seed, n, n + 41)) ELSE WrapEvery(EncOf(p, Rnd(Seed, n, n + 41)), 8 + (n % 3) * 28)],
                                                 << 10, 3, 24, 12, 1, 64, 5, 32, 100, 8, 50, 20 >>)], Decs)
\* large inputs (around 1 MiB and just below the encode limit, every residue of the group size): round trip, output length, alphabet
BigNs == << 1048575, 1048576, 1048577, 1048578, 1048579, 1048580, 1048581, 3145729, 10485757, 10485758, 10485759, 10485760 >>
BigVecs == Cross2(<< << "b32", "EncodeToString", "DecodeString" >>, << "b32", "EncodeToStringNoPadding", "DecodeStringNoPadding" >>, << "b32", "EncodeToStringSafe", "DecodeStringSafe" >>,
                     << "b64", "EncodeToString", "DecodeString" >>, << "b64", "EncodeToStringSafe", "DecodeStringSafe" >> >>, BigNs,
                  LAMBDA p, n : [op |-> "TextBig", pkg |-> p[1], fn |-> p[2], dec |-> p[3], n |-> n])
Vecs == BigVecs \o ChainVecs \o WrappedChainVecs \o GuardCRLFVecs \o ChunkVecs \o EncVecs \o DecValid \o DecCross \o DecMal \o MutVecs \o GuardVecs
VARIABLE done
Init == done = FALSE
Next == ~done /\ ndJsonSerialize(OutFile, Vecs) /\ PrintT(<< "GENERATED", Len(Vecs) >>) /\ done' = TRUE
=============================================================================
