------------------------------ MODULE Gen_Build ------------------------------
(***************************************************************************)
(* Behaviours for the constructor direction: model values (records of      *)
(* field values) handed to the library's constructors; valid tuples over   *)
(* the shape space and each single-defect variant.                         *)
(***************************************************************************)
EXTENDS Enc, Ref, GenUtil, TLC, Json

CONSTANTS Tier, Seed, OutFile, Fam
Thorough == Tier = "thorough"
B(fn, m, cls) == [op |-> "Build", fn |-> fn, m |-> m, cls |-> cls]
One(v) == [ops |-> << v >>]

(****************************** certificates ********************************)
CertVecs ==
  Cross2(<< 0, 1, 2, 3, 4, 5, 6, 7, 255 >>, << 0, 1, 4, 5, 39, 40, 41, 72, 73, 300 >>, LAMBDA t, n :
     One(B("NewCertificateWithType", [type |-> t, payload |-> Fill(n, t + n)], "ctor")))
  \o Cross2(<< 0, 1, 2, 3, 4, 5, 6, 255 >>, << 0, 4, 40 >>, LAMBDA t, n :
     One(B("CertificateBuilder", [type |-> t, payload |-> Fill(n, t + n)], "builder-type-payload")))
  \o SeqMap(LAMBDA t : One(B("CertificateBuilder", [type |-> t], "builder-type")), << 0, 1, 2, 3, 5 >>)
SigCodes == << 0, 1, 2, 3, 4, 5, 6, 7, 8, 9, 10, 11, 12, 255, 65535 >>
CryptoCodes == << 0, 1, 2, 3, 4, 5, 6, 7, 8, 255, 65535 >>
KeyCertVecs ==
  Cross2(SigCodes, CryptoCodes, LAMBDA st, ct :
     [ops |-> << B("NewKeyCertificateWithTypes", [st |-> st, ct |-> ct], "withtypes"),
                 B("CertificateBuilder", [st |-> st, ct |-> ct], "builder-keytypes"),
                 B("BuildKeyTypePayload", [st |-> st, ct |-> ct], "payload") >>])
  \o SeqMap(LAMBDA fn : One(B(fn, [st |-> 0, ct |-> 0], "convenience")),
            << "NewEd25519X25519KeyCertificate", "NewECDSAP256KeyCertificate", "NewECDSAP384KeyCertificate", "NewDSAElGamalKeyCertificate", "NewRedDSAX25519KeyCertificate" >>)
  \* a payload set BEFORE the key types is superseded by them (the builder documents that the last call wins)
  \o Cross2(<< << 7, 4 >>, << 0, 0 >>, << 11, 4 >>, << 1, 0 >> >>, << 0, 4, 40 >>, LAMBDA p, n :
       One(B("CertificateBuilder", [st |-> p[1], ct |-> p[2], payload |-> Fill(n, 3), payloadfirst |-> TRUE], "builder-payload-then-keytypes")))
  \o << One(B("NewKeyCertificateWithTypes", [st |-> -1, ct |-> 0], "negative")), One(B("NewKeyCertificateWithTypes", [st |-> 7, ct |-> 65536], "toolarge")),
        One(B("BuildKeyTypePayload", [st |-> 65536, ct |-> 0], "toolarge")) >>

(****************************** identities **********************************)
IdFns == << "NewKeysAndCert", "NewDestination", "NewRouterIdentityFromKeysAndCert", "NewRouterIdentity" >>
PubLenOf(ct) == IF CryptoKnown(ct) THEN CryptoPubLen(ct) ELSE 32
SpkLenOf(st) == IF SigKnown(st) THEN SigPubLen(st) ELSE 32
IdModel(st, ct, dp, ds, dpad, salt) ==
  [st |-> st, ct |-> ct, pub |-> SafeKey(Max(PubLenOf(ct) + dp, 0), salt), spk |-> SafeKey(Max(SpkLenOf(st) + ds, 0), salt + 1),
   padding |-> Fill(Max(BlockLen - PubLenOf(ct) - SpkLenOf(st) + dpad, 0), salt + 2)]
IdPairs ==
  Cross2(<< 0, 1, 2, 3, 4, 5, 6, 7, 8, 11 >>, << 0, 1, 2, 3, 4, 5, 6, 7 >>, LAMBDA st, ct : << st, ct >>)
  \o << << 9, 4 >>, << 12, 4 >>, << 65535, 0 >>, << 7, 8 >>, << 7, 255 >>, << 0, 65535 >> >>
  \* a prohibited type in one field, an experimental-range (65280..65534) or reserved code in the other
  \o Cross2(<< 4, 5, 6, 8, 11, 3 >>, << 65280, 65534, 65281 >>, LAMBDA st, ct : << st, ct >>)
  \o Cross2(<< 65280, 65534 >>, << 5, 6, 7, 1 >>, LAMBDA st, ct : << st, ct >>)
IdentVecs ==
  Cross2(IdFns, IdPairs, LAMBDA fn, p : One(B(fn, IdModel(p[1], p[2], 0, 0, 0, p[1] + 2 * p[2]), "valid-sizes")))
  \o Cross3(IdFns, << << 7, 4 >>, << 0, 0 >>, << 1, 0 >>, << 2, 4 >>, << 11, 4 >> >>, << << -1, 0, 0 >>, << 1, 0, 0 >>, << 0, -1, 0 >>, << 0, 1, 0 >>, << 0, 0, -1 >>, << 0, 0, 1 >> >>,
      LAMBDA fn, p, d : One(B(fn, IdModel(p[1], p[2], d[1], d[2], d[3], 5), "size-defect")))
  \* experimental-range codes have no key size: the library treats their keys as zero-length, so that is what a caller would pass
  \o Cross2(IdFns, << << 11, 65280 >>, << 8, 65534 >>, << 4, 65280 >>, << 65280, 6 >>, << 65534, 5 >>, << 65280, 65280 >>, << 7, 65280 >>, << 65280, 4 >> >>, LAMBDA fn, p :
      One(B(fn, [st |-> p[1], ct |-> p[2], pub |-> (IF p[2] >= 65280 THEN << >> ELSE SafeKey(PubLenOf(p[2]), 3)), spk |-> (IF p[1] >= 65280 THEN << >> ELSE SafeKey(SpkLenOf(p[1]), 4)),
                 padding |-> Fill(BlockLen - (IF p[2] >= 65280 THEN 0 ELSE PubLenOf(p[2])) - (IF p[1] >= 65280 THEN 0 ELSE SpkLenOf(p[1])), 5)], "experimental-zero-length")))
  \* a caller-assembled KeysAndCert (struct literal) handed to the wrappers: prohibited types, alone and next to experimental-range codes
  \o Cross2(<< "NewDestination", "NewRouterIdentityFromKeysAndCert" >>,
            << << 8, 4 >>, << 4, 0 >>, << 7, 5 >>, << 11, 4 >>, << 8, 65280 >>, << 4, 65534 >>, << 65280, 6 >>, << 65534, 5 >>, << 11, 65280 >>, << 7, 4 >>, << 0, 0 >> >>, LAMBDA fn, p :
      One(B(fn, IdModel(p[1], p[2], 0, 0, 0, p[1] + p[2] + 1) @@ [literal |-> TRUE], "literal")))
  \* ... and caller-assembled values whose padding is absent, short or long: the wrappers take them, so what they return has to validate,
  \* serialise and read back like any other value (the lifecycle predicates; nothing says they must be refused)
  \o Cross3(<< "NewDestination", "NewRouterIdentityFromKeysAndCert" >>, << << 7, 4 >>, << 7, 0 >>, << 0, 0 >> >>, << -400, -304, -1, 1, 80 >>, LAMBDA fn, p, dpad :
      One(B(fn, IdModel(p[1], p[2], 0, 0, dpad, p[1] + p[2] + 1) @@ [literal |-> TRUE], "literal-padding")))
  \o Cross2(IdFns, << "nilpub", "nilspk" >>, LAMBDA fn, which :
      One(B(fn, IdModel(7, 4, 0, 0, 0, 6) @@ (IF which = "nilpub" THEN [nilpub |-> TRUE] ELSE [nilspk |-> TRUE]), which)))

\* identities serialised one after the other, results kept, several rounds (Chain op, kind "build"): what a caller-assembled identity
\* with absent / short padding serialises (and therefore hashes) to must not depend on which identities were serialised before it
BItem(fn, m) == [fn |-> fn, m |-> m]
IdentChainVecs ==
  << One([op |-> "Chain", fn |-> "identity.Bytes", kind |-> "build", cls |-> "identities",
          items |-> << BItem("NewDestination", IdModel(7, 4, 0, 0, -400, 3) @@ [literal |-> TRUE]), BItem("NewDestination", IdModel(7, 4, 0, 0, 0, 9)),
                       BItem("NewDestination", IdModel(7, 4, 0, 0, -304, 4) @@ [literal |-> TRUE]), BItem("NewKeysAndCert", IdModel(7, 0, 0, 0, 0, 11)),
                       BItem("NewRouterIdentityFromKeysAndCert", IdModel(7, 0, 0, 0, -400, 5) @@ [literal |-> TRUE]), BItem("NewRouterIdentity", IdModel(11, 4, 0, 0, 0, 13)),
                       BItem("NewDestination", IdModel(7, 4, 0, 0, -1, 6) @@ [literal |-> TRUE]), BItem("NewKeysAndCert", IdModel(0, 0, 0, 0, 0, 15)),
                       BItem("NewDestination", IdModel(0, 0, 0, 0, 0, 7)), BItem("NewKeysAndCert", IdModel(1, 0, 0, 0, 0, 17)) >>]) >>

\* the remaining identity constructors: compressible padding generated by the library (no padding in the model), and the
\* private-key carrier (readable key-type pairs only; nil private keys are the documented defect)
IdModelNoPad(st, ct, dp, ds, salt) == [st |-> st, ct |-> ct, pub |-> SafeKey(Max(PubLenOf(ct) + dp, 0), salt), spk |-> SafeKey(Max(SpkLenOf(st) + ds, 0), salt + 1)]
ReadablePairs == << << 7, 4 >>, << 0, 0 >>, << 1, 0 >>, << 2, 4 >>, << 11, 4 >>, << 7, 0 >> >>
IdentVecs2 ==
  Cross2(<< << 7, 4 >>, << 0, 0 >>, << 1, 0 >>, << 2, 4 >>, << 11, 4 >>, << 7, 0 >>, << 8, 4 >>, << 7, 5 >>, << 3, 4 >>, << 65535, 0 >> >>, << << 0, 0 >>, << -1, 0 >>, << 0, 1 >> >>,
     LAMBDA p, d : One(B("NewRouterIdentityWithCompressiblePadding", IdModelNoPad(p[1], p[2], d[1], d[2], p[1] + p[2] + 3), "compressible")))
  \o SeqMap(LAMBDA p : One(B("NewPrivateKeysAndCert", IdModel(p[1], p[2], 0, 0, 0, p[1] + 7), "valid-sizes")), ReadablePairs)
  \o SeqMap(LAMBDA d : One(B("NewPrivateKeysAndCert", IdModel(7, 4, d[1], d[2], d[3], 9), "size-defect")),
            << << -1, 0, 0 >>, << 0, 1, 0 >>, << 0, 0, -1 >>, << 0, 0, 1 >> >>)
  \o << One(B("NewPrivateKeysAndCert", IdModel(7, 4, 0, 0, 0, 6) @@ [nilencpriv |-> TRUE], "nilpriv")),
        One(B("NewPrivateKeysAndCert", IdModel(0, 0, 0, 0, 0, 6) @@ [nilsigpriv |-> TRUE], "nilpriv")),
        One(B("NewCertificate", [type |-> 0], "null")) >>

(****************************** router addresses ****************************)
KeyA == << 97 >>  KeyB == << 98 >>  ValX == << 120 >>
MapSets ==
  << << >>, << << KeyA, << >> >> >>, << << KeyA, ValX >> >>, << << KeyB, ValX >>, << KeyA, ValX >> >>,
     << << << 104, 111, 115, 116 >>, << 49, 46, 50, 46, 51, 46, 52 >> >>, << << 112, 111, 114, 116 >>, << 56, 48 >> >> >>,
     << << Fill(255, 9), Fill(255, 4) >> >>, << << KeyA, << 61, 59 >> >>, << << 59, 61 >>, << 0, 255 >> >> >>,
     << << << >>, ValX >> >>, << << KeyB, ValX >>, << KeyA, << >> >>, << << 99 >>, << >> >> >>, CollisionPairs, PrefixPairs >>
Secs == << << >>, << 1 >>, << 101, 36, 248, 0 >>, << 127, 255, 255, 255 >>, << 255, 255, 255, 255 >>, << 1, 0, 0, 0, 0 >>, << 2, 37, 169, 53, 159 >> >>
RAddrVecs ==
  Cross3(<< 0, 10, 255 >>, << << 78, 84, 67, 80, 50 >>, << 83 >>, Fill(255, 8), << >>, Fill(256, 8) >>, MapSets, LAMBDA c, st, ps :
     One(B("NewRouterAddress", [cost |-> c, exp |-> << >>, expneg |-> FALSE, expns |-> 0, style |-> st, pairs |-> ps], "raddr")))
  \o Cross2(Secs, << 0, 999999, 1000000, 999999999 >>, LAMBDA s, ns :
     One(B("NewRouterAddress", [cost |-> 5, exp |-> PadTo(s, 8), expneg |-> FALSE, expns |-> ns, style |-> << 83, 83, 85, 50 >>, pairs |-> MapSets[3]], "raddr-exp")))

\* strings whose length in CHARACTERS is within the limit while their length in BYTES is at or over it (valid UTF-8, 2- and 3-byte sequences):
\* the length byte counts bytes
RepSeq(u, n) == IF n = 0 THEN << >> ELSE [i \in 1..(n * Len(u)) |-> u[((i - 1) % Len(u)) + 1]]
UStrs == << RepSeq(<< 195, 169 >>, 127) \o << 97 >>, RepSeq(<< 195, 169 >>, 128), RepSeq(<< 195, 169 >>, 200), RepSeq(<< 226, 130, 172 >>, 85), RepSeq(<< 226, 130, 172 >>, 86), RepSeq(<< 240, 159, 153, 130 >>, 64) >>
RAddrUVecs ==
  SeqMap(LAMBDA u : One(B("NewRouterAddress", [cost |-> 5, exp |-> << >>, expneg |-> FALSE, expns |-> 0, style |-> u, pairs |-> MapSets[3]], "raddr-utf8-style")), UStrs)
  \o SeqMap(LAMBDA u : One(B("NewRouterAddress", [cost |-> 5, exp |-> << >>, expneg |-> FALSE, expns |-> 0, style |-> << 83, 83, 85, 50 >>, pairs |-> << << KeyA, u >> >>], "raddr-utf8-value")), UStrs)
  \o SeqMap(LAMBDA u : One(B("NewRouterAddress", [cost |-> 5, exp |-> << >>, expneg |-> FALSE, expns |-> 0, style |-> << 83, 83, 85, 50 >>, pairs |-> << << u, ValX >>, << KeyB, ValX >> >>], "raddr-utf8-key")), UStrs)

\* "host" values in every spelling of an IP literal (uncompressed, upper case, IPv4-mapped, zone, leading zeros) and a name: an option value is
\* a string, and the constructor stores the string it was given
HostSpellings == << << 50, 48, 48, 49, 58, 100, 98, 56, 58, 48, 58, 48, 58, 48, 58, 48, 58, 48, 58, 49 >>, << 50, 48, 48, 49, 58, 68, 66, 56, 58, 58, 49 >>, << 58, 58, 102, 102, 102, 102, 58, 49, 57, 50, 46, 48, 46, 50, 46, 49 >>, << 48, 58, 48, 58, 48, 58, 48, 58, 48, 58, 48, 58, 48, 58, 49 >>, << 50, 48, 48, 49, 58, 100, 98, 56, 58, 58, 49 >>, << 102, 101, 56, 48, 58, 58, 49, 37, 101, 116, 104, 48 >>, << 101, 120, 97, 109, 112, 108, 101, 46, 105, 50, 112 >>, << 49, 46, 50, 46, 51, 46, 52 >>, << 58, 58, 70, 70, 70, 70, 58, 49, 46, 50, 46, 51, 46, 52 >>, << 50, 48, 48, 49, 58, 48, 100, 98, 56, 58, 48, 48, 48, 48, 58, 48, 48, 48, 48, 58, 48, 48, 48, 48, 58, 48, 48, 48, 48, 58, 48, 48, 48, 48, 58, 48, 48, 48, 49 >> >>
RAddrHostVecs ==
  Cross2(HostSpellings, << << 78, 84, 67, 80, 50 >>, << 83, 83, 85, 50 >> >>, LAMBDA h, st :
     One(B("NewRouterAddress", [cost |-> 5, exp |-> << >>, expneg |-> FALSE, expns |-> 0, style |-> st,
                                pairs |-> << << << 104, 111, 115, 116 >>, h >>, << << 112, 111, 114, 116 >>, << 48, 56, 48 >> >>, << << 99, 97, 112, 115 >>, << 66, 67 >> >> >>], "raddr-host-spelling")))

(****************************** leases **************************************)
Tids == << << 0, 0, 0, 0 >>, << 0, 0, 0, 1 >>, << 255, 255, 255, 255 >>, << 18, 52, 86, 120 >> >>
LeaseSecs == Secs \o << << 255, 255, 255, 254 >>, << 1, 0, 0, 0, 1 >>, << 0, 0, 0, 7, 65, 91, 238, 128 >> >>
LeaseVecs ==
  Cross3(<< "NewLease", "NewLease2" >>, Tids, LeaseSecs, LAMBDA fn, tid, s :
     One(B(fn, [gw |-> Fill(32, 7), tid |-> tid, sec |-> PadTo(s, 8), neg |-> FALSE, ns |-> 0], "lease")))
  \o Cross2(<< "NewLease", "NewLease2" >>, << 1, 999999, 1000000, 500000000, 999999999 >>, LAMBDA fn, ns :
     One(B(fn, [gw |-> Fill(32, 8), tid |-> Tids[4], sec |-> PadTo(Secs[3], 8), neg |-> FALSE, ns |-> ns], "lease-ns")))
  \o Cross2(<< "NewLease", "NewLease2" >>, << << 1 >>, << 1, 0, 0, 0, 0 >> >>, LAMBDA fn, s :
     One(B(fn, [gw |-> Fill(32, 9), tid |-> Tids[4], sec |-> PadTo(s, 8), neg |-> TRUE, ns |-> 0], "lease-negative")))
  \* instants just before the epoch (negative seconds with a sub-second part) and astronomically large second counts
  \* (2^61 + x, 2^62, 2^63 - 1, -2^63): arithmetic on derived units must not fold them back into range
  \o Cross2(<< "NewLease", "NewLease2" >>, << 1, 500000000, 999999999 >>, LAMBDA fn, ns :
     One(B(fn, [gw |-> Fill(32, 9), tid |-> Tids[4], sec |-> PadTo(<< 1 >>, 8), neg |-> TRUE, ns |-> ns], "lease-just-before-epoch")))
  \o Cross2(<< "NewLease", "NewLease2" >>, << << 64, 0, 0, 0, 0, 0, 0, 0 >>, << 32, 0, 0, 0, 101, 83, 241, 0 >>, << 127, 255, 255, 255, 255, 255, 255, 255 >>,
                                              << 0, 32, 196, 155, 165, 227, 83, 248 >>, << 0, 0, 0, 1, 0, 0, 0, 0 >>, << 0, 65, 137, 55, 75, 198, 167, 240 >> >>, LAMBDA fn, s :
     One(B(fn, [gw |-> Fill(32, 9), tid |-> Tids[4], sec |-> s, neg |-> FALSE, ns |-> 0], "lease-huge")))
  \o Cross2(<< "NewLease", "NewLease2" >>, << << 128, 0, 0, 0, 0, 0, 0, 0 >>, << 64, 0, 0, 0, 0, 0, 0, 0 >> >>, LAMBDA fn, s :
     One(B(fn, [gw |-> Fill(32, 9), tid |-> Tids[4], sec |-> s, neg |-> TRUE, ns |-> 0], "lease-huge-negative")))
  \o [k \in 1..(IF Thorough THEN 200 ELSE 10) |->
       One(B(IF k % 2 = 0 THEN "NewLease" ELSE "NewLease2",
             [gw |-> Rnd(Seed, 32, k), tid |-> Rnd(Seed, 4, k + 1), sec |-> PadTo(Rnd(Seed, (k % 5) + 1, k + 2), 8), neg |-> FALSE, ns |-> RndNat(Seed, k, 1000000000)], "lease-rnd"))]

(****************************** offline signatures **************************)
OffT == << 0, 1, 2, 3, 4, 7, 8, 11, 9, 65535 >>
OffModel(ex, tst, dst, dk, dsg) ==
  [expires |-> ex, tst |-> tst, dst |-> dst, tkey |-> Fill(Max((IF SigKnown(tst) THEN SigPubLen(tst) ELSE 32) + dk, 0), 3),
   sig |-> Fill(Max((IF SigKnown(dst) THEN SigLen(dst) ELSE 64) + dsg, 0), 4)]
OffVecs ==
  Cross2(OffT, OffT, LAMBDA tst, dst : One(B("NewOfflineSignature", OffModel(<< 101, 36, 248, 0 >>, tst, dst, 0, 0), "off")))
  \o SeqMap(LAMBDA ex : One(B("NewOfflineSignature", OffModel(ex, 7, 7, 0, 0), "off-expires")),
            << << 0, 0, 0, 0 >>, << 0, 0, 0, 1 >>, << 127, 255, 255, 255 >>, << 128, 0, 0, 0 >>, << 255, 255, 255, 255 >> >>)
  \o SeqMap(LAMBDA d : One(B("NewOfflineSignature", OffModel(<< 101, 36, 248, 0 >>, 7, 7, d[1], d[2]), "off-size-defect")),
            << << -1, 0 >>, << 1, 0 >>, << 0, -1 >>, << 0, 1 >> >>)

(****************************** LeaseSet2 ************************************)
KeyModels == << [type |-> 4, len |-> 32, data |-> Fill(32, 1)], [type |-> 0, len |-> 256, data |-> Fill(256, 2)], [type |-> 5, len |-> 32, data |-> Fill(32, 3)],
                [type |-> 65280, len |-> 7, data |-> Fill(7, 4)] >>
BadKeyModels == << [type |-> 4, len |-> 31, data |-> Fill(31, 1)], [type |-> 4, len |-> 32, data |-> Fill(31, 1)], [type |-> 0, len |-> 32, data |-> Fill(32, 1)] >>
NK(n) == [i \in 1..n |-> KeyModels[((i - 1) % 3) + 1]]
NL(n) == [i \in 1..n |-> EncLease2(i, Tids[(i % 4) + 1], << 101, 36, 248, i >>)]
LS2Model(st, ct, flags, off, pairs, keys, leases) ==
  [dest |-> IdModel(st, ct, 0, 0, 0, st + ct), published |-> << 101, 36, 248, 0 >>, expires |-> 600, flags |-> flags, pairs |-> pairs, keys |-> keys, leases |-> leases]
  @@ (IF off THEN [off |-> OffModel(<< 101, 36, 250, 0 >>, 7, st, 0, 0)] ELSE << >>)
LS2Vecs ==
  Cross2(<< << 7, 4 >>, << 0, 0 >>, << 1, 0 >>, << 2, 0 >>, << 11, 4 >>, << 7, 0 >> >>, << 0, 1, 2, 3, 4, 6 >>, LAMBDA p, f :
     One(B("NewLeaseSet2", LS2Model(p[1], p[2], f, f % 2 = 1, MapSets[3], NK(1), NL(1)), "ls2")))
  \o SeqMap(LAMBDA ps : One(B("NewLeaseSet2", LS2Model(7, 4, 0, FALSE, ps, NK(1), NL(1)), "ls2-opts")), MapSets)
  \o SeqMap(LAMBDA n : One(B("NewLeaseSet2", LS2Model(7, 4, 0, FALSE, << >>, NK(n), NL(1)), "ls2-nk")), << 0, 1, 2, 3, 16, 17 >>)
  \o SeqMap(LAMBDA n : One(B("NewLeaseSet2", LS2Model(7, 4, 0, FALSE, << >>, NK(1), NL(n)), "ls2-nl")), << 0, 1, 2, 16, 17 >>)
  \o SeqMap(LAMBDA k : One(B("NewLeaseSet2", LS2Model(7, 4, 0, FALSE, << >>, << k >>, NL(1)), "ls2-key")), KeyModels \o BadKeyModels)
  \* key data whose length agrees with the two-byte length field only modulo 65536
  \o SeqMap(LAMBDA k : One(B("NewLeaseSet2", LS2Model(7, 4, 0, FALSE, << >>, << k >>, NL(1)), "ls2-key-wrapped-length")),
            << [type |-> 4, len |-> 32, data |-> Fill(65536 + 32, 1)], [type |-> 65280, len |-> 7, data |-> Fill(65536 + 7, 4)], [type |-> 0, len |-> 256, data |-> Fill(65536 + 256, 2)] >>)
  \* a wrong-length key behind / before / between other keys, including keys of unknown type (nothing to check for those)
  \o Concat(SeqMap(LAMBDA b : << One(B("NewLeaseSet2", LS2Model(7, 4, 0, FALSE, << >>, << KeyModels[4], b >>, NL(1)), "ls2-keys-unknown-then-bad")),
                                  One(B("NewLeaseSet2", LS2Model(7, 4, 0, FALSE, << >>, << KeyModels[1], b >>, NL(1)), "ls2-keys-good-then-bad")),
                                  One(B("NewLeaseSet2", LS2Model(7, 4, 0, FALSE, << >>, << b, KeyModels[1] >>, NL(1)), "ls2-keys-bad-then-good")),
                                  One(B("NewLeaseSet2", LS2Model(7, 4, 0, FALSE, << >>, << KeyModels[4], KeyModels[1], KeyModels[4], b >>, NL(1)), "ls2-keys-bad-last-of-4")) >>,
                    BadKeyModels))
  \o << One(B("NewLeaseSet2", LS2Model(7, 4, 0, FALSE, << >>, << KeyModels[4], KeyModels[1] >>, NL(1)), "ls2-keys-unknown-then-good")) >>
  \* options handed over as a Mapping that was PARSED from unsorted / reversed wire order (the constructors of Mapping always sort)
  \o SeqMap(LAMBDA ps : One(B("NewLeaseSet2", LS2Model(7, 4, 0, FALSE, ps, NK(1), NL(1)) @@ [rawopts |-> TRUE], "ls2-rawopts")),
            << MapSets[4], << << << 122 >>, ValX >>, << KeyA, ValX >>, << << 109 >>, ValX >> >>, MapSets[3], CollisionPairs >>)
  \o << One(B("NewLeaseSet2", LS2Model(7, 4, 1, FALSE, << >>, NK(1), NL(1)), "ls2-flag-without-offline")),
        One(B("NewLeaseSet2", LS2Model(7, 4, 0, TRUE, << >>, NK(1), NL(1)), "ls2-offline-without-flag")),
        One(B("NewLeaseSet2", LS2Model(7, 4, 8, FALSE, << >>, NK(1), NL(1)), "ls2-reserved-flag")),
        One(B("NewLeaseSet2", LS2Model(7, 4, 32768, FALSE, << >>, NK(1), NL(1)), "ls2-reserved-flag")) >>

(****************************** mappings ************************************)
Lens == << 0, 1, 2, 5, 254, 255 >>
Str(n, salt) == IF n = 0 THEN << >> ELSE << (salt % 200) + 33 >> \o Fill(n - 1, salt)
\* n pairs with distinct keys (index encoded in the key), key/value lengths from the dimension lists
NPairs(n, kl, vl) == [i \in 1..n |-> << (IF kl >= 2 THEN BE16(i) \o Fill(kl - 2, i) ELSE IF kl = 1 THEN << i % 256 >> ELSE << >>), Str(vl, i) >>]
BM(fn, pairs, reps, cls) == One([op |-> "BuildMapping", fn |-> fn, pairs |-> pairs, reps |-> reps, cls |-> cls])
MapFns == << "GoMapToMapping", "ValuesToMapping" >>
MappingVecs ==
  Cross2(MapFns, MapSets, LAMBDA fn, ps : BM(fn, ps, 20, "small"))
  \o Cross3(MapFns, Lens, Lens, LAMBDA fn, kl, vl : BM(fn, NPairs(IF kl = 0 THEN 1 ELSE IF kl = 1 THEN 3 ELSE 4, kl, vl), 10, "lens"))
  \o Cross2(MapFns, << 16, 100 >> \o (IF Thorough THEN << 999, 1000, 1001 >> ELSE << >>), LAMBDA fn, n : BM(fn, NPairs(n, 2, 1), 3, "count" \o ToString(n)))
  \* string limit: 255 accepted, 256 rejected
  \o Cross2(MapFns, << 255, 256 >>, LAMBDA fn, n : BM(fn, << << Str(n, 1), ValX >> >>, 2, "keylen" \o ToString(n)))
  \o Cross2(MapFns, << 255, 256 >>, LAMBDA fn, n : BM(fn, << << KeyA, Str(n, 1) >> >>, 2, "vallen" \o ToString(n)))
  \o Cross2(MapFns, UStrs, LAMBDA fn, u : BM(fn, << << u, ValX >>, << KeyB, ValX >> >>, 2, "utf8key" \o ToString(Len(u))))
  \o Cross2(MapFns, UStrs, LAMBDA fn, u : BM(fn, << << KeyA, u >>, << KeyB, ValX >> >>, 2, "utf8val" \o ToString(Len(u))))
  \* total size: 127 pairs of 514 bytes = 65278, plus one pair of 4 + 2 + v
  \o Cross2(MapFns, << 250, 251, 252 >>, LAMBDA fn, v : BM(fn, NPairs(127, 255, 255) \o << << << 255, 255 >>, Str(v, 3) >> >>, 2, "total" \o ToString(65278 + 6 + v)))
  \* serialisations kept while other mappings are serialised
  \o << One([op |-> "Chain", fn |-> "Mapping.Data", kind |-> "mapping", cls |-> "data",
              items |-> SeqMap(LAMBDA ps : [pairs |-> ps], << MapSets[3], MapSets[5], MapSets[4], MapSets[2], NPairs(16, 2, 1), MapSets[3], MapSets[7], NPairs(3, 5, 5) >>)]) >>
  \* unicode and delimiter bytes
  \o SeqMap(LAMBDA fn : BM(fn, << << << 195, 169 >>, << 226, 130, 172 >> >>, << << 61 >>, << 59 >> >>, << << 59 >>, << 61 >> >>, << << 0 >>, << 255 >> >> >>, 20, "bytes"), MapFns)

\* "again": the driver makes the call, overwrites everything a caller can reach from the result, and makes the same call once
\* more; the event carries the second result (results are fresh: what a caller does to one result never shows in a later one)
AgainOps(ops) == SeqMap(LAMBDA o : IF o.op = "Build" THEN o @@ [again |-> TRUE] ELSE o, ops)
Again(vs) == vs \o SeqMap(LAMBDA v : [ops |-> AgainOps(v.ops)], SelectSeq(vs, LAMBDA v : \E i \in 1..Len(v.ops) : v.ops[i].op = "Build"))
Vecs0 == CASE Fam = "cert" -> CertVecs [] Fam = "keycert" -> KeyCertVecs [] Fam = "ident" -> IdentVecs \o IdentVecs2 \o IdentChainVecs [] Fam = "raddr" -> RAddrVecs \o RAddrHostVecs \o RAddrUVecs
          [] Fam = "lease" -> LeaseVecs [] Fam = "offsig" -> OffVecs [] Fam = "ls2" -> LS2Vecs [] Fam = "mapping" -> MappingVecs
          [] OTHER -> CertVecs \o KeyCertVecs \o IdentVecs \o IdentVecs2 \o RAddrVecs \o LeaseVecs \o OffVecs \o LS2Vecs \o MappingVecs
Vecs == Again(Vecs0)

VARIABLE done
Init == done = FALSE
Next == ~done /\ ndJsonSerialize(OutFile, Vecs) /\ PrintT(<< "GENERATED", Len(Vecs) >>) /\ done' = TRUE
=============================================================================
