------------------------------- MODULE J_C15 -------------------------------
(* C15: newest/oldest expiration are members of the leases and bound all others; expiry a day in the past/future. *)
EXTENDS Ref, Judge

JExtrema(e) ==
  LET r == e.r  ref == RefLeaseSet(e["in"])
      cls == IF "cls" \in DOMAIN e THEN e.cls ELSE "-"
      refDates == [i \in 1..ref.n |-> LeaseEnd(Slice(e["in"], ref.leaseOff + (i - 1) * LeaseLen, LeaseLen))] IN
  << R("C15", "extrema_dates_are_the_lease_dates", ref.ok /\ r.ok, r.dates = refDates, cls),
     R("C15", "newest_is_member_and_upper_bound", ref.ok /\ r.ok /\ ref.n >= 1,
       r.newest_ok /\ (\E i \in 1..ref.n : refDates[i] = r.newest) /\ \A i \in 1..ref.n : LeBE(refDates[i], r.newest), cls),
     R("C15", "oldest_is_member_and_lower_bound", ref.ok /\ r.ok /\ ref.n >= 1,
       r.oldest_ok /\ (\E i \in 1..ref.n : refDates[i] = r.oldest) /\ \A i \in 1..ref.n : LeBE(r.oldest, refDates[i]), cls) >>

JExpiryProbe(e) ==
  LET cls == e.fn \o "/" \o (IF "cls" \in DOMAIN e THEN e.cls ELSE "-") IN
  << R("C15", "expiry_a_day_in_the_past_is_expired", e.r.ok /\ e.delta <= -86400 /\ "abs" \notin DOMAIN e, e.r.expired, cls),
     R("C15", "expiry_a_day_in_the_future_is_not_expired", e.r.ok /\ e.delta >= 86400 /\ "abs" \notin DOMAIN e, ~e.r.expired, cls),
     \* no wrap-around: an exact expiry beyond 2^32 s (year 2106) is not over, one in 1970 is
     R("C15", "expiry_sum_does_not_wrap", e.r.ok /\ "expect" \in DOMAIN e /\ e.expect # "unknown", e.r.expired = (e.expect = "past"), cls),
     R("C15", "probe_parses", TRUE, e.r.ok, cls) >>
=============================================================================
