------------------------------ MODULE J_Tables ------------------------------
(* C10: every size lookup, for every 16-bit code, against the specification's table (Tables.tla). *)
EXTENDS Tables, Judge, Sequences

Z(v) == IF v < 0 THEN 0 ELSE v       \* lookups report 0 for unknown codes
B01(b) == IF b THEN 1 ELSE 0
\* the answers every lookup must give for code c (same order as the driver's tableTuple)
SpecTuple(c) ==
  LET sk == B01(SigKnown(c))  sp == Z(SigPubLen(c))  sl == Z(SigLen(c))
      ck == B01(CryptoKnown(c))  cp == Z(CryptoPubLen(c)) IN
  << sk, sp, sl,    \* SigningKeySizes
     sk, sp,        \* SignaturePublicKeySizes
     sk, sp,        \* GetSigningKeySize
     sk, sl,        \* GetSignatureSize
     sk, sp, sl,    \* GetKeySizes(c, 0)
     sp, sl,        \* KeyCertificate.SigningPublicKeySize / SignatureSize
     sk, sl,        \* signature.SignatureSize
     sp, sl,        \* offline_signature.SigningPublicKeySize / SignatureSize
     ck, cp,        \* CryptoKeySizes
     ck, cp,        \* CryptoPublicKeySizes
     ck, cp,        \* GetCryptoKeySize
     ck, cp,        \* GetKeySizes(0, c)
     cp, ck, cp >>  \* KeyCertificate.CryptoSize / CryptoPublicKeySize

JTables(e) ==
  LET runs == e.r.runs
      part == /\ Len(runs) >= 1 /\ runs[1][1] = e.from /\ runs[Len(runs)][2] = e.to
              /\ \A j \in 1..Len(runs) : runs[j][1] <= runs[j][2] /\ (j > 1 => runs[j][1] = runs[j - 1][2] + 1)
      bad == { j \in 1..Len(runs) : \E c \in runs[j][1]..runs[j][2] : runs[j][3] # SpecTuple(c) }
      firstBad == IF bad = {} THEN 0 ELSE CHOOSE j \in bad : \A k \in bad : j <= k
      cls == IF bad = {} THEN "ok" ELSE "code~" \o ToString(runs[firstBad][1])
  IN << R("C10", "lookup_runs_partition_code_space", TRUE, part, "partition"),
        R("C10", "every_lookup_agrees_with_specification_table", part, bad = {}, cls) >>
=============================================================================
