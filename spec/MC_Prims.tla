------------------------------ MODULE MC_Prims ------------------------------
(***************************************************************************)
(* Exhaustive check of the primitive codecs on the append graph: every     *)
(* byte string up to MaxW over Alpha is a state; the invariants are the    *)
(* C12 laws of the reference codec (the oracle must itself be an exact     *)
(* inverse pair, prefix-free and append-independent before it may judge).  *)
(***************************************************************************)
EXTENDS Prims, TLC

CONSTANTS MaxW, FullAlpha
Alpha == IF FullAlpha THEN 0..255 ELSE {0, 1, 2, 3, 9, 10, 58, 59, 61, 127, 128, 200, 232, 254, 255}

VARIABLE w
Init == w = << >>
Next == Len(w) < MaxW /\ \E b \in Alpha : w' = Append(w, b)

\* Integer: decode/encode are inverse for every admissible width, and only for those
RoundTrip ==
  /\ \A n \in IntWidths :
       /\ IntEncodable(DecInt(w), n) <=> Len(Norm(w)) <= n
       /\ IntEncodable(DecInt(w), n) => /\ Len(EncInt(DecInt(w), n)) = n
                                        /\ DecInt(EncInt(DecInt(w), n)) = DecInt(w)
                                        /\ (Len(w) = n => EncInt(DecInt(w), n) = w)
  /\ \A n \in {-1, 0, 9} : ~IntEncodable(DecInt(w), n)
  /\ Len(w) \in IntWidths => EncInt(DecInt(w), Len(w)) = w

\* Readers: extent within input, value complete, prefix-free, append-independent
ReaderContract ==
  LET r == RefReadString(w) IN
  /\ r.ok => /\ r.consumed <= Len(w)
             /\ IsCompleteString(Take(w, r.consumed))
             /\ \A k \in 0..(r.consumed - 1) : ~RefReadString(Take(w, k)).ok
             /\ \A b \in {0, 255} : RefReadString(Append(w, b)) = r
  /\ ~r.ok => \A k \in 0..Len(w) : ~RefReadString(Take(w, k)).ok
  /\ StringEncodable(w) /\ RefReadString(EncString(w)) = [ok |-> TRUE, consumed |-> Len(w) + 1]
  /\ \A n \in IntWidths : RefReadInt(w, n).ok <=> Len(w) >= n

\* exact arithmetic on limb sequences (the arithmetic every time predicate relies on)
LimbLaws ==
  LET a == w  b == Rep(Len(w), 255)  t == DateToTime(w) IN
  /\ SubBE(AddBE(a, b), b) = Norm(a)
  /\ AddBE(a, b) = AddBE(b, a)
  /\ DivModSmallBE(MulSmallBE(a, 1000), 1000) = << Norm(a), 0 >>
  /\ LET qr == DivModSmallBE(a, 1000) IN AddBE(MulSmallBE(qr[1], 1000), NatLimbs(qr[2])) = Norm(a) /\ qr[2] \in 0..999
  /\ TimeToDate(t[1], t[2]) = Norm(w)
  /\ t[2] \in {k * 1000000 : k \in 0..999}
  /\ CmpBE(a, a) = 0 /\ (Norm(a) # Norm(b) => CmpBE(a, b) = -CmpBE(b, a))
  /\ LeBE(a, AddBE(a, b))
  /\ (Len(Norm(a)) <= 3 => NatLimbs(LimbsNat(Norm(a))) = Norm(a))
  /\ FitsInt64(a)
=============================================================================
