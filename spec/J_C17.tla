------------------------------- MODULE J_C17 -------------------------------
(* C17: router-address host/port accessors against the IP-literal and decimal grammars (Net.tla) and exact-key lookup. *)
EXTENDS Net, Prims, Judge, TLC

\* value stored under exactly key k in the model pairs (distinct keys): [found, val]
Lookup(pairs, k) ==
  LET idx == { i \in 1..Len(pairs) : pairs[i][1] = k } IN
  IF idx = {} THEN [found |-> FALSE, val |-> << >>] ELSE [found |-> TRUE, val |-> pairs[CHOOSE i \in idx : TRUE][2]]
KHost == << 104, 111, 115, 116 >>   KPort == << 112, 111, 114, 116 >>   KS == << 115 >>   KI == << 105 >>

JRAddrAccess(e) ==
  LET r == e.r
      pairs == e.pairs
      host == Lookup(pairs, KHost)
      port == Lookup(pairs, KPort)
      ip == IF host.found THEN ParseIP(host.val) ELSE [ok |-> FALSE, fam |-> "", b |-> << >>]
      cls == e.via \o "/" \o (IF "cls" \in DOMAIN e THEN e.cls ELSE "-")
      built == r.built
  IN
  << R("C17", "host_succeeds_only_for_ip_literal", built /\ r.host_ok, host.found /\ ip.ok /\ ~r.host_zone, cls),
     R("C17", "host_returns_that_address", built /\ r.host_ok /\ ip.ok, r.host_ip = ip.b, cls),
     R("C17", "hasvalidhost_agrees_with_host", built, r.hasvalidhost = r.host_ok, cls),
     R("C17", "missing_or_empty_host_fails", built /\ (~host.found \/ Len(host.val) = 0), ~r.host_ok /\ ~r.hasvalidhost, cls),
     R("C17", "port_succeeds_only_for_decimal_1_65535", built /\ r.port_ok, port.found /\ PortOK(port.val), cls),
     R("C17", "port_returned_in_canonical_form", built /\ r.port_ok /\ port.found /\ PortOK(port.val), r.port = Digits(PortValue(port.val)), cls),
     R("C17", "hasvalidport_agrees_with_port", built, r.hasvalidport = r.port_ok, cls),
     R("C17", "plain_decimal_port_accepted", built /\ port.found /\ PortOK(port.val) /\ port.val = Digits(PortValue(port.val)), r.port_ok, cls),
     R("C17", "ipversion_agrees_with_address_family", built /\ r.host_ok /\ ip.ok,
       \* (an IPv4-mapped IPv6 literal may be classified either way, but the version has to be the family of the address Host() returned)
       CASE ip.fam = "4" -> r.ipversion = << 52 >> [] ip.fam = "6" -> r.ipversion = << 54 >>
         [] OTHER -> r.ipversion = (IF r.host_is4 THEN << 52 >> ELSE << 54 >>), cls),
     R("C17", "is4_agrees_with_literal", built /\ r.host_ok /\ ip.ok /\ ip.fam # "4or6", r.host_is4 = (ip.fam = "4"), cls),
     R("C17", "option_lookup_exact_key", built,
       \A i \in 1..Len(r.lookups) :
          LET m == Lookup(pairs, r.lookups[i].key) IN
          /\ r.lookups[i].found = m.found
          /\ (m.found => r.lookups[i].val = EncString(m.val))
          /\ r.lookups[i].check = m.found, cls),
     \* introducer helpers: ihN / iexpN / itagN for N in 0..2, any other number falls back to 0 (router_address/constants.go)
     R("C17", "introducer_lookup_exact_key", built /\ "intro" \in DOMAIN r,
       \A i \in 1..Len(r.intro) :
          LET n == IF r.intro[i].num \in 0..2 THEN r.intro[i].num ELSE 0
              V(prefix) == LET m == Lookup(pairs, prefix \o << 48 + n >>) IN IF m.found THEN EncString(m.val) ELSE << >> IN
          /\ r.intro[i].ih = V(<< 105, 104 >>) /\ r.intro[i].iexp = V(<< 105, 101, 120, 112 >>) /\ r.intro[i].itag = V(<< 105, 116, 97, 103 >>), cls),
     R("C17", "static_key_iff_32_bytes", built, r.static_ok = (Lookup(pairs, KS).found /\ Len(Lookup(pairs, KS).val) = 32)
                                               /\ (r.static_ok => r.static = Lookup(pairs, KS).val), cls),
     R("C17", "iv_iff_16_bytes", built, r.iv_ok = (Lookup(pairs, KI).found /\ Len(Lookup(pairs, KI).val) = 16)
                                        /\ (r.iv_ok => r.iv = Lookup(pairs, KI).val), cls) >>
=============================================================================
