------------------------------- MODULE J_C07 -------------------------------
(* C07: equality of identities coincides with byte equality; any differing byte changes hash and address. *)
EXTENDS Ref, Judge

JIdentityPair(e) ==
  LET cls == IF "cls" \in DOMAIN e THEN e.cls ELSE "-"
      ra == RefReadKAC(e.a)  rb == RefReadKAC(e.b)
      wireEq == Take(e.a, ra.consumed) = Take(e.b, rb.consumed) IN
  << R("C07", "destination_equals_iff_bytes_equal", e.r.dest_ok,
       LET d == e.r.dest IN d.eq_ab = (d.sera = d.serb) /\ d.eq_ba = d.eq_ab /\ d.eq_aa /\ (ra.ok /\ rb.ok => d.eq_ab = wireEq), "dest/" \o cls),
     R("C07", "destination_hash_is_sha256", e.r.dest_ok,
       LET d == e.r.dest IN d.hasha = d.shaa /\ d.hashb = d.shab, "dest/" \o cls),
     R("C07", "different_bytes_different_hash_and_address", e.r.dest_ok /\ ra.ok /\ rb.ok /\ ~wireEq,
       LET d == e.r.dest IN d.hasha # d.hashb /\ d.b32a # d.b32b /\ ~d.b64same /\ d.sera # d.serb, "dest/" \o cls),
     R("C07", "same_bytes_same_hash_and_address", e.r.dest_ok /\ ra.ok /\ rb.ok /\ wireEq,
       LET d == e.r.dest IN d.hasha = d.hashb /\ d.b32a = d.b32b /\ d.b64same, "dest/" \o cls),
     \* after an in-place change through the exported fields, hash and addresses are those of the bytes the value serialises to now
     R("C07", "hash_and_addresses_follow_in_place_change", e.r.dest_ok /\ "mut" \in DOMAIN e.r.dest /\ e.r.dest.mut.done /\ e.r.dest.mut.ser_changed,
       LET m == e.r.dest.mut IN m.hash = m.sha /\ m.b32 = B32Address(m.sha) /\ m.b64 = B64(m.ser), "dest/" \o cls),
     R("C07", "router_identity_equal_iff_bytes_equal", e.r.ri_ok,
       LET d == e.r.ri IN d.eq_ab = (d.sera = d.serb) /\ d.eq_ba = d.eq_ab /\ d.eq_aa /\ (ra.ok /\ rb.ok => d.eq_ab = wireEq), "ri/" \o cls) >>
=============================================================================
