------------------------------ MODULE Gen_C15 ------------------------------
(* Lease sets with every ordering of up to 4 distinct dates, duplicates and seeded orders of 16; expiry probes a day either side of now. *)
EXTENDS Enc, Ref, GenUtil, TLC, Json
CONSTANTS Tier, Seed, OutFile
Thorough == Tier = "thorough"
Dates == << << 0, 0, 1, 138, 207, 146, 32, 0 >>, << 0, 0, 1, 138, 207, 146, 32, 1 >>, Zeros(8), << 127, 255, 255, 255, 255, 255, 255, 255 >>,
            << 0, 0, 0, 0, 0, 0, 0, 1 >>, << 0, 0, 0, 0, 255, 255, 255, 255 >>, << 0, 0, 0, 1, 0, 0, 0, 0 >>, << 127, 255, 255, 255, 255, 255, 255, 254 >> >>   \* all below 2^63 (the property's domain)
\* all sequences of length n over indices 1..k (k^n orders incl. duplicates)
RECURSIVE Exp(_, _)
Exp(b, x) == IF x = 0 THEN 1 ELSE b * Exp(b, x - 1)
Seqs(n, k) == [i \in 1..Exp(k, n) |-> [j \in 1..n |-> (((i - 1) \div Exp(k, j - 1)) % k) + 1]]
LS(dateIdx, salt) ==
  EncLeaseSet(EncIdentity("key", 7, 4, salt), 7, Len(dateIdx), [i \in 1..Len(dateIdx) |-> EncLease(salt + i, << 0, 0, 0, i >>, Dates[dateIdx[i]])], salt + 9)
ExtremaVecs ==
  Concat([n \in 1..(IF Thorough THEN 4 ELSE 3) |-> SeqMap(LAMBDA sq : [ops |-> << [op |-> "Extrema", fn |-> "ReadLeaseSet", in |-> LS(sq, n), cls |-> "n=" \o ToString(n)] >>], Seqs(n, 4))])
  \o [k \in 1..(IF Thorough THEN 300 ELSE 30) |->
        [ops |-> << [op |-> "Extrema", fn |-> "ReadLeaseSet", in |-> LS([j \in 1..((k % 16) + 1) |-> RndNat(Seed, k * 17 + j, 8) + 1], k), cls |-> "rnd"] >>]]

T0 == << 0, 0, 0, 0 >>
OffT == EncOffline(T0, 7, 7, 3)
LS2W == EncLS2(EncIdentity("key", 7, 4, 1), T0, << 2, 88 >>, 0, << >>, << >>, 1, << EncEncKey(4, 32, Fill(32, 2)) >>, 1, << EncLease2(3, T0, T0) >>, 7, 4)
LS2R == RefLeaseSet2(LS2W)
MetaW == EncMeta(EncIdentity("key", 7, 4, 1), T0, << 2, 88 >>, 0, << >>, << >>, 1, << EncMetaEntry(5, 3, T0, 1, << >>) >>, 7, 4)
ELSW == EncELS(11, T0, << 2, 88 >>, 0, << >>, 100, Fill(100, 2), 11, 3)
Probe(fn, w, off, width, unit, minus, extra, cls) ==
  [ops |-> [k \in 1..4 |-> [op |-> "ExpiryProbe", fn |-> fn, in |-> w, off |-> off, width |-> width, unit |-> unit, minus |-> minus,
                            delta |-> << -172800, -86400, 86400, 172800 >>[k], cls |-> cls] @@ extra]]
ProbeVecs ==
  << Probe("ReadLease", EncLease(1, T0, Zeros(8)), HashLen + 4, 8, "ms", 0, << >>, "lease"),
     Probe("ReadLease2", EncLease2(1, T0, T0), HashLen + 4, 4, "s", 0, << >>, "lease2"),
     Probe("ReadOfflineSignature", OffT, 0, 4, "s", 0, [typ |-> 7], "offline"),
     Probe("ReadLeaseSet2", LS2W, LS2R.h.d.consumed, 4, "s", 600, << >>, "ls2"),
     Probe("ReadMetaLeaseSet", MetaW, LS2R.h.d.consumed, 4, "s", 600, << >>, "meta"),
     Probe("ReadEncryptedLeaseSet", ELSW, 2 + SigPubLen(11), 4, "s", 600, << >>, "els") >>
\* absolute instants at the ends of the wire range: published + expires beyond 2^32 s (year 2106, certainly still ahead) must not wrap into the
\* past; published + expires in 1970 is certainly over.  expect: what IsExpired has to answer, decided here from the exact (limb) sum.
AbsProbe(fn, w, off, pub4, exp2, cls) ==
  LET sum == AddBE(pub4, exp2)            \* exact, may need 5 bytes
      beyond == Len(Norm(sum)) > 4 \/ ~LtBE(Norm(sum), << 255, 255, 0, 0 >>)
      early == LtBE(Norm(sum), << 1, 0, 0, 0 >>) IN
  [ops |-> << [op |-> "ExpiryProbe", fn |-> fn, in |-> w, off |-> off, width |-> 4, unit |-> "s", minus |-> 0, delta |-> 0, abs |-> pub4,
               off2 |-> off + 4, abs2 |-> exp2, expect |-> (IF beyond THEN "future" ELSE IF early THEN "past" ELSE "unknown"), cls |-> cls] >>]
AbsPairs == << << << 255, 255, 255, 255 >>, << 0, 1 >> >>, << << 255, 255, 255, 255 >>, << 255, 255 >> >>, << << 255, 255, 0, 1 >>, << 255, 255 >> >>,
              << << 255, 255, 255, 0 >>, << 1, 0 >> >>, << << 255, 255, 255, 254 >>, << 0, 1 >> >>, << << 0, 0, 0, 0 >>, << 0, 1 >> >>, << << 0, 0, 0, 1 >>, << 255, 255 >> >>,
              << << 0, 255, 255, 255 >>, << 0, 1 >> >> >>
AbsVecs ==
  Concat(SeqMap(LAMBDA p : << AbsProbe("ReadLeaseSet2", LS2W, LS2R.h.d.consumed, p[1], p[2], "ls2-abs"),
                              AbsProbe("ReadMetaLeaseSet", MetaW, LS2R.h.d.consumed, p[1], p[2], "meta-abs"),
                              AbsProbe("ReadEncryptedLeaseSet", ELSW, 2 + SigPubLen(11), p[1], p[2], "els-abs") >>, AbsPairs))
Vecs == ExtremaVecs \o ProbeVecs \o AbsVecs
VARIABLE done
Init == done = FALSE
Next == ~done /\ ndJsonSerialize(OutFile, Vecs) /\ PrintT(<< "GENERATED", Len(Vecs) >>) /\ done' = TRUE
=============================================================================
