------------------------------ MODULE GenUtil ------------------------------
(* Helpers for building sequences of vectors (behaviours to replay). *)
EXTENDS Integers, Sequences

SeqMap(F(_), s) == [i \in 1..Len(s) |-> F(s[i])]
Cross2(A, B, F(_, _)) ==
  [k \in 1..(Len(A) * Len(B)) |-> F(A[((k - 1) \div Len(B)) + 1], B[((k - 1) % Len(B)) + 1])]
Cross3(A, B, C, F(_, _, _)) ==
  [k \in 1..(Len(A) * Len(B) * Len(C)) |->
     F(A[((k - 1) \div (Len(B) * Len(C))) + 1],
       B[(((k - 1) \div Len(C)) % Len(B)) + 1],
       C[((k - 1) % Len(C)) + 1])]
Cross4(A, B, C, D, F(_, _, _, _)) ==
  [k \in 1..(Len(A) * Len(B) * Len(C) * Len(D)) |->
     F(A[((k - 1) \div (Len(B) * Len(C) * Len(D))) + 1],
       B[(((k - 1) \div (Len(C) * Len(D))) % Len(B)) + 1],
       C[(((k - 1) \div Len(D)) % Len(C)) + 1],
       D[((k - 1) % Len(D)) + 1])]
Range(a, b) == [i \in 1..(b - a + 1) |-> a + i - 1]
Concat(ss) == LET F[i \in 0..Len(ss)] == IF i = 0 THEN << >> ELSE F[i - 1] \o ss[i] IN F[Len(ss)]
\* keep the elements satisfying P
RECURSIVE FilterSeq(_, _, _)
FilterSeq(s, P(_), i) == IF i > Len(s) THEN << >> ELSE (IF P(s[i]) THEN << s[i] >> ELSE << >>) \o FilterSeq(s, P, i + 1)
Filter(s, P(_)) == SelectSeq(s, P)
\* deterministic pseudo-random bytes: n bytes for stream k under seed sd
Rnd(sd, n, k) == [i \in 1..n |-> (((sd % 65521) * 131 + k * 31 + i * i * 17 + i * k * 7 + 89) % 256)]
RndNat(sd, k, m) == (((sd % 65521) * 197 + k * 7919 + 13) % m)
=============================================================================
