---- MODULE MC_Cache_TTrace_1790923110 ----
EXTENDS Sequences, TLCExt, Toolbox, Naturals, TLC, MC_Cache

_expression ==
    LET MC_Cache_TEExpression == INSTANCE MC_Cache_TEExpression
    IN MC_Cache_TEExpression!expression
----

_trace ==
    LET MC_Cache_TETrace == INSTANCE MC_Cache_TETrace
    IN MC_Cache_TETrace!trace
----

_inv ==
    ~(
        TLCGet("level") = Len(_TETrace)
        /\
        last = ([hash |-> [key |-> 0, padding |-> 1, options |-> 0], ser |-> [none |-> TRUE], family |-> [none |-> TRUE]])
        /\
        memo = ([hash |-> [key |-> 0, padding |-> 1, options |-> 0], ser |-> [key |-> 0, padding |-> 1, options |-> 0], family |-> [options |-> 0]])
        /\
        fields = ([key |-> 0, padding |-> 0, options |-> 0])
        /\
        steps = (2)
    )
----

_init ==
    /\ fields = _TETrace[1].fields
    /\ last = _TETrace[1].last
    /\ memo = _TETrace[1].memo
    /\ steps = _TETrace[1].steps
----

_next ==
    /\ \E i,j \in DOMAIN _TETrace:
        /\ \/ /\ j = i + 1
              /\ i = TLCGet("level")
        /\ fields  = _TETrace[i].fields
        /\ fields' = _TETrace[j].fields
        /\ last  = _TETrace[i].last
        /\ last' = _TETrace[j].last
        /\ memo  = _TETrace[i].memo
        /\ memo' = _TETrace[j].memo
        /\ steps  = _TETrace[i].steps
        /\ steps' = _TETrace[j].steps

\* Uncomment the ASSUME below to write the states of the error trace
\* to the given file in Json format. Note that you can pass any tuple
\* to `JsonSerialize`. For example, a sub-sequence of _TETrace.
    \* ASSUME
    \*     LET J == INSTANCE Json
    \*         IN J!JsonSerialize("MC_Cache_TTrace_1790923110.json", _TETrace)

=============================================================================

 Note that you can extract this module `MC_Cache_TEExpression`
  to a dedicated file to reuse `expression` (the module in the 
  dedicated `MC_Cache_TEExpression.tla` file takes precedence 
  over the module `MC_Cache_TEExpression` below).

---- MODULE MC_Cache_TEExpression ----
EXTENDS Sequences, TLCExt, Toolbox, Naturals, TLC, MC_Cache

expression == 
    [
        \* To hide variables of the `MC_Cache` spec from the error trace,
        \* remove the variables below.  The trace will be written in the order
        \* of the fields of this record.
        fields |-> fields
        ,last |-> last
        ,memo |-> memo
        ,steps |-> steps
        
        \* Put additional constant-, state-, and action-level expressions here:
        \* ,_stateNumber |-> _TEPosition
        \* ,_fieldsUnchanged |-> fields = fields'
        
        \* Format the `fields` variable as Json value.
        \* ,_fieldsJson |->
        \*     LET J == INSTANCE Json
        \*     IN J!ToJson(fields)
        
        \* Lastly, you may build expressions over arbitrary sets of states by
        \* leveraging the _TETrace operator.  For example, this is how to
        \* count the number of times a spec variable changed up to the current
        \* state in the trace.
        \* ,_fieldsModCount |->
        \*     LET F[s \in DOMAIN _TETrace] ==
        \*         IF s = 1 THEN 0
        \*         ELSE IF _TETrace[s].fields # _TETrace[s-1].fields
        \*             THEN 1 + F[s-1] ELSE F[s-1]
        \*     IN F[_TEPosition - 1]
    ]

=============================================================================



Parsing and semantic processing can take forever if the trace below is long.
 In this case, it is advised to uncomment the module below to deserialize the
 trace from a generated binary file.

\*
\*---- MODULE MC_Cache_TETrace ----
\*EXTENDS IOUtils, TLC, MC_Cache
\*
\*trace == IODeserialize("MC_Cache_TTrace_1790923110.bin", TRUE)
\*
\*=============================================================================
\*

---- MODULE MC_Cache_TETrace ----
EXTENDS TLC, MC_Cache

trace == 
    <<
    ([last |-> [hash |-> [none |-> TRUE], ser |-> [none |-> TRUE], family |-> [none |-> TRUE]],memo |-> [hash |-> [key |-> 0, padding |-> 1, options |-> 0], ser |-> [key |-> 0, padding |-> 1, options |-> 0], family |-> [options |-> 0]],fields |-> [key |-> 0, padding |-> 1, options |-> 0],steps |-> 0]),
    ([last |-> [hash |-> [none |-> TRUE], ser |-> [none |-> TRUE], family |-> [none |-> TRUE]],memo |-> [hash |-> [key |-> 0, padding |-> 1, options |-> 0], ser |-> [key |-> 0, padding |-> 1, options |-> 0], family |-> [options |-> 0]],fields |-> [key |-> 0, padding |-> 0, options |-> 0],steps |-> 1]),
    ([last |-> [hash |-> [key |-> 0, padding |-> 1, options |-> 0], ser |-> [none |-> TRUE], family |-> [none |-> TRUE]],memo |-> [hash |-> [key |-> 0, padding |-> 1, options |-> 0], ser |-> [key |-> 0, padding |-> 1, options |-> 0], family |-> [options |-> 0]],fields |-> [key |-> 0, padding |-> 0, options |-> 0],steps |-> 2])
    >>
----


=============================================================================

---- CONFIG MC_Cache_TTrace_1790923110 ----
CONSTANTS
    Variant = "at-birth"
    MaxSteps = 5

INVARIANT
    _inv

CHECK_DEADLOCK
    \* CHECK_DEADLOCK off because of PROPERTY or INVARIANT above.
    FALSE

INIT
    _init

NEXT
    _next

CONSTANT
    _TETrace <- _trace

ALIAS
    _expression
=============================================================================
\* Generated on Fri Oct 02 06:38:30 UTC 2026