----------------------------- MODULE J_WarmEdit -----------------------------
(***************************************************************************)
(* WarmEdit events: a value whose reachable field was given another        *)
(* accepted value's content AFTER all its queries had been called once     *)
(* must answer every query exactly like a value that received the same     *)
(* content before any query was called.  r.stale lists (place, method)     *)
(* pairs that answered differently.  The methods decide the property:      *)
(*   hashes / addresses / equality                 -> C07                  *)
(*   serialisation of an identity (block layout)   -> C10 (and C01)        *)
(*   host / port / family / option queries         -> C17                  *)
(*   anything                                      -> X06 (extension family)        *)
(***************************************************************************)
EXTENDS Judge, Sequences
HashLike == {"Hash", "IdentHash", "Base32Address", "Base64", "Base32", "String"}
SerLike == {"Bytes", "Data", "Serialize", "RawBytes"}
NetLike == {"IPVersion", "Host", "Port", "Network", "HostString", "PortString", "HasValidHost", "HasValidPort", "UDP", "CapsString", "StaticKey", "StaticKeyString",
            "InitializationVector", "InitializationVectorString", "ProtocolVersion", "ProtocolVersionString", "IntroducerHashString", "IntroducerExpirationString",
            "IntroducerTagString", "Options", "TransportStyle", "GetOption", "CheckOption"}
NoneIn(stale, S) == \A i \in 1..Len(stale) : stale[i].method \notin S
JWarmEdit(e) ==
  LET r == e.r  cls == e.fn \o "/" \o e.cls  live == r.setup /\ r.nplaces > 0
      HasSib == r.setup /\ "nsibling" \in DOMAIN r /\ r.nsibling > 0 IN
  << R("X06", "warm_edit_set_up", TRUE, live, cls),
     R("X06", "queries_follow_edits_made_through_exported_fields", live, Len(r.stale) = 0, cls),
     R("C07", "hash_and_addresses_follow_edits_made_through_exported_fields", live, NoneIn(r.stale, HashLike), cls),
     R("C10", "serialised_block_follows_edits_made_through_exported_fields", live /\ e.family = "ident", NoneIn(r.stale, SerLike), cls),
     R("C01", "serialisation_follows_edits_made_through_exported_fields", live, NoneIn(r.stale, SerLike), cls),
     R("C17", "address_queries_follow_edits_made_through_exported_fields", live /\ e.family = "raddr", NoneIn(r.stale, NetLike), cls),
     \* a struct copy of the value, edited through an exported field, queried and serialised: the original and its input buffer do not notice
     R("C01", "serialisation_unaffected_by_serialising_an_edited_copy", HasSib, NoneIn(r.sibling, SerLike), cls),
     R("C02", "answers_unaffected_by_serialising_an_edited_copy", HasSib, Len(r.sibling) = 0, cls),
     R("C08", "input_buffer_unaffected_by_serialising_an_edited_copy", HasSib, r.sibling_in_same, cls) >>
=============================================================================
