------------------------------ MODULE Gen_C19 ------------------------------
(* Constructor twins of the primitives: same arguments through both entry points (judged pairwise by JTwinCtor). *)
EXTENDS Prims, GenUtil, TLC, Json
CONSTANTS Tier, Seed, OutFile
Vals == << << >>, << 1 >>, << 255 >>, << 1, 0 >>, << 255, 255 >>, << 1, 0, 0 >>, Rep(7, 255), << 127, 255, 255, 255, 255, 255, 255, 255 >> >>
        \o [k \in 1..20 |-> Rnd(Seed, (k % 7) + 1, k)]
IntVecs == Cross2(Vals, Range(-1, 9), LAMBDA v, sz : [op |-> "CtorTwins", fn |-> "int", v |-> PadTo(v, 8), size |-> sz])
StrVecs == SeqMap(LAMBDA n : [op |-> "CtorTwins", fn |-> "str", s |-> Rnd(Seed, n, n)], << 0, 1, 2, 100, 254, 255, 256, 300 >>)
Vecs == IntVecs \o StrVecs
VARIABLE done
Init == done = FALSE
Next == ~done /\ ndJsonSerialize(OutFile, Vecs) /\ PrintT(<< "GENERATED", Len(Vecs) >>) /\ done' = TRUE
=============================================================================
