------------------------------- MODULE J_C06 -------------------------------
(***************************************************************************)
(* C06: whatever the library's signing constructors produce verifies       *)
(* (by the library, and independently under the matching public key over   *)
(* prefix ++ everything before the trailing signature), before and after   *)
(* the wire; plus the constructor / Validate / parser lifecycle (C14) and  *)
(* the decoded content (C02) of the produced bytes.                        *)
(***************************************************************************)
EXTENDS J_C05

ReaderOf(fn) == CASE fn = "NewRouterInfo" -> "ReadRouterInfo" [] fn = "NewLeaseSet" -> "ReadLeaseSet" [] fn = "NewLeaseSet2" -> "ReadLeaseSet2"
                  [] fn = "NewEncryptedLeaseSet" -> "ReadEncryptedLeaseSet" [] OTHER -> "ReadOfflineSignature"
JSignBuild(e) ==
  LET r == e.r  m == e.m
      rd == ReaderOf(e.fn)
      sl == IF r.setup /\ r.ok /\ r.serok THEN SlotsOf(rd, r.ser, e.st) ELSE NoSlots
      tst == IF "tst" \in DOMAIN m THEN m.tst ELSE -1
      optcls == IF "pairs" \in DOMAIN m THEN BodyClass(SerBody(SortPairs(m.pairs))) ELSE "-"
      cls == e.fn \o "/st=" \o ToString(e.st) \o (IF tst >= 0 THEN "/tst=" \o ToString(tst) ELSE "") \o "/opts=" \o optcls
      built == r.setup /\ r.ok
      declared == IF "declst" \in DOMAIN m THEN m.declst ELSE e.st        \* the signing type the identity declares
      matching == "edsigner" \notin DOMAIN m /\ declared = e.st      \* the signing key is the one the structure announces (C06 speaks of matching keys only)
  IN
  << R("C06", "probe_set_up", TRUE, r.setup, cls),
     R("C06", "trailing_signature_is_reference_layout", built /\ r.serok /\ sl.ok /\ matching,
       sl.sigoff = Len(r.ser) - e.siglen /\ sl.siglen = e.siglen /\ e.prefix = StoreTypePrefix(rd), cls),
     R("C06", "library_signed_structure_verifies", built /\ matching, r.verify_ok, cls),
     R("C06", "library_signature_valid_under_matching_key", built /\ r.serok /\ matching, r.indep_ok, cls),
     R("C06", "still_verifies_after_serialise_and_parse", built /\ r.serok /\ matching, r.rt_parse_ok /\ r.rt_verify_ok, cls),
     \* every read-only method of the structure and of the parts handed to the constructor called once (validity queries included):
     \* it verifies and serialises as before
     R("C06", "still_verifies_after_queries_on_it_and_its_parts", built /\ r.serok /\ matching /\ r.verify_ok /\ r.aq_done, r.aq_verify /\ r.aq_ser_same, cls),
     \* a signing constructor never hands back a structure around an identity of a prohibited type (Ed25519ph / RSA / ML-KEM for Destinations, those and RedDSA for routers)
     R("C09", "constructor_never_returns_prohibited", built /\ "declst" \in DOMAIN m,
       IF e.fn = "NewRouterInfo" THEN ~RouterProhibited(declared, m.ct) ELSE ~DestProhibited(declared, m.ct), cls \o "/decl=" \o ToString(declared)),
     R("C14", "constructor_ok_implies_validate_ok", built /\ r.hasvalid, r.validok, cls),
     R("C14", "valid_value_round_trips", built /\ r.hasvalid /\ r.validok, r.serok /\ r.rt_parse_ok /\ r.rt_same, cls),
     R("C14", "constructor_rejects_documented_defect", r.setup /\ e.fn = "NewEncryptedLeaseSet" /\
          (  m.off # (m.flags % 2 = 1) \/ m.flags \div 4 # 0 \/ m.expires = 0 \/ m.innerlen < 61
          \/ ("keydelta" \in DOMAIN m /\ m.keydelta # 0)), ~r.ok,
       cls \o "/" \o (IF e.fn # "NewEncryptedLeaseSet" THEN "-" ELSE IF m.off # (m.flags % 2 = 1) THEN "offlineflag" ELSE IF m.flags \div 4 # 0 THEN "reservedflags" ELSE IF m.expires = 0 THEN "expires0"
                       ELSE IF m.innerlen < 61 THEN "innershort" ELSE "keylen")),
     R("C02", "signed_constructor_output_decodes_to_model", built /\ r.serok /\ e.fn = "NewRouterInfo",
       LET d == RefRouterInfo(r.ser) IN
       d.ok /\ d.consumed = Len(r.ser) /\ d.naddr = m.naddr + (IF "rawaddrs" \in DOMAIN m THEN Len(m.rawaddrs) ELSE 0) /\ d.optPairs = SortPairs(m.pairs) /\ d.id.st = declared, cls),
     R("C15", "router_info_published_date_exact", built /\ e.fn = "NewRouterInfo" /\ ~m.pubneg /\ FitsInt64(TimeToDate(m.pubsec, m.pubns)) /\ "published" \in DOMAIN r,
       r.published = PadTo(TimeToDate(m.pubsec, m.pubns), 8), cls),
     R("C02", "signed_leaseset_decodes_to_model", built /\ r.serok /\ e.fn = "NewLeaseSet",
       LET d == RefLeaseSet(r.ser) IN d.ok /\ d.consumed = Len(r.ser) /\ d.n = m.nleases /\ d.d.st = declared, cls),
     R("C02", "signed_leaseset2_decodes_to_model", built /\ r.serok /\ e.fn = "NewLeaseSet2",
       LET d == RefLeaseSet2(r.ser) IN
       d.ok /\ d.consumed = Len(r.ser) /\ d.nk = m.nkeys + (IF "elgkeys" \in DOMAIN m THEN 1 ELSE 0) /\ d.nl = m.nleases
       /\ (IF "rawpairs" \in DOMAIN m THEN SortPairs(d.optPairs) = SortPairs(m.rawpairs) ELSE d.optPairs = SortPairs(m.pairs)) /\ d.h.flags = m.flags /\ d.h.off = m.off, cls),
     R("C02", "signed_encrypted_leaseset_decodes_to_model", built /\ r.serok /\ e.fn = "NewEncryptedLeaseSet",
       LET d == RefEncryptedLeaseSet(r.ser) IN
       d.ok /\ d.consumed = Len(r.ser) /\ d.st = e.st /\ d.innerLen = m.innerlen /\ d.flags = m.flags /\ d.off = m.off
       /\ Slice(r.ser, d.hdrOff, 4) = m.published /\ U16(r.ser, d.hdrOff + 4) = m.expires, cls) >>
\* ConcurrentSign: the constructor called by several goroutines at once, each around its own fresh keys; what holds for the structure
\* built sequentially (judged by JSignBuild on its own event) has to hold for every one of them
JConcurrentSign(e) ==
  LET r == e.r  cls == e.fn \o "/concurrent/st=" \o ToString(e.st) \o "/n" \o ToString(e.n) IN
  << R("C06", "probe_set_up", TRUE, r.setup /\ r.seq_good, cls),
     R("C06", "structures_built_concurrently_verify", r.setup /\ r.seq_good, r.nfail = 0 /\ r.panics = 0, cls) >>
=============================================================================
