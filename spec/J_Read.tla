------------------------------- MODULE J_Read -------------------------------
(***************************************************************************)
(* Generic judging of parser entry points ("Read" and "Sweep" events):     *)
(* C01 (re-serialisation = consumed bytes), C03 (framing), and the         *)
(* acceptance half of C02 (well-formed encodings are accepted and consume  *)
(* exactly their extent).  The reference outcome comes from RefParse.      *)
(***************************************************************************)
EXTENDS Ref, Judge

ReadOps == {"Read", "Sweep"}

\* fn: entry point; in: input; rr: its recorded result [ok, ser, serok, rem, hasrem, acc]; e: the event (for extra arguments)
\* primitive values that ARE a view of the bytes they were read from (an Integer / I2PString is the sub-slice itself)
ViewReaders == {"ReadInteger", "NewInteger", "ReadI2PString", "ReadDate", "NewDate", "ReadHash", "NewHashFromSlice"}
HashQueries == {"Hash", "IdentHash", "Base32Address", "Base64", "Equals", "Equal", "Bytes"}
VerifyQueries == {"Verify", "VerifySignature"}
ValidateQueries == {"Validate", "IsValid", "ValidateStructure"}
TimeQueries == {"ExpirationTime", "PublishedTime", "ExpiresTime", "Time", "Date", "IsExpired", "NewestExpiration", "OldestExpiration", "Expiration", "Published"}
HasAgain(rr) == "again" \in DOMAIN rr /\ rr.again.done
JReadOne(fn, in, rr, e) ==
  LET ref == RefParse(fn, in, e)        \* [known, ok, consumed, short]
      acc == rr.ok
      consumed == Len(in) - Len(rr.rem)
      cls == fn \o "/" \o InputClass(fn, in, e)
  IN
  << R("C01", "ser_eq_consumed", acc /\ rr.serok /\ rr.hasrem,
       rr.ser = Take(in, consumed), cls),
     R("C01", "ser_is_prefix_of_input", acc /\ rr.serok /\ ~rr.hasrem,
       IsPrefix(rr.ser, in) /\ (ref.known /\ ref.ok => Len(rr.ser) = ref.consumed), cls),
     \* ... and still does after every read-only query of the value has been called (twice): a query must not disturb the value
     R("C01", "ser_eq_consumed_after_queries", acc /\ rr.serok /\ "stab" \in DOMAIN rr /\ rr.stab.done /\ rr.stab.reser,
       rr.stab.ser2 = rr.ser, cls),
     R("C02", "accessors_stable_under_queries", acc /\ "stab" \in DOMAIN rr /\ rr.stab.done, Len(rr.stab.unstable) = 0, cls),
     \* the same observation under the property that speaks about the query that changed its answer
     R("C07", "hash_and_address_queries_stable", acc /\ "stab" \in DOMAIN rr /\ rr.stab.done, \A i \in 1..Len(rr.stab.unstable) : rr.stab.unstable[i] \notin HashQueries, cls),
     R("C05", "verification_queries_stable", acc /\ "stab" \in DOMAIN rr /\ rr.stab.done, \A i \in 1..Len(rr.stab.unstable) : rr.stab.unstable[i] \notin VerifyQueries, cls),
     R("C14", "validation_queries_stable", acc /\ "stab" \in DOMAIN rr /\ rr.stab.done, \A i \in 1..Len(rr.stab.unstable) : rr.stab.unstable[i] \notin ValidateQueries, cls),
     R("C15", "time_queries_stable", acc /\ "stab" \in DOMAIN rr /\ rr.stab.done, \A i \in 1..Len(rr.stab.unstable) : rr.stab.unstable[i] \notin TimeQueries, cls),
     R("C17", "address_queries_stable", acc /\ "stab" \in DOMAIN rr /\ rr.stab.done /\ fn = "ReadRouterAddress", Len(rr.stab.unstable) = 0, cls),
     \* the parser and the queries leave the caller's buffer alone
     R("C08", "input_buffer_not_written", "in_unchanged" \in DOMAIN rr, rr.in_unchanged, cls),
     \* what a caller appends to the SERIALISATION a value returned must not land in the input buffer (the remainder stays the suffix of the
     \* input while the caller goes on using the value).  Views handed out by other accessors are the aliasing question of C08 / X05.
     R("C03", "remainder_survives_appends_to_serialisation", "append_unsafe" \in DOMAIN rr /\ fn \notin ViewReaders,
       \A i \in 1..Len(rr.append_unsafe) : rr.append_unsafe[i] \notin {"Bytes", "Data", "Serialize"}, cls),
     R("C08", "appends_to_serialisation_leave_input_alone", "append_unsafe" \in DOMAIN rr /\ fn \notin ViewReaders,
       \A i \in 1..Len(rr.append_unsafe) : rr.append_unsafe[i] \notin {"Bytes", "Data", "Serialize"}, cls),
     \* the value returned is the caller's: after the caller has overwritten everything it can reach from it, parsing the same bytes again
     \* gives the same value again (nothing handed out is shared with what a later call hands out)
     R("C01", "later_parse_unaffected_by_edits_to_an_earlier_result", acc /\ HasAgain(rr), rr.again.same \/ rr.again.what # "serialisation", cls),
     R("C02", "later_parse_exposes_the_same_fields_after_edits_to_an_earlier_result", acc /\ HasAgain(rr), rr.again.same, cls),
     R("C08", "parsed_values_share_no_memory_with_each_other", acc /\ HasAgain(rr), rr.again.same, cls),
     R("C19", "entry_point_gives_the_same_value_after_edits_to_an_earlier_result", acc /\ HasAgain(rr), rr.again.same, cls),
     R("C03", "rem_is_suffix", acc /\ rr.hasrem, IsSuffix(rr.rem, in), cls),
     R("C03", "consumes_declared_extent", acc /\ rr.hasrem /\ ref.known /\ ref.ok,
       consumed = ref.consumed, cls),
     R("C02", "wellformed_accepted", ref.known /\ ref.ok, acc, cls),
     R("C03", "short_input_rejected", ref.known /\ ref.short, ~acc, cls) >>
JRead(e) == JReadOne(e.fn, e["in"], e.r, e)

(***************************************************************************)
(* Sweep: runs[j] = <<kFrom, kTo, ok, serLen, remLen, serIsPrefix,         *)
(* remIsSuffix>> for the entry point applied to Take(in, k), all k.        *)
(***************************************************************************)
RunsPartition(runs, from, to) ==
  /\ Len(runs) >= 1 /\ runs[1][1] = from /\ runs[Len(runs)][2] = to
  /\ \A j \in 1..Len(runs) : runs[j][1] <= runs[j][2] /\ (j > 1 => runs[j][1] = runs[j - 1][2] + 1)

\* the least k that is accepted (Len+1 if none)
FirstAccepted(runs, n) ==
  LET idx == { j \in 1..Len(runs) : runs[j][3] } IN
  IF idx = {} THEN n + 1 ELSE runs[CHOOSE j \in idx : \A i \in idx : j <= i][1]

JSweep(e) ==
  LET in == e["in"]
      n == Len(in)
      runs == e.r.runs
      from == IF "from" \in DOMAIN e THEN e.from ELSE 0
      ref == RefParse(e.fn, in, e)
      k0 == FirstAccepted(runs, n)
      hasrem == RefHasRem(e.fn)
      cls == e.fn \o "/" \o InputClass(e.fn, in, e)
  IN
  << R("C03", "sweep_wellformed", TRUE, RunsPartition(runs, from, n), cls),
     \* every accepted prefix: serialisation is the consumed prefix, remainder a suffix, sizes add up
     R("C01", "sweep_ser_eq_consumed", k0 <= n,
       \A j \in 1..Len(runs) : runs[j][3] /\ runs[j][4] >= 0 =>
          runs[j][6] /\ (hasrem => \A k \in runs[j][1]..runs[j][2] : runs[j][4] + runs[j][5] = k), cls),
     R("C03", "sweep_rem_is_suffix", k0 <= n /\ hasrem,
       \A j \in 1..Len(runs) : runs[j][3] => runs[j][7], cls),
     \* appending bytes changes neither acceptance nor the number of bytes consumed
     R("C03", "sweep_append_invariant", k0 <= n /\ hasrem,
       \A j \in 1..Len(runs) : runs[j][1] >= k0 =>
          runs[j][3] /\ \A k \in runs[j][1]..runs[j][2] : k - runs[j][5] = k0, cls),
     \* the reference extent: nothing shorter is accepted, everything from there on is
     R("C03", "sweep_no_proper_prefix_accepted", ref.known /\ ref.ok /\ from < ref.consumed, k0 >= ref.consumed, cls),
     R("C02", "sweep_wellformed_accepted", ref.known /\ ref.ok, k0 <= ref.consumed, cls) >>
=============================================================================
