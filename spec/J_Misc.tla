------------------------------- MODULE J_Misc -------------------------------
(* Extension family X02: small helpers with an obvious mathematical meaning (hash helpers, array constructors, padding generator, ValidatePtr). *)
EXTENDS Judge, Sequences, Integers, TLC
JMisc(e) ==
  LET r == e.r  cls == e.fn \o "/" \o (IF "cls" \in DOMAIN e THEN e.cls ELSE "-") IN
  CASE e.fn = "HashFns" ->
        << R("X02", "hash_helpers_are_sha256", TRUE, r.hashdata = r.sha /\ r.hashreader_ok /\ r.hashreader = r.sha /\ r.newhash = r.arr, cls) >>
    [] e.fn = "FromArray" ->
        << R("X02", "array_constructors_keep_the_bytes", TRUE, r.sessionkey = r.a32 /\ r.sessiontag = r.a32 /\ r.eciestag = r.a8, cls) >>
    [] e.fn = "CompressiblePadding" ->
        << R("X02", "padding_generator", TRUE,
             r.ok /\ (IF e.size <= 0 THEN r.len = 0 ELSE r.len = e.size /\ r.periodic), cls) >>
    [] e.fn = "ValidatePtr" ->
        << R("X02", "validateptr_agrees_with_validate", TRUE, r.nil_rejected /\ (r.built => r.ptr_ok = r.validate_ok), cls) >>
    [] OTHER -> << R("X", "unknown_misc", TRUE, FALSE, e.fn) >>
=============================================================================
