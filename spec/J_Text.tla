------------------------------- MODULE J_Text -------------------------------
(* C13: the library's I2P base32/base64 against the bit-level reference (Text.tla). *)
EXTENDS Text, Judge, TLC

MaxEncode == 10485760
MaxDecodeB32 == (MaxEncode * 8 + 4) \div 5
MaxDecodeB64 == ((MaxEncode + 2) \div 3) * 4

RefEnc(pkg, fn, in) ==
  CASE pkg = "b32" /\ fn = "EncodeToStringNoPadding" -> B32NoPad(in)
    [] pkg = "b32" -> B32(in)
    [] OTHER -> B64(in)
RefDec(pkg, fn, s) ==
  CASE pkg = "b32" /\ fn \in {"DecodeStringNoPadding", "DecodeStringSafeNoPadding"} -> B32DecodeNoPad(s)
    [] pkg = "b32" -> B32Decode(s)
    [] OTHER -> B64Decode(s)
IsSafe(fn) == fn \in {"EncodeToStringSafe", "DecodeStringSafe", "DecodeStringSafeNoPadding"}
Alphabet(pkg) == IF pkg = "b32" THEN B32Alphabet ELSE B64Alphabet
NoPad(fn) == fn \in {"DecodeStringNoPadding", "DecodeStringSafeNoPadding"}
\* an unpadded string whose last group has 1, 3 or 6 characters encodes nothing; encoding/base32 returns a truncated
\* result for it rather than an error. The property speaks of foreign characters and malformed padding only, so this
\* class is not judged (named deviation: UnpaddedIllegalResidueLenient).
IllegalResidue(s) == (Len(StripCRLF(s)) % 8) \in {1, 3, 6}
Foreign(pkg, s) == \E i \in 1..Len(s) : s[i] \notin (Alphabet(pkg) \cup {PadByte, 13, 10})

JText(e) ==
  LET cls == e.pkg \o "." \o e.fn IN
  CASE e.op = "TextEnc" ->
        LET in == e["in"]  guardOK == ~IsSafe(e.fn) \/ (Len(in) >= 1 /\ Len(in) <= MaxEncode) IN
        << R("C13", "encoder_matches_bit_level_reference", guardOK, e.r.ok /\ e.r.out = RefEnc(e.pkg, e.fn, in), cls),
           R("C13", "encoder_output_in_i2p_alphabet", e.r.ok, \A i \in 1..Len(e.r.out) : e.r.out[i] \in Alphabet(e.pkg) \cup {PadByte}, cls),
           R("C13", "safe_encoder_rejects_empty", IsSafe(e.fn) /\ Len(in) = 0, ~e.r.ok, cls) >>
    [] e.op = "TextDec" ->
        LET s == e["in"]  ref == RefDec(e.pkg, e.fn, s)
            guardOK == ~IsSafe(e.fn) \/ Len(s) >= 1 IN
        << R("C13", "decoder_accepts_valid_and_inverts", ref.ok /\ guardOK, e.r.ok /\ e.r.out = ref.bytes, cls),
           R("C13", "decoder_rejects_foreign_characters", Foreign(e.pkg, s), ~e.r.ok, cls),
           R("C13", "decoder_rejects_malformed", ~ref.ok /\ ~(NoPad(e.fn) /\ IllegalResidue(s) /\ ~Foreign(e.pkg, s) /\ TrailingPads(StripCRLF(s)) = 0), ~e.r.ok, cls),
           R("C13", "safe_decoder_rejects_empty", IsSafe(e.fn) /\ Len(s) = 0, ~e.r.ok, cls) >>
    [] e.op = "TextEncChunks" ->
        LET n == Len(e.blob) \div e.width
            exp == LET F[i \in 0..n] == IF i = 0 THEN << >> ELSE F[i - 1] \o RefEnc(e.pkg, e.fn, Slice(e.blob, (i - 1) * e.width, e.width)) IN F[n] IN
        << R("C13", "encoder_exhaustive_chunks", TRUE, e.r.allok /\ e.r.n = n /\ e.r.outs = exp, cls \o "/w" \o ToString(e.width)) >>
    [] e.op = "TextDecMutate" ->
        LET s == e["in"]
            Mut(b) == [s EXCEPT ![e.pos + 1] = b]
            refs == [b \in 0..255 |-> RefDec(e.pkg, e.fn, Mut(b))]
            lenient == [b \in 0..255 |-> NoPad(e.fn) /\ IllegalResidue(Mut(b)) /\ ~Foreign(e.pkg, Mut(b)) /\ b # PadByte]
            expOks == [i \in 1..256 |-> IF refs[i - 1].ok \/ (lenient[i - 1] /\ e.r.oks[i] = 1) THEN 1 ELSE 0]
            expOuts == LET F[i \in 0..256] == IF i = 0 THEN << >> ELSE (IF refs[i - 1].ok THEN F[i - 1] \o refs[i - 1].bytes ELSE F[i - 1]) IN F[256] IN
        << R("C13", "decoder_accepts_exactly_the_alphabet_at_every_position", TRUE, e.r.oks = expOks, cls),
           R("C13", "decoder_outputs_match_reference", e.r.oks = expOks /\ \A b \in 0..255 : ~(lenient[b] /\ e.r.oks[b + 1] = 1), e.r.outs = expOuts, cls) >>
    [] e.op = "TextBig" ->
        LET want == IF e.pkg = "b32" THEN (IF e.fn = "EncodeToStringNoPadding" THEN CeilDiv(8 * e.n, 5) ELSE 8 * CeilDiv(e.n, 5)) ELSE 4 * CeilDiv(e.n, 3) IN
        << R("C13", "large_input_round_trips", e.n <= MaxEncode, e.r.enc_ok /\ e.r.dec_ok /\ e.r.equal, cls \o "/big"),
           R("C13", "large_output_length_and_alphabet", e.r.enc_ok, e.r.outlen = want /\ e.r.alphabet_ok, cls \o "/big") >>
    [] e.op = "TextGuard" ->
        LET enc == e.fn \in {"EncodeToString", "EncodeToStringNoPadding", "EncodeToStringSafe"}
            max == IF enc THEN MaxEncode ELSE IF e.pkg = "b32" THEN MaxDecodeB32 ELSE MaxDecodeB64
            q == IF e.pkg = "b32" THEN 8 ELSE 4
            k == IF "crlf" \in DOMAIN e THEN e.crlf ELSE 0
            total == e.n + k IN       \* length of the string handed to the decoder (line breaks included)
        << R("C13", "size_guard_accepts_up_to_limit", IsSafe(e.fn) /\ e.n >= 1 /\ total <= max /\ (enc \/ e.n % q = 0), e.r.ok, cls \o "/n=" \o ToString(e.n) \o "+" \o ToString(k)),
           R("C13", "size_guard_rejects_beyond_limit", IsSafe(e.fn) /\ (e.n = 0 \/ total > max), ~e.r.ok, cls \o "/n=" \o ToString(e.n) \o "+" \o ToString(k)),
           R("C13", "size_guard_output_length", e.r.ok /\ enc, e.r.outlen = (IF e.pkg = "b32" THEN (IF e.fn = "EncodeToStringNoPadding" THEN CeilDiv(8 * e.n, 5) ELSE 8 * CeilDiv(e.n, 5)) ELSE 4 * CeilDiv(e.n, 3)), cls) >>
    [] OTHER -> << >>
=============================================================================
