-------------------------------- MODULE Enc --------------------------------
(***************************************************************************)
(* Reference encoders: the independent implementation of the I2P 0.9.67    *)
(* layout that produces the encodings fed to the library's parsers         *)
(* (C02 direction 1) and the model values handed to its constructors.      *)
(* A model value is a record; every field that is a byte string is given   *)
(* explicitly so that the decoder side can be compared field by field.     *)
(***************************************************************************)
EXTENDS Structs

EncCertNull == << 0, 0, 0 >>
EncKeyCert(st, ct, extra) == SerCert(CertKey, KeyCertPayload(st, ct) \o Fill(Max(ExcessFor(st, ct), 0) + extra, st + 3 * ct))
\* identity with deterministic position dependent key material; NULL certificate iff kind = "null"
EncIdentity(kind, st, ct, salt) ==
  Fill(BlockLen, salt) \o (IF kind = "null" THEN EncCertNull ELSE EncKeyCert(st, ct, IF kind = "keyx" THEN 3 ELSE 0))
IdentitySigType(kind, st) == IF kind = "null" THEN 0 ELSE st
IdentityCryptoType(kind, ct) == IF kind = "null" THEN 0 ELSE ct

EncLease(gwSalt, tid, endMs8) == Fill(HashLen, gwSalt) \o tid \o endMs8
EncLease2(gwSalt, tid, endS4) == Fill(HashLen, gwSalt) \o tid \o endS4

EncOffline(expires4, tst, destSt, salt) == expires4 \o BE16(tst) \o Fill(Max(SigPubLen(tst), 0), salt) \o Fill(Max(SigLen(destSt), 0), salt + 1)

EncRouterAddress(cost, exp8, style, pairs) == << cost >> \o exp8 \o EncString(style) \o SerMapping(pairs)

EncRouterInfo(idBytes, st, published8, addrs, peerSize, pairs, salt) ==
  idBytes \o published8 \o << Len(addrs) >> \o Flatten(addrs) \o << peerSize >> \o SerMapping(pairs) \o Fill(Max(SigLen(st), 0), salt)

\* key material whose leading byte is small, so that it is a valid group element for DSA/ElGamal range checks
SafeKey(n, salt) == IF n <= 0 THEN << >> ELSE << (salt % 100) + 1 >> \o Fill(n - 1, salt)
EncLeaseSet(destBytes, st, nDeclared, leases, salt) ==
  destBytes \o SafeKey(ElgLen, salt) \o SafeKey(Max(SigPubLen(st), 0), salt + 1) \o << nDeclared >> \o Flatten(leases) \o Fill(Max(SigLen(st), 0), salt + 2)

EncEncKey(type, declaredLen, data) == BE16(type) \o BE16(declaredLen) \o data

\* offline: << >> or the encoded offline block; closing signature type given by the caller
EncLS2(destBytes, published4, expires2, flags, offline, pairs, nkDeclared, keys, nlDeclared, leases, closingSt, salt) ==
  destBytes \o published4 \o expires2 \o BE16(flags) \o offline \o SerMapping(pairs)
  \o << nkDeclared >> \o Flatten(keys) \o << nlDeclared >> \o Flatten(leases) \o Fill(Max(SigLen(closingSt), 0), salt)

EncMetaEntry(hashSalt, type, expires4, cost, pairs) == Fill(HashLen, hashSalt) \o << type >> \o expires4 \o << cost >> \o SerMapping(pairs)
EncMeta(destBytes, published4, expires2, flags, offline, pairs, neDeclared, entries, closingSt, salt) ==
  destBytes \o published4 \o expires2 \o BE16(flags) \o offline \o SerMapping(pairs)
  \o << neDeclared >> \o Flatten(entries) \o Fill(Max(SigLen(closingSt), 0), salt)

EncELS(st, published4, expires2, flags, offline, innerDeclared, inner, closingSt, salt) ==
  BE16(st) \o Fill(Max(SigPubLen(st), 0), salt) \o published4 \o expires2 \o BE16(flags) \o offline
  \o BE16(innerDeclared) \o inner \o Fill(Max(SigLen(closingSt), 0), salt + 1)
=============================================================================
