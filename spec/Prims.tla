------------------------------- MODULE Prims -------------------------------
(***************************************************************************)
(* I2P primitive types (common structures 0.9.67): Integer, Date, String, *)
(* Hash, SessionKey, SessionTag.  Reference codecs, written from the      *)
(* specification text, not from the implementation.                       *)
(*                                                                         *)
(*  Integer : 1..8 bytes, big endian, unsigned                             *)
(*  Date    : 8 byte Integer, milliseconds since the epoch                 *)
(*  String  : 1 length byte n, then n bytes (0..255)                       *)
(*  Hash    : 32 bytes; SessionKey 32; SessionTag 32; ECIES tag 8          *)
(***************************************************************************)
EXTENDS Bytes

IntWidths == 1..8

\* v is a limb sequence (any length); n a requested width
IntEncodable(v, n) == n \in IntWidths /\ FitsIn(v, n)
EncInt(v, n) == PadTo(v, n)
DecInt(b) == Norm(b)

\* Reader contract: [ok, consumed]; value = Take(in, consumed)
RefReadFixed(in, n) == [ok |-> Len(in) >= n, consumed |-> n]
RefReadInt(in, n) == [ok |-> n \in IntWidths /\ Len(in) >= n, consumed |-> n]

StringMax == 255
RefReadString(in) ==
  IF Len(in) = 0 THEN [ok |-> FALSE, consumed |-> 0]
  ELSE [ok |-> Len(in) >= 1 + in[1], consumed |-> 1 + in[1]]
EncString(s) == << Len(s) >> \o s
StringEncodable(s) == Len(s) <= StringMax
\* a complete I2P string value (as held by the library: length byte + content)
IsCompleteString(b) == Len(b) >= 1 /\ Len(b) = 1 + b[1]

\* Date <-> time : ms limbs -> <<seconds limbs, nanoseconds (small)>>
DateToTime(ms) == LET qr == DivModSmallBE(Norm(ms), 1000) IN << qr[1], qr[2] * 1000000 >>
\* seconds limbs, nanoseconds (0..999999999) -> ms limbs
TimeToDate(sec, ns) == AddBE(MulSmallBE(Norm(sec), 1000), NatLimbs(ns \div 1000000))

TwoPow63 == << 128, 0, 0, 0, 0, 0, 0, 0 >>
TwoPow64 == << 1, 0, 0, 0, 0, 0, 0, 0, 0 >>
MaxInt64 == << 127, 255, 255, 255, 255, 255, 255, 255 >>
FitsInt64(v) == LtBE(v, TwoPow63)
=============================================================================
