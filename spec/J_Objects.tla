------------------------------ MODULE J_Objects ------------------------------
(***************************************************************************)
(* Trace validation of the mutable objects: the session state carries the  *)
(* abstract state of the session's object (Objects.tla); every recorded    *)
(* call is one step of the machine, and the call's reported success and    *)
(* the observation taken after it must be those of the machine.            *)
(*   builder          -> C19 (the builder agrees with the direct           *)
(*                        constructor after ANY history of calls)          *)
(*   RouterInfo       -> C14 for the value the library hands back after    *)
(*                        AddAddress (valid => clean round trip); exact    *)
(*                        state under the extension family X04             *)
(*   SetBytes / Add   -> X04                                               *)
(***************************************************************************)
EXTENDS Objects, Judge

NoObj == [kind |-> "none"]
ObjInitOf(e) ==
  CASE e.fn = "CertificateBuilder" -> BuilderInit
    [] e.fn \in {"SessionKey", "SessionTag"} -> FixedInit(32)
    [] e.fn = "ECIESSessionTag" -> FixedInit(8)
    [] e.fn = "MappingValues" -> MValsInit
    [] e.fn = "RouterInfo" -> RInfoInit(e.id, e.st, e.pub8, e.addrs, e.peers, e.opts, e.sig)
    [] OTHER -> NoObj

ObjPairsMatch(ap, mp) == Len(ap) = Len(mp) /\ \A i \in 1..Len(mp) : ap[i][1] = EncString(mp[i][1]) /\ ap[i][2] = EncString(mp[i][2])
ObsMatches(kind, got, want) ==
  CASE kind = "builder" -> got.ok = want.ok /\ (want.ok => got.ser = want.ser)
    [] kind = "fixed" -> got.ser = want.ser
    [] kind = "mvals" -> ObjPairsMatch(got.pairs, want.pairs)
    [] kind = "rinfo" -> got.count = want.count /\ got.naddrs = want.count /\ got.serok /\ got.ser = want.ser
    [] OTHER -> FALSE
PropOf(kind) == IF kind = "builder" THEN "C19" ELSE "X04"

JObjNew(e) ==
  LET s == ObjInitOf(e)  cls == e.fn \o "/new" IN
  << R(PropOf(s.kind), "object_created", TRUE, e.r.ok /\ s.kind # "none", cls),
     R(PropOf(s.kind), "initial_state_as_specified", e.r.ok /\ s.kind # "none", ObsMatches(s.kind, e.r.obs, ObjObs(s)), cls) >>

\* s: abstract state BEFORE the call (session memory)
JObjCall(e, s) ==
  IF s.kind = "none" \/ ~e.r.have \/ "badarg" \in DOMAIN e.r THEN << R("X04", "object_live", TRUE, FALSE, e.fn \o "/" \o e.c.m) >>
  ELSE
  LET st == ObjStep(s, e.c)
      cls == e.fn \o "/" \o e.c.m \o "/" \o (IF "cls" \in DOMAIN e THEN e.cls ELSE "-")
      p == PropOf(s.kind) IN
  << R(p, IF s.kind = "builder" THEN "builder_call_accepts_what_direct_constructor_accepts" ELSE "call_result_as_specified",
       \* Validate/Build report the state; the setters report their argument
       TRUE, e.r.ok = st.ok, cls),
     R(p, IF s.kind = "builder" THEN "builder_history_agrees_with_direct_constructor" ELSE "state_after_call_as_specified",
       e.r.observed, ObsMatches(s.kind, e.r.obs, ObjObs(st.s)), cls),
     \* values the object handed out earlier (built certificates, identities made from them, struct copies of the RouterInfo) are still what
     \* they were: a value a constructor returned does not change unless the caller changes it.  Judged under every property that speaks
     \* about constructor-built values.
     R("C19", "results_handed_out_earlier_unaffected_by_later_calls", e.r.nkept > 0, e.r.kept_unchanged, cls),
     R("C02", "results_handed_out_earlier_unaffected_by_later_calls", e.r.nkept > 0, e.r.kept_unchanged, cls),
     R("C09", "results_handed_out_earlier_unaffected_by_later_calls", e.r.nkept > 0, e.r.kept_unchanged, cls),
     R("C14", "results_handed_out_earlier_unaffected_by_later_calls", e.r.nkept > 0, e.r.kept_unchanged, cls),
     R("X04", "results_handed_out_earlier_unaffected_by_later_calls", e.r.nkept > 0, e.r.kept_unchanged, cls),
     R("C14", "valid_value_round_trips", s.kind = "rinfo" /\ e.r.observed /\ e.r.obs.validok /\ e.r.obs.rt.done,
       e.r.obs.serok /\ e.r.obs.rt.ok /\ e.r.obs.rt.remlen = 0 /\ e.r.obs.rt.same, cls) >>

ObjMemNext(e, s) == IF e.op = "ObjNew" THEN (IF e.r.ok THEN ObjInitOf(e) ELSE NoObj)
                    ELSE IF e.op = "ObjCall" /\ s.kind # "none" /\ e.r.have /\ "badarg" \notin DOMAIN e.r THEN ObjStep(s, e.c).s ELSE s
=============================================================================
