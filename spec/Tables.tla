------------------------------- MODULE Tables -------------------------------
(***************************************************************************)
(* I2P 0.9.67 key and signature type tables (common structures,            *)
(* "Certificate" / "SigningPublicKey" / "Signature" / "PublicKey").        *)
(* Scale = "real" gives the I2P numbers; Scale = "small" gives the scaled  *)
(* instance used for exhaustive model checking (same text, smaller sizes). *)
(***************************************************************************)
EXTENDS Bytes

Real == Scale = "real"

\* signing public key length by signing type code; -1 = unknown code
RealSigPubLen(c) ==
  CASE c = 0 -> 128 [] c = 1 -> 64 [] c = 2 -> 96 [] c = 3 -> 132 [] c = 4 -> 256 [] c = 5 -> 384 [] c = 6 -> 512
    [] c = 7 -> 32 [] c = 8 -> 32 [] c = 11 -> 32 [] OTHER -> -1
\* signature length by signing type code
RealSigLen(c) ==
  CASE c = 0 -> 40 [] c = 1 -> 64 [] c = 2 -> 96 [] c = 3 -> 132 [] c = 4 -> 256 [] c = 5 -> 384 [] c = 6 -> 512
    [] c = 7 -> 64 [] c = 8 -> 64 [] c = 11 -> 64 [] OTHER -> -1
\* encryption public key length (as carried in the key block) by crypto type code
RealCryptoPubLen(c) ==
  CASE c = 0 -> 256 [] c = 1 -> 64 [] c = 2 -> 96 [] c = 3 -> 132 [] c = 4 -> 32 [] c = 5 -> 32 [] c = 6 -> 32 [] c = 7 -> 32
    [] OTHER -> -1

SmallSigPubLen(c) == CASE c = 0 -> 2 [] c = 1 -> 1 [] c = 3 -> 3 [] c = 4 -> 4 [] c = 7 -> 1 [] c = 8 -> 1 [] c = 11 -> 1 [] OTHER -> -1
SmallSigLen(c)    == CASE c = 0 -> 1 [] c = 1 -> 2 [] c = 3 -> 3 [] c = 4 -> 4 [] c = 7 -> 2 [] c = 8 -> 2 [] c = 11 -> 2 [] OTHER -> -1
SmallCryptoPubLen(c) == CASE c = 0 -> 4 [] c = 1 -> 2 [] c = 3 -> 5 [] c = 4 -> 1 [] c = 5 -> 1 [] OTHER -> -1

SigPubLen(c) == IF Real THEN RealSigPubLen(c) ELSE SmallSigPubLen(c)
SigLen(c) == IF Real THEN RealSigLen(c) ELSE SmallSigLen(c)
CryptoPubLen(c) == IF Real THEN RealCryptoPubLen(c) ELSE SmallCryptoPubLen(c)

\* the key block: encryption key field followed by signing key field
PubField == IF Real THEN 256 ELSE 4
SpkField == IF Real THEN 128 ELSE 2
BlockLen == PubField + SpkField

KnownSigTypes == {0, 1, 2, 3, 4, 5, 6, 7, 8, 11}
KnownCryptoTypes == {0, 1, 2, 3, 4, 5, 6, 7}
SigKnown(c) == SigPubLen(c) >= 0
CryptoKnown(c) == CryptoPubLen(c) >= 0

\* certificate types
CertNull == 0  CertHashcash == 1  CertHidden == 2  CertSigned == 3  CertMultiple == 4  CertKey == 5

(***************************************************************************)
(* Key-type policy (0.9.67): ML-KEM hybrids are for LeaseSet2 encryption   *)
(* keys only; RSA and Ed25519ph are offline-signature only; RedDSA is for  *)
(* Destinations (encrypted leasesets) only.                                *)
(***************************************************************************)
ProhibitedCryptoForIdentity == {5, 6, 7}
ProhibitedSigForDestination == {4, 5, 6, 8}
ProhibitedSigForRouter == {4, 5, 6, 8, 11}
DestProhibited(st, ct) == st \in ProhibitedSigForDestination \/ ct \in ProhibitedCryptoForIdentity
RouterProhibited(st, ct) == st \in ProhibitedSigForRouter \/ ct \in ProhibitedCryptoForIdentity

(***************************************************************************)
(* What this library supports constructing/parsing inside a key block      *)
(* (a named deviation from "every type in the table": keys longer than     *)
(* their field spill into the certificate, which the library rejects, and  *)
(* P-256/P-384/P-521 encryption keys have no implementation).              *)
(***************************************************************************)
LibSigTypes == IF Real THEN {0, 1, 2, 7, 8, 11} ELSE {0, 1, 7, 8, 11}
LibCryptoTypes == IF Real THEN {0, 4, 5, 6, 7} ELSE {0, 4, 5}
LibSupportsPair(st, ct) == st \in LibSigTypes /\ ct \in LibCryptoTypes
=============================================================================
