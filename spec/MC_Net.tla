------------------------------- MODULE MC_Net -------------------------------
(* Exhaustive check of the IP-literal and decimal-port grammars over all strings up to MaxLen over a small alphabet. *)
EXTENDS Net, TLC
CONSTANTS MaxLen, Which
Alpha == IF Which = "host" THEN {48, 49, 50, 53, 46, 58, 97, 103, 37, 32} ELSE {48, 49, 54, 53, 43, 45, 32, 120}
VARIABLE w
Init == w = << >>
Next == Len(w) < MaxLen /\ \E b \in Alpha : w' = Append(w, b)
HostGrammar ==
  LET ip == ParseIP(w) IN
  /\ ~(ParseV4(w).ok /\ ParseV6(w).ok)
  /\ ip.ok => Len(ip.b) = 16 /\ \A i \in 1..16 : ip.b[i] \in 0..255
  /\ ip.ok => \A i \in 1..Len(w) : IsHex(w[i]) \/ w[i] \in {46, 58}
  /\ ip.ok => Len(w) >= 2
  /\ ParseV4(w).ok => Cardinality({ i \in 1..Len(w) : w[i] = 46 }) = 3 /\ ip.fam = "4" /\ IsV4Mapped(ip.b)
  /\ ParseV6(w).ok => \E i \in 1..Len(w) : w[i] = 58
  /\ (\E i \in 1..Len(w) : w[i] \in {103, 37, 32}) => ~ip.ok        \* hostnames, zones, whitespace are never literals
PortGrammar ==
  /\ PortOK(w) => PortOK(Digits(PortValue(w))) /\ PortValue(Digits(PortValue(w))) = PortValue(w)
  /\ PortOK(w) => \A i \in 1..Len(w) : IsDigit(w[i]) \/ (i = 1 /\ w[i] \in {43, 45})
  /\ (\E i \in 1..Len(w) : w[i] \in {32, 120}) => ~PortOK(w)
  /\ Len(w) = 0 => ~PortOK(w)
=============================================================================
