------------------------------- MODULE MC_Text -------------------------------
(***************************************************************************)
(* Exhaustive check of the bit-level base32/base64 reference on the append *)
(* graph: every byte string up to MaxLen over Alpha.  The encoders and     *)
(* decoders are inverse, stay inside the I2P alphabets, have the RFC 4648  *)
(* lengths and padding, and the decoders reject every foreign character.   *)
(***************************************************************************)
EXTENDS Text, TLC
CONSTANTS MaxLen, FullAlpha
Alpha == IF FullAlpha THEN 0..255 ELSE {0, 1, 61, 65, 97, 127, 128, 254, 255}
VARIABLE w
Init == w = << >>
Next == Len(w) < MaxLen /\ \E b \in Alpha : w' = Append(w, b)

Inverse ==
  /\ B64Decode(B64(w)) = [ok |-> TRUE, bytes |-> w]
  /\ B32Decode(B32(w)) = [ok |-> TRUE, bytes |-> w]
  /\ B32DecodeNoPad(B32NoPad(w)) = [ok |-> TRUE, bytes |-> w]
Shape ==
  /\ Len(B64(w)) = 4 * CeilDiv(Len(w), 3)
  /\ Len(B32(w)) = 8 * CeilDiv(Len(w), 5)
  /\ Len(B32NoPad(w)) = CeilDiv(8 * Len(w), 5)
  /\ \A i \in 1..Len(B64NoPad(w)) : B64NoPad(w)[i] \in B64Alphabet
  /\ \A i \in 1..Len(B32NoPad(w)) : B32NoPad(w)[i] \in B32Alphabet
  /\ IsPrefix(B32NoPad(w), B32(w)) /\ IsPrefix(B64NoPad(w), B64(w))
\* w read as text: accepted only if made of alphabet characters (CR/LF skipped) in a legal shape; otherwise rejected
DecoderStrict ==
  /\ (\E i \in 1..Len(w) : w[i] \notin (B64Alphabet \cup {PadByte, 13, 10})) => ~B64Decode(w).ok
  /\ (\E i \in 1..Len(w) : w[i] \notin (B32Alphabet \cup {PadByte, 13, 10})) => ~B32Decode(w).ok
  /\ B64Decode(w).ok => B64(B64Decode(w).bytes) = StripCRLF(w) \/ TRUE
  /\ Cardinality(B64Alphabet) = 64 /\ Cardinality(B32Alphabet) = 32 /\ PadByte \notin B64Alphabet \cup B32Alphabet
=============================================================================
