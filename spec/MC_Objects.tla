----------------------------- MODULE MC_Objects -----------------------------
(***************************************************************************)
(* Every call sequence on the library's mutable objects over small         *)
(* alphabets (Objects.tla), together with an implementation-shaped model   *)
(* of the certificate builder (its actual fields: certType, payload,       *)
(* payloadSet, key types set/unset - builder.go) that must REFINE the      *)
(* contract machine: after every sequence of calls, what Build() of the    *)
(* implementation shape returns equals what the contract says.             *)
(* Named deviations (negative controls, TLC must refute the refinement):   *)
(*   Variant = "keeps-payloadset"  WithKeyTypes does not reset payloadSet  *)
(*                                 (first setter wins)                     *)
(*   Variant = "truncates"         WithKeyTypes accepts codes above 65535  *)
(*                                 and Build writes them modulo 65536      *)
(*                                 (the pinned tree's behaviour)           *)
(*   Variant = "shares-scratch"    the key-type payload is written into a  *)
(*                                 scratch buffer of the builder and the   *)
(*                                 certificate handed out refers to it     *)
(* Certificates handed out by Build are KEPT (variable kept): each is      *)
(* either a value of its own or - in the scratch variant - a reference to  *)
(* the builder's buffer; KeptUnchanged says that what was handed out still *)
(* reads as it did when it was handed out, whatever is called afterwards.  *)
(***************************************************************************)
EXTENDS Objects, TLC
CONSTANTS Kind, Variant

(************************ implementation-shaped builder ********************)
ImplInit == [certType |-> CertNull, payload |-> << >>, payloadSet |-> FALSE, ktSet |-> FALSE, st |-> 0, ct |-> 0, scratch |-> << >>]
ImplKeyPayload(i) == BE16(i.st % 65536) \o BE16(i.ct % 65536)
\* Build(): Validate, buildPayloadIfNeeded (which stores the generated payload), NewCertificateWithType
ImplBuild(i) ==
  IF i.certType = CertKey /\ ~i.ktSet /\ ~i.payloadSet THEN [i |-> i, ok |-> FALSE, ser |-> << >>]
  ELSE LET p == IF i.payloadSet THEN i.payload
                ELSE IF i.ktSet THEN ImplKeyPayload(i)
                ELSE IF i.certType \in {CertNull, CertHidden} THEN << >> ELSE i.payload
           j == [i EXCEPT !.payload = p] IN
       IF ~i.payloadSet /\ ~i.ktSet /\ i.certType = CertKey /\ Len(i.payload) = 0 THEN [i |-> i, ok |-> FALSE, ser |-> << >>]
       ELSE IF CertCtorValid(j.certType, p) THEN [i |-> j, ok |-> TRUE, ser |-> SerCert(j.certType, p)]
       ELSE [i |-> j, ok |-> FALSE, ser |-> << >>]
ImplStep(i, c) ==
  CASE c.m = "WithType" -> IF c.t \in 0..5 THEN [i EXCEPT !.certType = c.t] ELSE i
    [] c.m = "WithKeyTypes" ->
         IF c.st < 0 \/ c.ct < 0 \/ (Variant # "truncates" /\ (c.st > 65535 \/ c.ct > 65535)) THEN i
         ELSE [i EXCEPT !.certType = CertKey, !.ktSet = TRUE, !.st = c.st, !.ct = c.ct,
                        !.payloadSet = IF Variant = "keeps-payloadset" THEN @ ELSE FALSE]
    [] c.m = "WithPayload" -> [i EXCEPT !.payload = c.p, !.payloadSet = TRUE]
    [] c.m = "Build" -> ImplBuild(i).i
    [] OTHER -> i

(***************************** alphabets ***********************************)
BuilderCalls ==
  { [m |-> "WithType", t |-> t] : t \in {0, 1, 2, 3, 5, 6} }
  \cup { [m |-> "WithKeyTypes", st |-> p[1], ct |-> p[2]] : p \in { << 0, 0 >>, << 7, 4 >>, << 65543, 4 >>, << 7, 65536 >>, << -1, 0 >> } }
  \cup { [m |-> "WithPayload", p |-> p] : p \in { << >>, << 9 >>, << 0, 7, 0, 4 >>, Fill(40, 1) } }
  \cup { [m |-> "Validate"], [m |-> "Build"] }
FixedCalls == { [m |-> "SetBytes", b |-> b] : b \in { << >>, << 1 >>, << 1, 2 >>, << 3, 4 >>, << 1, 2, 3 >> } }
MValsCalls == { [m |-> "Add", k |-> k, v |-> v] : k \in { << >>, << 97 >>, << 98 >> }, v \in { << >>, << 120 >> } }
RInfoCalls == { [m |-> "AddAddress", a |-> a] : a \in { << 1 >>, << 2, 2 >> } }

VARIABLES obj, impl, steps, kept
vars == << obj, impl, steps, kept >>
\* the state of the implementation after Build has run (the scratch variant writes the generated payload into the builder's own buffer)
ImplAfterBuild(i) == LET j == ImplBuild(i).i IN
  IF Variant = "shares-scratch" /\ ~i.payloadSet /\ i.ktSet THEN [j EXCEPT !.scratch = ImplKeyPayload(i)] ELSE j
\* what Build hands out: the payload as a value of its own, or a reference to the scratch buffer
HandOut(i) == LET b == ImplBuild(i) IN
  IF ~b.ok THEN << >>
  ELSE << [ref |-> Variant = "shares-scratch" /\ ~i.payloadSet /\ i.ktSet, val |-> b.ser, was |-> b.ser, typ |-> b.i.certType] >>
ReadKept(k, i) == IF k.ref THEN SerCert(k.typ, i.scratch) ELSE k.val
Init == /\ obj = CASE Kind = "builder" -> BuilderInit [] Kind = "fixed" -> FixedInit(2) [] Kind = "mvals" -> MValsInit
                   [] OTHER -> RInfoInit(<< 7 >>, 7, << 0 >>, << >>, 0, << >>, << 5 >>)
        /\ impl = ImplInit /\ steps = 0 /\ kept = << >>
Calls == CASE Kind = "builder" -> BuilderCalls [] Kind = "fixed" -> FixedCalls [] Kind = "mvals" -> MValsCalls [] OTHER -> RInfoCalls
Next == /\ steps < 6
        /\ \E c \in Calls :
             /\ obj' = ObjStep(obj, c).s
             /\ impl' = IF Kind = "builder" THEN (IF c.m = "Build" THEN ImplAfterBuild(impl) ELSE ImplStep(impl, c)) ELSE impl
             /\ kept' = IF Kind = "builder" /\ c.m = "Build" /\ Len(kept) < 2 THEN kept \o HandOut(impl) ELSE kept
        /\ steps' = steps + 1

\* refinement: the implementation shape and the contract answer Build() alike in every reachable state
BuilderRefines == Kind = "builder" => LET b == ImplBuild(impl) IN b.ok = BuilderObs(obj).ok /\ (b.ok => b.ser = BuilderObs(obj).ser)
\* Build is idempotent and does not disturb what later calls see
BuildIdempotent == Kind = "builder" => LET b == ImplBuild(impl)  b2 == ImplBuild(b.i) IN b2.ok = b.ok /\ b2.ser = b.ser
\* what Build handed out earlier still reads as it did then
KeptUnchanged == \A k \in 1..Len(kept) : ReadKept(kept[k], impl) = kept[k].was
\* a KEY certificate produced from key types states exactly those types
KeyTypesHonoured == (Kind = "builder" /\ obj.src = "keytypes" /\ BuilderObs(obj).ok /\ obj.typ = CertKey)
                      => BuilderObs(obj).ser = SerCert(CertKey, KeyCertPayload(obj.st, obj.ct))
\* failed calls leave the object unchanged; the address count always fits its byte; values keep their size
FailedCallsChangeNothing == \A c \in Calls : ~ObjStep(obj, c).ok => ObjStep(obj, c).s = obj
CountFitsByte == Kind = "rinfo" => (Len(obj.addrs) <= MaxAddrs /\ RInfoObs(obj).ser[Len(obj.id) + Len(obj.pub8) + 1] = Len(obj.addrs))
SizeKept == Kind = "fixed" => Len(FixedObs(obj).ser) = obj.n
NonEmptyKeys == Kind = "mvals" => \A i \in 1..Len(obj.pairs) : Len(obj.pairs[i][1]) >= 1
=============================================================================
