--------------------------- MODULE Gen_MapBodies ---------------------------
(* All mapping bodies over {0,1,2,'=',';','a'} up to MaxLen, split by length and first character for parallel judging. *)
EXTENDS Mapping, GenUtil, TLC, Json
CONSTANTS Tier, Seed, OutFile
Al == << 0, 1, 2, 61, 59, 97 >>
MaxLen == IF Tier = "thorough" THEN 8 ELSE 6
Vecs ==
  [n \in 1..4 |-> [op |-> "MappingBodies", fn |-> "ReadMapping", alphabet |-> Al, len |-> n - 1, first |-> -1]]
  \o Cross2(Range(4, MaxLen), Range(0, 5), LAMBDA n, f : [op |-> "MappingBodies", fn |-> "ReadMapping", alphabet |-> Al, len |-> n, first |-> f])
VARIABLE done
Init == done = FALSE
Next == ~done /\ ndJsonSerialize(OutFile, Vecs) /\ PrintT(<< "GENERATED", Len(Vecs) >>) /\ done' = TRUE
=============================================================================
