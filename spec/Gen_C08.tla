------------------------------ MODULE Gen_C08 ------------------------------
(***************************************************************************)
(* Sessions Read -> Observe -> (Scribble region -> Observe)* ->            *)
(* ScribbleReturned -> Observe for every structure in the property's list, *)
(* every key-type pair, whole-buffer and per-region overwrite histories.   *)
(***************************************************************************)
EXTENDS Enc, J_C05, GenUtil, TLC, Json
CONSTANTS Tier, Seed, OutFile
Thorough == Tier = "thorough"
H == "v"
Rd(fn, w, extra) == [op |-> "Read", fn |-> fn, in |-> w, h |-> H] @@ extra
Ob(fn, cls) == [op |-> "Observe", fn |-> fn, h |-> H, cls |-> cls]
Sc(off, n) == [op |-> "Scribble", fn |-> "caller", h |-> H, off |-> off, len |-> n]
ScRet == [op |-> "ScribbleReturned", fn |-> "caller", h |-> H]
ScRem == [op |-> "ScribbleRem", fn |-> "caller", h |-> H]
\* whole-buffer history
Whole(fn, w, extra, cls) ==
  [ops |-> << Rd(fn, w, extra), Ob(fn, cls), Sc(0, Len(w)), Ob(fn, cls \o "|whole"), ScRet, Ob(fn, cls \o "|whole|returned"),
              ScRem, Ob(fn, cls \o "|whole|returned|remainder") >>]
\* region by region (regions: sequence of <<off, len, name>>), cumulative history
Regional(fn, w, extra, cls, regions) ==
  [ops |-> << Rd(fn, w, extra), Ob(fn, cls) >>
           \o Concat([i \in 1..Len(regions) |-> << Sc(regions[i][1], regions[i][2]), Ob(fn, cls \o "|" \o regions[i][3]) >>])]
\* two-step histories (thorough): regions i then j, observed after each
Pairwise(fn, w, extra, cls, regions) ==
  Concat([i \in 1..Len(regions) |-> [j \in 1..Len(regions) |->
     [ops |-> << Rd(fn, w, extra), Ob(fn, cls), Sc(regions[i][1], regions[i][2]), Ob(fn, cls \o "|" \o regions[i][3]),
                 Sc(regions[j][1], regions[j][2]), Ob(fn, cls \o "|" \o regions[i][3] \o "," \o regions[j][3]) >>]]])
Chunks(w, k) == LET n == Len(w)  c == (n + k - 1) \div k IN
  [i \in 1..k |-> << (i - 1) * c, Max(Min(c, n - (i - 1) * c), 0), "chunk" \o ToString(i) >>]
IdRegions(w, st, ct) ==
  LET cs == Max(CryptoPubLen(ct), 0)  ss == Max(SigPubLen(st), 0) IN
  << << 0, cs, "pub" >>, << cs, BlockLen - cs - ss, "padding" >>, << BlockLen - ss, ss, "spk" >>, << BlockLen, Len(w) - BlockLen, "cert" >> >>
All(fn, w, extra, cls, regions) ==
  << Whole(fn, w, extra, cls), Regional(fn, w, extra, cls, regions) >> \o (IF Thorough THEN Pairwise(fn, w, extra, cls, regions) ELSE << >>)

IdFns == << "ReadKeysAndCert", "ReadDestination", "ReadRouterIdentity", "NewDestinationFromBytes" >>
LibPairs == Cross2(<< 0, 1, 2, 7, 11 >>, << 0, 4 >>, LAMBDA st, ct : << st, ct >>)
IdentVecs ==
  Concat(Cross2(IdFns, LibPairs, LAMBDA fn, p :
     LET w == EncIdentity("keyx", p[1], p[2], p[1] + p[2]) \o << 9, 9 >> IN All(fn, w, << >>, "keyx/" \o ToString(p[1]) \o "/" \o ToString(p[2]), IdRegions(w, p[1], p[2]))))
  \o Concat(SeqMap(LAMBDA fn : LET w == EncIdentity("null", 0, 0, 3) IN All(fn, w, << >>, "null", IdRegions(w, 0, 0)), IdFns))
  \o All("ReadKeysAndCertElgAndEd25519", EncIdentity("key", 7, 0, 5), << >>, "fast/7/0", IdRegions(EncIdentity("key", 7, 0, 5), 7, 0))
  \o All("ReadKeysAndCertX25519AndEd25519", EncIdentity("key", 7, 4, 6), << >>, "fast/7/4", IdRegions(EncIdentity("key", 7, 4, 6), 7, 4))
CertVecs ==
  All("ReadCertificate", << 5, 0, 6, 0, 7, 0, 4, 9, 9, 1, 2 >>, << >>, "cert", Chunks(<< 5, 0, 6, 0, 7, 0, 4, 9, 9, 1, 2 >>, 4))
  \o All("NewKeyCertificate", << 5, 0, 6, 0, 7, 0, 4, 9, 9, 1, 2 >>, << >>, "keycert", Chunks(<< 5, 0, 6, 0, 7, 0, 4, 9, 9, 1, 2 >>, 4))
  \o All("KeyCertificateFromCertificate", << 5, 0, 4, 0, 7, 0, 4 >>, << >>, "keycert", Chunks(<< 5, 0, 4, 0, 7, 0, 4 >>, 3))
SigVecs ==
  Concat(SeqMap(LAMBDA st : LET w == Fill(SigLen(st), st) \o << 1 >> IN
     All("ReadSignature", w, [typ |-> st], "sig" \o ToString(st), Chunks(w, 3)) \o All("NewSignature", w, [typ |-> st], "sig" \o ToString(st), Chunks(w, 3))
     \o All("NewSignatureFromBytes", Fill(SigLen(st), st), [typ |-> st], "sig" \o ToString(st), Chunks(Fill(SigLen(st), st), 3)), << 0, 1, 7, 11 >>))
OffVecs ==
  Concat(Cross2(<< 7, 0, 1 >>, << 7, 11, 1, 0 >>, LAMBDA dst, tst : LET w == EncOffline(<< 101, 36, 248, 0 >>, tst, dst, 4) \o << 7 >> IN
     All("ReadOfflineSignature", w, [typ |-> dst], "off/" \o ToString(tst) \o "/" \o ToString(dst), Chunks(w, 4))))
LeaseVecs ==
  All("ReadLease", EncLease(3, << 1, 2, 3, 4 >>, << 0, 0, 1, 138, 207, 146, 32, 0 >>), << >>, "lease", Chunks(Fill(44, 1), 4))
  \o All("NewLeaseFromBytes", EncLease(3, << 1, 2, 3, 4 >>, << 0, 0, 1, 138, 207, 146, 32, 0 >>), << >>, "lease", Chunks(Fill(44, 1), 4))
  \o All("ReadLease2", EncLease2(3, << 1, 2, 3, 4 >>, << 101, 36, 248, 0 >>), << >>, "lease2", Chunks(Fill(40, 1), 4))
  \o All("NewLease2FromBytes", EncLease2(3, << 1, 2, 3, 4 >>, << 101, 36, 248, 0 >>), << >>, "lease2", Chunks(Fill(40, 1), 4))
DestPairs == << << 7, 4 >>, << 0, 0 >>, << 1, 0 >>, << 11, 4 >>, << 7, 0 >> >>
LSW(p) == EncLeaseSet(EncIdentity("key", p[1], p[2], p[1] + 1), p[1], 2, << EncLease(1, << 0, 0, 0, 1 >>, << 0, 0, 1, 138, 207, 146, 32, 0 >>), EncLease(2, << 0, 0, 0, 2 >>, << 0, 0, 1, 138, 207, 146, 32, 9 >>) >>, 7)
LS2W(p, off) == EncLS2(EncIdentity("key", p[1], p[2], p[1] + 2), << 101, 36, 248, 0 >>, << 2, 88 >>, IF off THEN 1 ELSE 0,
                       IF off THEN EncOffline(<< 101, 36, 250, 0 >>, 7, p[1], 3) ELSE << >>, << >>, 2,
                       << EncEncKey(4, 32, Fill(32, 5)), EncEncKey(0, 256, Fill(256, 6)) >>, 2,
                       << EncLease2(1, << 0, 0, 0, 1 >>, << 101, 36, 249, 0 >>), EncLease2(2, << 0, 0, 0, 2 >>, << 101, 36, 249, 9 >>) >>, IF off THEN 7 ELSE p[1], 8)
MetaW(p, off) == EncMeta(EncIdentity("key", p[1], p[2], p[1] + 3), << 101, 36, 248, 0 >>, << 2, 88 >>, IF off THEN 1 ELSE 0,
                         IF off THEN EncOffline(<< 101, 36, 250, 0 >>, 7, p[1], 3) ELSE << >>, << >>, 2,
                         << EncMetaEntry(5, 3, << 101, 36, 249, 0 >>, 7, << >>), EncMetaEntry(6, 1, << 101, 36, 249, 1 >>, 9, << >>) >>, IF off THEN 7 ELSE p[1], 8)
ELSW(st, off) == EncELS(st, << 101, 36, 248, 0 >>, << 2, 88 >>, IF off THEN 1 ELSE 0, IF off THEN EncOffline(<< 101, 36, 250, 0 >>, 7, st, 3) ELSE << >>, 100, Fill(100, 5), IF off THEN 7 ELSE st, 6)
SetVecs ==
  Concat(SeqMap(LAMBDA p : All("ReadLeaseSet", LSW(p), << >>, "ls/" \o ToString(p[1]) \o "/" \o ToString(p[2]), Chunks(LSW(p), 8)), DestPairs))
  \o Concat(Cross2(DestPairs, << FALSE, TRUE >>, LAMBDA p, off : All("ReadLeaseSet2", LS2W(p, off), << >>, "ls2/" \o ToString(p[1]) \o "/" \o ToString(p[2]) \o (IF off THEN "/off" ELSE ""), Chunks(LS2W(p, off), 8))))
  \o Concat(Cross2(DestPairs, << FALSE, TRUE >>, LAMBDA p, off : All("ReadMetaLeaseSet", MetaW(p, off), << >>, "meta/" \o ToString(p[1]) \o "/" \o ToString(p[2]) \o (IF off THEN "/off" ELSE ""), Chunks(MetaW(p, off), 8))))
  \o Concat(Cross2(<< 11, 7, 0, 1 >>, << FALSE, TRUE >>, LAMBDA st, off : All("ReadEncryptedLeaseSet", ELSW(st, off), << >>, "els/" \o ToString(st) \o (IF off THEN "/off" ELSE ""), Chunks(ELSW(st, off), 8))))
\* structures that really verify: the outcome of Verify() is part of every observation, so a check that runs over memory the caller
\* still owns shows up after the overwrite
RdS(sh, cls) == [op |-> "ReadSigned", h |-> H, cls |-> cls] @@ sh
SignedSession(sh, cls) ==
  LET n == Len(sh.base)  fn == sh.fn IN
  << [ops |-> << RdS(sh, cls), Ob(fn, cls), Sc(0, n), Ob(fn, cls \o "|whole"), ScRet, Ob(fn, cls \o "|whole|returned") >>],
     [ops |-> << RdS(sh, cls), Ob(fn, cls) >> \o Concat([i \in 1..4 |-> << Sc(Chunks(sh.base, 4)[i][1], Chunks(sh.base, 4)[i][2]), Ob(fn, cls \o "|chunk" \o ToString(i)) >>])] >>
T4s == << 101, 36, 248, 0 >>
\* (empty options: the options mapping of a LeaseSet2 / MetaLeaseSet is outside the property's list, and a parsed mapping does keep
\*  pointing into the buffer it was read from, which Verify() would then reflect; RouterInfo is outside the list altogether)
SignedVecs ==
  Concat(SeqMap(LAMBDA st : 
    SignedSession(SignedShape("ReadLeaseSet", EncLeaseSet(EncIdentity("key", st, 4, 2), st, 2, << EncLease(1, T4s, Zeros(8)), EncLease(2, T4s, Zeros(8)) >>, 5), st, 0), "signed/ls/" \o ToString(st))
    \o SignedSession(SignedShape("ReadLeaseSet2", EncLS2(EncIdentity("key", st, 4, 2), T4s, << 2, 88 >>, 0, << >>, << >>, 1, << EncEncKey(4, 32, Fill(32, 1)) >>, 1, << EncLease2(1, T4s, T4s) >>, st, 5), st, 0), "signed/ls2/" \o ToString(st))
    \o SignedSession(SignedShape("ReadLeaseSet2", EncLS2(EncIdentity("key", st, 4, 2), T4s, << 2, 88 >>, 1, EncOffline(T4s, 7, st, 4), << >>, 2, << EncEncKey(4, 32, Fill(32, 1)), EncEncKey(0, 256, Fill(256, 2)) >>, 2, << EncLease2(1, T4s, T4s), EncLease2(2, T4s, T4s) >>, 7, 5), st, 0), "signed/ls2off/" \o ToString(st))
    \o SignedSession(SignedShape("ReadMetaLeaseSet", EncMeta(EncIdentity("key", st, 4, 2), T4s, << 2, 88 >>, 0, << >>, << >>, 1, << EncMetaEntry(1, 3, T4s, 1, << >>) >>, st, 5), st, 0), "signed/meta/" \o ToString(st))
    \o SignedSession(SignedShape("ReadMetaLeaseSet", EncMeta(EncIdentity("key", st, 4, 2), T4s, << 2, 88 >>, 1, EncOffline(T4s, 7, st, 4), << >>, 2, << EncMetaEntry(1, 3, T4s, 1, << >>), EncMetaEntry(2, 5, T4s, 2, << >>) >>, 7, 5), st, 0), "signed/metaoff/" \o ToString(st)),
    << 7, 11 >>))
  \o SignedSession(SignedShape("ReadEncryptedLeaseSet", EncELS(11, T4s, << 2, 88 >>, 0, << >>, 100, Fill(100, 2), 11, 5), 11, 0), "signed/els/11")
  \o SignedSession(SignedShape("ReadEncryptedLeaseSet", EncELS(11, T4s, << 2, 88 >>, 1, EncOffline(T4s, 7, 11, 4), 100, Fill(100, 2), 7, 5), 11, 0), "signed/elsoff/11")
(* Extension family X05: the same overwrite histories for what the property's list leaves out - options mappings, router addresses,   *)
(* RouterInfo, and LeaseSet2 / MetaLeaseSet / RouterInfo WITH options whose Verify() is observed.  Every op carries ext = TRUE, which   *)
(* makes Trace.tla judge the observations under X05 instead of C08.                                                                   *)
OptsX == << << << 97 >>, << 98 >> >>, << << 99, 97, 112, 115 >>, << 102, 82 >> >> >>
AddrX == EncRouterAddress(5, Zeros(8), << 78, 84, 67, 80, 50 >>, << << << 104, 111, 115, 116 >>, << 49, 46, 50, 46, 51, 46, 52 >> >>, << << 112, 111, 114, 116 >>, << 56, 48 >> >> >>)
RIX == EncRouterInfo(EncIdentity("key", 7, 4, 2), 7, Zeros(8), << AddrX, AddrX >>, 0, OptsX, 5)
ExtOf(v) == [ops |-> SeqMap(LAMBDA o : o @@ [ext |-> TRUE], v.ops)]
ExtVecs ==
  SeqMap(ExtOf,
    All("ReadMapping", SerMapping(OptsX) \o << 9 >>, << >>, "mapping", Chunks(SerMapping(OptsX), 4))
    \o All("NewMapping", SerMapping(OptsX), << >>, "mapping", Chunks(SerMapping(OptsX), 4))
    \o All("ReadRouterAddress", AddrX \o << 9 >>, << >>, "raddr", Chunks(AddrX, 6))
    \o All("ReadRouterInfo", RIX, << >>, "rinfo", Chunks(RIX, 8))
    \o All("ReadLeaseSet2", LS2W(<< 7, 4 >>, FALSE), << >>, "ls2", Chunks(LS2W(<< 7, 4 >>, FALSE), 8))
    \o SignedSession(SignedShape("ReadLeaseSet2", EncLS2(EncIdentity("key", 7, 4, 2), T4s, << 2, 88 >>, 0, << >>, OptsX, 1, << EncEncKey(4, 32, Fill(32, 1)) >>, 1, << EncLease2(1, T4s, T4s) >>, 7, 5), 7, 0), "signed/ls2opts")
    \o SignedSession(SignedShape("ReadMetaLeaseSet", EncMeta(EncIdentity("key", 7, 4, 2), T4s, << 2, 88 >>, 0, << >>, OptsX, 1, << EncMetaEntry(1, 3, T4s, 1, OptsX) >>, 7, 5), 7, 0), "signed/metaopts")
    \o SignedSession(SignedShape("ReadRouterInfo", RIX, 7, 0), "signed/rinfo"))
CONSTANT Part       \* "listed" | "ext"
Vecs == IF Part = "ext" THEN ExtVecs ELSE SignedVecs \o IdentVecs \o CertVecs \o SigVecs \o OffVecs \o LeaseVecs \o SetVecs
VARIABLE done
Init == done = FALSE
Next == ~done /\ ndJsonSerialize(OutFile, Vecs) /\ PrintT(<< "GENERATED", Len(Vecs) >>) /\ done' = TRUE
=============================================================================
