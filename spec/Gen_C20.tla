------------------------------ MODULE Gen_C20 ------------------------------
(* Every catalogued type's zero value; every truncation point of a well-formed encoding of every parsed structure. *)
EXTENDS Enc, J_C05, J_C20, GenUtil, Json
CONSTANTS Tier, Seed, OutFile
Thorough == Tier = "thorough"
ZeroVecs == << [op |-> "Catalogue", fn |-> "catalogue"] >>
            \o SeqMap(LAMBDA t : [op |-> "ZeroMethods", fn |-> "zero", type |-> t], StructTypes \o OtherTypes)
P(fn, w, extra, cls) == [op |-> "PartialMethods", fn |-> fn, in |-> w, cls |-> cls] @@ extra
T4 == << 101, 36, 248, 0 >>
Id(st, ct) == EncIdentity("key", st, ct, st + ct + 1)
Addr == EncRouterAddress(5, Zeros(8), << 78, 84, 67, 80, 50 >>, << << << 104, 111, 115, 116 >>, << 49, 46, 50, 46, 51, 46, 52 >> >> >>)
\* an SSU2 address with introducer options (its String() and introducer helpers walk numbered keys), cut at every point; every method of what
\* comes back is first called from two goroutines at once.  These sessions come FIRST: nothing in the process has touched such an address yet.
AddrSSU == EncRouterAddress(8, Zeros(8), << 83, 83, 85, 50 >>, << << << 99, 97, 112, 115 >>, << 66, 67, 52 >> >>, << << 105, 101, 120, 112, 48 >>, << 49 >> >>,
                                                                  << << 105, 104, 48 >>, Fill(32, 1) >>, << << 105, 116, 97, 103, 48 >>, << 55 >> >> >>)
ColdVecs == << P("ReadRouterAddress", AddrSSU, [pairwise |-> TRUE, cold |-> TRUE], "raddr-ssu2-cold"),
               P("ReadRouterInfo", EncRouterInfo(Id(7, 4), 7, Zeros(8), << AddrSSU >>, 0, << >>, 3), [pairwise |-> TRUE, cold |-> TRUE], "rinfo-ssu2-cold") >>
PartialVecs ==
  Concat(SeqMap(LAMBDA p :
     << P("ReadKeysAndCert", Id(p[1], p[2]), << >>, "kac"), P("ReadKeysAndCertElgAndEd25519", Id(7, 0), << >>, "fast"), P("ReadKeysAndCertX25519AndEd25519", Id(7, 4), << >>, "fast"),
        P("ReadDestination", Id(p[1], p[2]), << >>, "dest"), P("NewDestinationFromBytes", Id(p[1], p[2]), << >>, "dest"), P("ReadRouterIdentity", Id(p[1], p[2]), << >>, "ri"),
        P("ReadRouterInfo", EncRouterInfo(Id(p[1], p[2]), p[1], Zeros(8), << Addr, Addr >>, 0, << << << 97 >>, << 98 >> >> >>, 3), << >>, "rinfo"),
        P("ReadLeaseSet", EncLeaseSet(Id(p[1], p[2]), p[1], 1, << EncLease(1, T4, Zeros(8)) >>, 3), << >>, "ls"),
        P("ReadLeaseSet2", EncLS2(Id(p[1], p[2]), T4, << 2, 88 >>, 1, EncOffline(T4, 7, p[1], 2), << << << 97 >>, << 98 >> >> >>, 1, << EncEncKey(4, 32, Fill(32, 1)) >>, 1, << EncLease2(1, T4, T4) >>, 7, 3), << >>, "ls2"),
        P("ReadMetaLeaseSet", EncMeta(Id(p[1], p[2]), T4, << 2, 88 >>, 0, << >>, << >>, 1, << EncMetaEntry(1, 3, T4, 1, << >>) >>, p[1], 3), << >>, "meta") >>,
     IF Thorough THEN << << 7, 4 >>, << 0, 0 >>, << 1, 0 >>, << 11, 4 >> >> ELSE << << 7, 4 >>, << 0, 0 >> >>))
  \o << P("ReadCertificate", << 5, 0, 4, 0, 7, 0, 4 >>, << >>, "cert"), P("NewKeyCertificate", << 5, 0, 4, 0, 7, 0, 4 >>, << >>, "keycert"),
        P("ReadRouterAddress", Addr, << >>, "raddr"), P("ReadMapping", SerMapping(<< << << 97 >>, << 98 >> >> >>), << >>, "mapping"),
        P("ReadOfflineSignature", EncOffline(T4, 7, 7, 1), [typ |-> 7], "off"), P("ReadSignature", Fill(64, 1), [typ |-> 7], "sig"),
        P("ReadEncryptedLeaseSet", EncELS(11, T4, << 2, 88 >>, 1, EncOffline(T4, 7, 11, 2), 100, Fill(100, 2), 7, 3), << >>, "els"),
        P("ReadLease", Fill(44, 1), << >>, "lease"), P("ReadLease2", Fill(40, 1), << >>, "lease2") >>
\* values that come back with an error for reasons other than truncation: every offset set to each boundary value (counts past their limit,
\* unknown types, flag bits, lengths), every 16-bit boundary value at every offset; the methods of whatever the parser returns are called
MutVecs == SeqMap(LAMBDA v : [op |-> "ByteSweep", fn |-> v.fn, in |-> v["in"], values |-> << 0, 1, 2, 3, 4, 5, 6, 7, 8, 9, 10, 11, 12, 13, 14, 15, 16, 17, 18, 19, 20, 21, 127, 128, 254, 255 >>, values2 |-> << 0, 256, 65535 >>,
                              step |-> 1, partial |-> TRUE, cls |-> "partial-" \o v.cls] @@ (IF "typ" \in DOMAIN v THEN [typ |-> v.typ] ELSE << >>), PartialVecs)
\* "mutate, then sign": genuinely signed content with one structural defect (every offset of the covered region set to each boundary value before
\* keys and signatures go into the reference slots).  What comes back together with an error must not verify.
Opts2 == << << << 97 >>, << 98 >> >>, << << 99 >>, << 100 >> >> >>
SMS(fn, base, st, typ, k) ==
  LET sl == SlotsOf(fn, base, typ) IN
  [op |-> "SignedMutSweep", fn |-> fn, in |-> base, base |-> base, st |-> st, typ |-> typ, prefix |-> StoreTypePrefix(fn), stream |-> k, partial |-> TRUE, step |-> 1,
   values |-> << 0, 1, 2, 3, 4, 8, 16, 17, 128, 255 >>, values2 |-> << 0, 256, 65535 >>, cls |-> "signed-defect", patches |-> DefectPatches(fn, base, typ),
   idkey |-> [off |-> sl.idoff, len |-> sl.idlen], sig |-> [off |-> sl.sigoff, len |-> sl.siglen]]
  @@ (IF sl.off THEN [offline |-> [keyoff |-> sl.keyoff, keylen |-> sl.keylen, tst |-> (IF fn = "ReadEncryptedLeaseSet" THEN RefEncryptedLeaseSet(base).tst
                                                                                        ELSE IF fn = "ReadLeaseSet2" THEN RefLeaseSet2(base).h.tst ELSE RefMetaLeaseSet(base).h.tst),
                                   sigoff |-> sl.osigoff, siglen |-> sl.osiglen, from |-> sl.from, to |-> sl.to]] ELSE << >>)
SignedDefectVecs ==
  << SMS("ReadEncryptedLeaseSet", EncELS(11, T4, << 2, 88 >>, 0, << >>, 100, Fill(100, 2), 11, 5), 11, 0, 1),
     SMS("ReadEncryptedLeaseSet", EncELS(7, T4, << 2, 88 >>, 1, EncOffline(T4, 7, 7, 4), 100, Fill(100, 2), 7, 5), 7, 0, 2),
     SMS("ReadMetaLeaseSet", EncMeta(Id(7, 4), T4, << 2, 88 >>, 0, << >>, Opts2, 1, << EncMetaEntry(1, 3, T4, 1, << >>) >>, 7, 5), 7, 0, 3),
     SMS("ReadMetaLeaseSet", EncMeta(Id(7, 4), T4, << 2, 88 >>, 1, EncOffline(T4, 7, 7, 4), Opts2, 2, << EncMetaEntry(1, 3, T4, 1, << >>), EncMetaEntry(2, 5, T4, 2, Opts2) >>, 7, 5), 7, 0, 4),
     SMS("ReadLeaseSet2", EncLS2(Id(7, 4), T4, << 2, 88 >>, 0, << >>, Opts2, 1, << EncEncKey(4, 32, Fill(32, 1)) >>, 1, << EncLease2(1, T4, T4) >>, 7, 5), 7, 0, 5),
     SMS("ReadLeaseSet2", EncLS2(Id(11, 4), T4, << 2, 88 >>, 1, EncOffline(T4, 7, 11, 4), << >>, 1, << EncEncKey(4, 32, Fill(32, 1)) >>, 1, << EncLease2(1, T4, T4) >>, 7, 5), 11, 0, 6),
     SMS("ReadRouterInfo", EncRouterInfo(Id(7, 4), 7, Zeros(8), << Addr >>, 0, Opts2, 5), 7, 0, 7),
     SMS("ReadLeaseSet", EncLeaseSet(Id(7, 4), 7, 2, << EncLease(1, T4, Zeros(8)), EncLease(2, T4, Zeros(8)) >>, 5), 7, 0, 8) >>
Vecs == ColdVecs \o ZeroVecs \o PartialVecs \o MutVecs \o SignedDefectVecs
VARIABLE done
Init == done = FALSE
Next == ~done /\ ndJsonSerialize(OutFile, Vecs) /\ PrintT(<< "GENERATED", Len(Vecs) >>) /\ done' = TRUE
=============================================================================
