------------------------------ MODULE Gen_C12 ------------------------------
(* Behaviours replayed into the real primitive codecs (Integer, Date, String). *)
EXTENDS Prims, GenUtil, TLC, Json

CONSTANTS Tier, Seed, OutFile

Thorough == Tier = "thorough"
EncFns == << "NewIntegerFromInt", "EncodeIntN" >>
DecFns == << "Int", "IntSafe", "UintSafe", "DecodeIntN" >>
Sizes == Range(-1, 9)

\* widths 1 and 2 exhaustively, every size argument -1..9, in chunks
Chunk == 8192
EncRanges ==
  Cross3(EncFns, Sizes, Range(0, 8), LAMBDA fn, sz, c :
     [op |-> "EncRange", fn |-> fn, size |-> sz, from |-> c * Chunk, to |-> (IF c = 8 THEN 65536 + 300 ELSE (c + 1) * Chunk - 1)])

\* boundary values 2^(8n)-1, 2^(8n), 2^63-1 and pseudo-random values of every width
Boundaries ==
  << << >>, << 1 >> >> \o Concat([n \in 1..7 |-> << Rep(n, 255), Pow256(n) >>]) \o << MaxInt64 >>
RandomVals(cnt) ==
  [k \in 1..cnt |-> LET w == (k % 8) + 1  b == Rnd(Seed, w, k) IN
                     IF w = 8 THEN << b[1] % 128 >> \o Tail(b) ELSE b]
Vals == Boundaries \o RandomVals(IF Thorough THEN 400 ELSE 40)
EncInts ==
  Cross3(EncFns, Sizes, Vals, LAMBDA fn, sz, v :
     [op |-> "EncInt", fn |-> fn, size |-> sz, neg |-> FALSE, v |-> PadTo(v, 8)])
  \o Cross2(EncFns, << 1, 2, 8 >>, LAMBDA fn, sz : [op |-> "EncInt", fn |-> fn, size |-> sz, neg |-> TRUE, v |-> PadTo(<< 1 >>, 8)])
  \o Cross2(EncFns, << 1, 8 >>, LAMBDA fn, sz : [op |-> "EncInt", fn |-> fn, size |-> sz, neg |-> TRUE, v |-> TwoPow63])

\* decoders: every 1- and 2-byte string (as chunked blobs), boundary strings of every length 0..10
Blob1 == [i \in 1..256 |-> i - 1]
Blob2(c) == [j \in 1..8192 |-> LET v == c * 4096 + ((j - 1) \div 2) IN IF j % 2 = 1 THEN v \div 256 ELSE v % 256]
DecChunkVecs ==
  SeqMap(LAMBDA fn : [op |-> "DecChunks", fn |-> fn, width |-> 1, blob |-> Blob1], DecFns)
  \o Cross2(DecFns, Range(0, 15), LAMBDA fn, c : [op |-> "DecChunks", fn |-> fn, width |-> 2, blob |-> Blob2(c)])
DecInputs ==
  Concat([m \in 1..11 |-> LET n == m - 1 IN << Zeros(n), Rep(n, 255), Rep(n, 127), Rnd(Seed, n, n), (IF n > 0 THEN << 128 >> \o Zeros(n - 1) ELSE << >>),
                           (IF n > 0 THEN << 127 >> \o Rep(n - 1, 255) ELSE << >>) >>])
  \o [k \in 1..(IF Thorough THEN 300 ELSE 30) |-> Rnd(Seed, (k % 8) + 1, 1000 + k)]
DecInts == Cross2(DecFns, DecInputs, LAMBDA fn, in : [op |-> "DecInt", fn |-> fn, in |-> in])
IntFromBytesVecs == SeqMap(LAMBDA in : [op |-> "IntFromBytes", fn |-> "NewIntegerFromBytes", in |-> in], DecInputs)

ReadInts ==
  Cross3(<< "ReadInteger", "NewInteger" >>, Sizes, Range(0, 11), LAMBDA fn, sz, n :
     [op |-> "ReadInt", fn |-> fn, size |-> sz, in |-> Rnd(Seed, n, sz + 20)])

FixedVecs ==
  Cross2(<< "U16", "U32", "U64", "I16", "I32", "I64" >>,
         << Zeros(8), Rep(8, 255), TwoPow63, MaxInt64, PadTo(<< 128, 0 >>, 8), PadTo(<< 127, 255 >>, 8), PadTo(<< 128, 0, 0, 0 >>, 8),
            PadTo(<< 1, 2 >>, 8), PadTo(<< 1, 2, 3, 4 >>, 8), << 1, 2, 3, 4, 5, 6, 7, 8 >> >>
         \o [k \in 1..(IF Thorough THEN 200 ELSE 20) |-> Rnd(Seed, 8, 2000 + k)],
         LAMBDA fn, bits : [op |-> "Fixed", fn |-> fn, bits |-> bits])

\* dates: ms values incl. 0, 1, 999, 1000, 2^31*1000, 2^63-1 and around the limits of nanosecond arithmetic
MsVals ==
  << << >>, << 1 >>, NatLimbs(999), NatLimbs(1000), MulSmallBE(Pow256(4), 500), MaxInt64,
     << 8, 99, 75, 228, 24, 161 >>,       \* 9223372036001 ms, just below 2^63 ns
     << 8, 99, 75, 228, 24, 162, 30 >>,    \* beyond 2^63 ns (year 2262)
     << 64, 0, 0, 0, 0, 0, 0, 0 >>, << 1, 0, 0, 0, 0, 0, 0 >> >>
  \o [k \in 1..(IF Thorough THEN 300 ELSE 30) |-> LET b == Rnd(Seed, (k % 8) + 1, 3000 + k) IN
                                                   IF Len(b) = 8 THEN << b[1] % 128 >> \o Tail(b) ELSE b]
SecVals ==
  << << >>, << 1 >>, Pow256(4), Rep(4, 255), NatLimbs(2147483647), << 2, 37, 169, 53, 159 >>,
     DivModSmallBE(MaxInt64, 1000)[1], AddBE(DivModSmallBE(MaxInt64, 1000)[1], << 1 >>), MaxInt64,
     \* second counts whose product with 1000 wraps around 2^64 back into the non-negative range (ceil(2^64/1000), + 100, 2^61, 2^62, 2^61 + 1.7e9)
     << 0, 65, 137, 55, 75, 198, 167, 240 >>, << 0, 65, 137, 55, 75, 198, 168, 84 >>, << 32, 0, 0, 0, 0, 0, 0, 0 >>, << 64, 0, 0, 0, 0, 0, 0, 0 >>, << 32, 0, 0, 0, 101, 83, 241, 0 >> >>
  \o [k \in 1..(IF Thorough THEN 100 ELSE 10) |-> Rnd(Seed, (k % 5) + 1, 4000 + k)]
DateVecs ==
  SeqMap(LAMBDA v : [op |-> "DateNew", fn |-> "NewDateFromMillis", neg |-> FALSE, v |-> PadTo(v, 8), ns |-> 0], MsVals)
  \o SeqMap(LAMBDA v : [op |-> "DateNew", fn |-> "NewDateFromUnix", neg |-> FALSE, v |-> PadTo(v, 8), ns |-> 0], SecVals)
  \o Cross2(SeqMap(LAMBDA v : v, SubSeq(SecVals, 1, 6)) \o [k \in 1..5 |-> Rnd(Seed, 4, 4500 + k)], << 0, 1, 999999, 1000000, 999999999 >>,
            LAMBDA v, ns : [op |-> "DateNew", fn |-> "DateFromTime", neg |-> FALSE, v |-> PadTo(v, 8), ns |-> ns])
  \o << [op |-> "DateNew", fn |-> "NewDateFromMillis", neg |-> TRUE, v |-> PadTo(<< 1 >>, 8), ns |-> 0],
        [op |-> "DateNew", fn |-> "NewDateFromUnix", neg |-> TRUE, v |-> PadTo(<< 1 >>, 8), ns |-> 0],
        [op |-> "DateNew", fn |-> "NewDateFromMillis", neg |-> TRUE, v |-> TwoPow63, ns |-> 0] >>
  \o SeqMap(LAMBDA v : [op |-> "DateGet", fn |-> "Date", in |-> PadTo(v, 8)], MsVals \o << Rep(8, 255), TwoPow63 >>)

\* strings: constructor lengths around the limit; reader on every prefix of inputs with every declared length
StrLens == << 0, 1, 2, 3, 127, 128, 254, 255, 256, 257, 300 >>
NewStrs ==
  Cross2(<< "NewI2PString", "ToI2PString" >>, StrLens, LAMBDA fn, n : [op |-> "NewStr", fn |-> fn, s |-> Rnd(Seed, n, n)])
  \o Cross2(<< "NewI2PString", "ToI2PString" >>, << << 0 >>, << 61 >>, << 59 >>, << 255 >>, << 195, 169 >>, << 0, 0 >> >>,
            LAMBDA fn, s : [op |-> "NewStr", fn |-> fn, s |-> s])
Declared == IF Thorough THEN Range(0, 255) ELSE << 0, 1, 2, 3, 5, 16, 100, 127, 128, 200, 253, 254, 255 >>
StrSweeps ==
  SeqMap(LAMBDA d : [op |-> "Sweep", fn |-> "ReadI2PString", in |-> << d >> \o Rnd(Seed, 299, d), cls |-> "declared"], Declared)
StrGets ==
  Cross2(Declared, << -2, -1, 0, 1, 2 >>, LAMBDA d, delta :
     LET n == d + delta IN
     [op |-> "StrGet", fn |-> "I2PString", in |-> (IF n < 0 THEN << >> ELSE << d >> \o Rnd(Seed, n, d + 7))])
  \o << [op |-> "StrGet", fn |-> "I2PString", in |-> << >>] >>
StrFromBytesVecs ==
  Cross2(Declared, << -1, 0, 1 >>, LAMBDA d, delta :
     LET n == d + delta IN
     [op |-> "StrFromBytes", fn |-> "NewI2PStringFromBytes", in |-> (IF n < 0 THEN << >> ELSE << d >> \o Rnd(Seed, n, d + 9))])
FixedSweeps ==
  << [op |-> "Sweep", fn |-> "ReadDate", in |-> Rnd(Seed, 20, 1), cls |-> "fixed"],
     [op |-> "Sweep", fn |-> "NewDate", in |-> Rnd(Seed, 20, 2), cls |-> "fixed"],
     [op |-> "Sweep", fn |-> "ReadHash", in |-> Rnd(Seed, 70, 3), cls |-> "fixed"] >>
  \o Cross2(<< "ReadInteger", "NewInteger" >>, Range(1, 8), LAMBDA fn, sz :
        [op |-> "Sweep", fn |-> fn, size |-> sz, in |-> Rnd(Seed, 12, sz), cls |-> "fixed"])

\* results the caller keeps (and appends to) while neighbouring values are encoded: one- and two-byte integers next to each other in both
\* orders, strings, dates
ChainInt(fn, sz, vals, cls) == [op |-> "Chain", fn |-> fn, kind |-> "int", items |-> SeqMap(LAMBDA v : [fn |-> fn, value |-> v, size |-> sz], vals), cls |-> cls]
ChainVecs ==
  Cross2(<< "NewIntegerFromInt", "EncodeIntN" >>, << 1, 2, 4, 8 >>, LAMBDA fn, sz :
     ChainInt(fn, sz, << 5, 6, 7, 4, 0, 1, 255, 254, 5, 6, 127, 128, 129, 2, 3 >>, "neighbours"))
  \o Cross2(<< "NewIntegerFromInt", "EncodeIntN" >>, << 2, 3 >>, LAMBDA fn, sz : ChainInt(fn, sz, << 256, 257, 255, 65535, 65534, 0, 1 >>, "neighbours"))
  \* decoders of every width side by side (also run from eight goroutines at once by the Chain op)
  \o SeqMap(LAMBDA fn : [op |-> "Chain", fn |-> fn, kind |-> "intdec", cls |-> "widths",
                          items |-> [w \in 1..8 |-> [fn |-> fn, in |-> [i \in 1..w |-> (37 * w + 11 * i) % 128]]] \o [w \in 1..8 |-> [fn |-> fn, in |-> [i \in 1..w |-> 255 - ((w + i) % 100)]]]],
            << "Int", "IntSafe", "UintSafe", "DecodeIntN" >>)
  \o << [op |-> "Chain", fn |-> "I2PString", kind |-> "string", cls |-> "strings",
          items |-> << [fn |-> "ToI2PString", in |-> << 97 >>], [fn |-> "ToI2PString", in |-> << 97, 98 >>], [fn |-> "NewI2PString", in |-> << >>],
                       [fn |-> "NewI2PString", in |-> Fill(255, 3)], [fn |-> "ToI2PString", in |-> << 98 >>], [fn |-> "NewI2PString", in |-> << 97 >>] >>],
        [op |-> "Chain", fn |-> "Date", kind |-> "date", cls |-> "dates",
          items |-> << [ms |-> << 0, 0, 0, 0, 0, 0, 0, 1 >>], [ms |-> << 0, 0, 1, 138, 207, 146, 32, 0 >>], [ms |-> << 0, 0, 0, 0, 0, 0, 0, 2 >>], [ms |-> Zeros(8)] >>] >>
CONSTANT Part      \* "all" | "dates" (C15 replays the date constructors and accessors only)
Vecs == IF Part = "dates" THEN DateVecs ELSE ChainVecs \o EncRanges \o EncInts \o DecChunkVecs \o DecInts \o IntFromBytesVecs \o ReadInts \o FixedVecs
        \o DateVecs \o NewStrs \o StrSweeps \o StrGets \o StrFromBytesVecs \o FixedSweeps

VARIABLE done
Init == done = FALSE
Next == ~done /\ ndJsonSerialize(OutFile, Vecs) /\ PrintT(<< "GENERATED", Len(Vecs) >>) /\ done' = TRUE
=============================================================================
