----------------------------- MODULE J_Struct2 -----------------------------
(***************************************************************************)
(* Accessor projections of accepted composite structures against the       *)
(* reference decoder (C02 direction 1), exact time accessors (C15), and    *)
(* the key-type policy on identities embedded in them (C09).               *)
(***************************************************************************)
EXTENDS J_Struct, Caps

PairsMatch(ap, mp) ==
  Len(ap) = Len(mp) /\ \A i \in 1..Len(mp) : ap[i][1] = EncString(mp[i][1]) /\ ap[i][2] = EncString(mp[i][2])
TimeIs(t, sec, ns) == ~t.neg /\ EqBE(t.sec, sec) /\ t.ns = ns
\* identity projection d (accDest) against the identity that starts at the beginning of in
DestMatches(d, in, r) ==
  /\ d.st = r.st /\ d.ct = r.ct
  /\ d.pub = KACPub(in, 0, r) /\ d.spk = KACSpk(in, 0, r) /\ d.padding = KACPadding(in, 0, r)
  /\ d.cert = Slice(in, BlockLen, r.cert.consumed)
SigMatches(s, in, off, st) == ~s.nil /\ s.type = st /\ s.bytes = Slice(in, off, SigLen(st)) /\ s.len = SigLen(st)
OffMatches(o, b, tst, dst) ==
  /\ ~o.nil /\ o.expires = OffExpires(b) /\ o.tst = tst /\ o.dst = dst
  /\ o.tkey = OffTransientKey(b, tst) /\ o.sig = OffSignature(b, tst, dst)
  /\ o.bytes = Take(b, 6 + SigPubLen(tst) + SigLen(dst)) /\ o.signed = OffSignedData(b, tst)
  /\ TimeIs(o.expires_time, OffExpires(b), 0)

JLeaseAcc(fn, in, rr, cls) ==
  LET a == rr.acc  isL1 == fn \in {"ReadLease", "NewLeaseFromBytes"} IN
  << R("C02", "lease_fields", isL1 /\ rr.ok /\ Len(in) >= LeaseLen,
       a.gw = LeaseGateway(in) /\ a.tid = LeaseTunnelId(in) /\ a.date = LeaseEnd(in) /\ a.bytes = Take(in, LeaseLen), cls),
     R("C15", "lease_time_exact", isL1 /\ rr.ok /\ Len(in) >= LeaseLen /\ FitsInt64(LeaseEnd(in)),
       LET t == DateToTime(LeaseEnd(in)) IN TimeIs(a.time, t[1], t[2]), cls),
     R("C02", "lease2_fields", ~isL1 /\ rr.ok /\ Len(in) >= Lease2Len,
       a.gw = LeaseGateway(in) /\ a.tid = LeaseTunnelId(in) /\ a.end = Lease2End(in) /\ a.bytes = Take(in, Lease2Len), cls),
     R("C15", "lease2_time_exact", ~isL1 /\ rr.ok /\ Len(in) >= Lease2Len,
       TimeIs(a.time, Lease2End(in), 0) /\ a.date = PadTo(MulSmallBE(Lease2End(in), 1000), 8), cls) >>

JSigAcc(fn, in, rr, e, cls) ==
  LET r == RefSignature(in, e.typ) IN
  << R("C02", "signature_fields", r.ok /\ rr.ok, SigMatches(rr.acc, in, 0, e.typ) /\ rr.acc.valid, cls),
     R("C10", "signature_length_matches_table", rr.ok, SigKnown(e.typ) /\ rr.acc.len = SigLen(e.typ) /\ Len(rr.acc.bytes) = SigLen(e.typ), cls),
     R("C10", "signature_known_type_accepted", SigKnown(e.typ) /\ Len(in) >= SigLen(e.typ) /\ fn # "NewSignatureFromBytes", rr.ok, cls) >>

JOffAcc(fn, in, rr, e, cls) ==
  LET r == RefOfflineSig(in, e.typ) IN
  << R("C02", "offline_fields", r.ok /\ rr.ok, OffMatches(rr.acc, in, r.tst, e.typ) /\ rr.acc.len = r.consumed, cls),
     R("C10", "offline_lengths_match_table", rr.ok,
       SigKnown(rr.acc.tst) /\ SigKnown(e.typ) /\ Len(rr.acc.tkey) = SigPubLen(rr.acc.tst) /\ Len(rr.acc.sig) = SigLen(e.typ), cls),
     R("C15", "offline_expiry_exact", rr.ok /\ Len(in) >= 4, TimeIs(rr.acc.expires_time, Take(in, 4), 0), cls) >>

RAddrMatches(a, b, r) ==
  /\ a.cost = b[1] /\ a.expiration = Slice(b, 1, 8) /\ a.style = Slice(b, 9, r.styleEnd - 9)
  /\ PairsMatch(a.pairs, r.m.pairs) /\ a.bytes = Take(b, r.consumed)
JRAddrAcc(fn, in, rr, cls) ==
  LET r == RefRouterAddress(in) IN
  << R("C02", "router_address_fields", r.ok /\ rr.ok, RAddrMatches(rr.acc, in, r), cls) >>

\* extension family X01 (not a listed property): the capability / version / transport queries as functions of the decoded options
KHostOpt == << 104, 111, 115, 116 >>
JRInfoQueries(in, r, a, cls) ==
  LET c == OptVal(r.optPairs, KCaps)
      v == OptVal(r.optPairs, KVersion)
      AddrEnd(i) == IF i < r.naddr THEN r.addrStarts[i + 1] ELSE r.addrEnd
      ra == [i \in 1..r.naddr |-> LET ab == Slice(in, r.addrStarts[i], AddrEnd(i) - r.addrStarts[i]) IN
                                   [b |-> ab, r |-> RefRouterAddress(ab)]]
      styles == [i \in 1..r.naddr |-> Slice(ra[i].b, 10, ra[i].r.styleEnd - 10)]   \* content bytes of the style string
      fam(i) == LET h == OptVal(ra[i].r.m.pairs, KHostOpt) IN IF Len(h) = 0 THEN "" ELSE ParseIP(h).fam
      bw == BandwidthCategory(c)
      q == a.q IN
  << R("X01", "floodfill_iff_f", TRUE, q.floodfill = IsFloodfill(c), cls),
     R("X01", "congestion_flags_iff_D_E_G", TRUE,
       q.medium = IsMediumCongested(c) /\ q.high = IsHighCongested(c) /\ q.rejecting = IsRejectingTunnels(c) /\ q.uncongested = UnCongested(c), cls),
     R("X01", "reachable_iff_R_and_not_U", TRUE, q.reachable = Reachable(c), cls),
     R("X01", "bandwidth_category_is_first_class_letter", TRUE, q.bw = bw, cls),
     R("X01", "bandwidth_predicates_agree_with_category", TRUE,
       q.bwflags = << bw = << 76 >>, bw = << 77 >>, bw = << 78 >>, bw = << 79 >>, bw = << 80 >>, bw = << 88 >> >>, cls),
     R("X01", "supports_ntcp2_ssu2_by_style", TRUE, q.ntcp2 = SupportsStyle(styles, NTCP2) /\ q.ssu2 = SupportsStyle(styles, SSU2), cls),
     R("X01", "has_ip_family_of_literal_hosts", TRUE,
       /\ (\E i \in 1..r.naddr : fam(i) = "4") => q.ipv4
       /\ (\E i \in 1..r.naddr : fam(i) = "6") => q.ipv6
       /\ r.naddr = 0 => (~q.ipv4 /\ ~q.ipv6), cls),
     R("X01", "goodversion_is_0_9_58_to_99", PlainVersion(v), q.goodversion = GoodVersion(v), cls),
     R("X01", "goodversion_needs_three_parts", Len(VersionParts(v)) # 3, ~q.goodversion, cls),
     R("X01", "goodversion_false_iff_error", TRUE, q.goodversion = ~q.goodversion_err, cls) >>

JRInfoAcc(fn, in, rr, e, cls) ==
  LET r == RefRouterInfo(in)  a == rr.acc
      AddrEndOf(i) == IF i < r.naddr THEN r.addrStarts[i + 1] ELSE r.addrEnd IN
  << R("C02", "router_info_fields", r.ok /\ rr.ok,
       /\ a.identity = Take(in, r.id.consumed) /\ a.st = r.id.st /\ a.ct = r.id.ct
       /\ a.published = Slice(in, r.pubOff, 8) /\ a.naddr = r.naddr /\ Len(a.addrs) = r.naddr
       /\ \A i \in 1..r.naddr : a.addrs[i].bytes = Slice(in, r.addrStarts[i], AddrEndOf(i) - r.addrStarts[i])
       /\ \A i \in 1..r.naddr : LET ab == Slice(in, r.addrStarts[i], AddrEndOf(i) - r.addrStarts[i]) IN RAddrMatches(a.addrs[i], ab, RefRouterAddress(ab))
       /\ a.peersize = 0 /\ PairsMatch(a.pairs, r.optPairs)
       /\ SigMatches(a.sig, in, r.sigOff, r.id.st), cls),
     R("C09", "no_prohibited_router_identity", rr.ok /\ a.st >= 0, ~RouterProhibited(a.st, a.ct), cls),
     R("C09", "permitted_supported_accepted", r.ok, rr.ok, cls),
     R("C07", "identhash_is_sha256_of_identity_bytes", r.ok /\ rr.ok /\ "L" \in DOMAIN e /\ "sha" \in DOMAIN e.r /\ e.L = r.id.consumed,
       a.identhash_ok /\ a.identhash = e.r.sha, cls),
     \* the caps / version accessors expose exactly the encoded option values (no length prefix, nothing stripped)
     R("C02", "router_info_caps_and_version_are_option_values", r.ok /\ rr.ok /\ "caps" \in DOMAIN a,
       a.caps = OptVal(r.optPairs, KCaps) /\ a.version = OptVal(r.optPairs, KVersion), cls) >>
  \o (IF r.ok /\ rr.ok /\ "q" \in DOMAIN a THEN JRInfoQueries(in, r, a, cls) ELSE << >>)

LeasesMatch(al, in, off, n, len) == Len(al) = n /\ \A i \in 1..n : al[i].bytes = Slice(in, off + (i - 1) * len, len)
JLSAcc(fn, in, rr, cls) ==
  LET r == RefLeaseSet(in)  a == rr.acc IN
  << R("C02", "leaseset_fields", r.ok /\ rr.ok,
       /\ DestMatches(a.dest, in, r.d) /\ a.enc_ok /\ a.enc = Slice(in, r.encOff, ElgLen)
       /\ a.spk_ok /\ a.spk = Slice(in, r.spkOff, SigPubLen(r.d.st))
       /\ a.n = r.n /\ LeasesMatch(a.leases, in, r.leaseOff, r.n, LeaseLen)
       /\ SigMatches(a.sig, in, r.sigOff, r.d.st), cls),
     R("C09", "no_prohibited_destination", rr.ok /\ ~a.dest.nil, ~DestProhibited(a.dest.st, a.dest.ct), cls),
     R("C09", "permitted_supported_accepted", r.ok, rr.ok, cls) >>

HeaderMatches(a, in, h) ==
  LET p == h.d.consumed IN
  /\ DestMatches(a.dest, in, h.d)
  /\ a.published = Slice(in, p, 4) /\ a.expires = U16(in, p + 4) /\ a.flags = h.flags
  /\ a.hasoff = h.off /\ a.unpub = ((h.flags \div 2) % 2 = 1)
  /\ (h.off => OffMatches(a.off, Drop(in, h.offOff), h.tst, h.d.st))
  /\ (~h.off => a.off.nil)
HeaderTimesExact(a, in, p) ==
  /\ TimeIs(a.published_time, Slice(in, p, 4), 0)
  /\ TimeIs(a.expiration_time, AddBE(Slice(in, p, 4), Slice(in, p + 4, 2)), 0)
JLS2Acc(fn, in, rr, cls) ==
  LET r == RefLeaseSet2(in)  a == rr.acc
      KeyEndOf(i) == IF i < r.nk THEN r.keyStarts[i + 1] ELSE r.leaseOff - 1 IN
  << R("C02", "leaseset2_fields", r.ok /\ rr.ok,
       /\ HeaderMatches(a, in, r.h) /\ PairsMatch(a.pairs, r.optPairs)
       /\ a.nk = r.nk /\ Len(a.keys) = r.nk
       /\ \A i \in 1..r.nk : LET ks == r.keyStarts[i] IN
             a.keys[i].type = U16(in, ks) /\ a.keys[i].len = U16(in, ks + 2) /\ a.keys[i].data = Slice(in, ks + 4, KeyEndOf(i) - ks - 4)
       /\ a.nl = r.nl /\ LeasesMatch(a.leases, in, r.leaseOff, r.nl, Lease2Len)
       /\ a.blinded = ((r.h.flags \div 4) % 2 = 1)
       /\ SigMatches(a.sig, in, r.sigOff, ClosingSigType(r.h)), cls),
     R("C15", "leaseset2_times_exact", r.ok /\ rr.ok, HeaderTimesExact(a, in, r.h.d.consumed), cls),
     R("C09", "no_prohibited_destination", rr.ok /\ ~a.dest.nil, ~DestProhibited(a.dest.st, a.dest.ct), cls),
     R("C09", "permitted_supported_accepted", r.ok, rr.ok, cls) >>

JMetaAcc(fn, in, rr, cls) ==
  LET r == RefMetaLeaseSet(in)  a == rr.acc
      EntryEndOf(i) == IF i < r.ne THEN r.entryStarts[i + 1] ELSE r.sigOff IN
  << R("C02", "metaleaseset_fields", r.ok /\ rr.ok,
       /\ HeaderMatches(a, in, r.h) /\ PairsMatch(a.pairs, r.optPairs)
       /\ a.ne = r.ne /\ Len(a.entries) = r.ne
       /\ \A i \in 1..r.ne : LET es == r.entryStarts[i]  eb == Slice(in, es, EntryEndOf(i) - es) IN
             /\ a.entries[i].hash = Take(eb, HashLen) /\ a.entries[i].type = eb[HashLen + 1]
             /\ a.entries[i].expires = Slice(eb, HashLen + 1, 4) /\ a.entries[i].cost = eb[HashLen + 6]
             /\ PairsMatch(a.entries[i].pairs, RefReadMapping(Drop(eb, HashLen + 6)).pairs)
             /\ a.entries[i].bytes = eb
       /\ SigMatches(a.sig, in, r.sigOff, ClosingSigType(r.h)), cls),
     \* GetEntry(i) succeeds exactly for 0 <= i < n and returns entry i; FindEntriesByType(t) is the subsequence of that type
     R("C02", "metaleaseset_entry_lookups", r.ok /\ rr.ok /\ "getentry" \in DOMAIN a,
       LET EB(i) == Slice(in, r.entryStarts[i], EntryEndOf(i) - r.entryStarts[i])
           OfType(t) == SelectSeq([i \in 1..r.ne |-> EB(i)], LAMBDA eb : eb[HashLen + 1] = t) IN
       /\ \A k \in 1..Len(a.getentry) : LET g == a.getentry[k] IN
             g.ok = (g.i \in 0..(r.ne - 1)) /\ (g.ok => g.bytes = EB(g.i + 1))
       /\ \A k \in 1..Len(a.bytype) : a.bytype[k].entries = OfType(a.bytype[k].t), cls),
     R("C15", "metaleaseset_times_exact", r.ok /\ rr.ok,
       /\ HeaderTimesExact(a, in, r.h.d.consumed)
       /\ \A i \in 1..r.ne : TimeIs(a.entries[i].expires_time, Slice(in, r.entryStarts[i] + HashLen + 1, 4), 0), cls),
     R("C09", "no_prohibited_destination", rr.ok /\ ~a.dest.nil, ~DestProhibited(a.dest.st, a.dest.ct), cls),
     R("C09", "permitted_supported_accepted", r.ok, rr.ok, cls) >>

JELSAcc(fn, in, rr, cls) ==
  LET r == RefEncryptedLeaseSet(in)  a == rr.acc IN
  << R("C02", "encrypted_leaseset_fields", r.ok /\ rr.ok,
       /\ a.st = r.st /\ a.bkey = Slice(in, 2, SigPubLen(r.st))
       /\ a.published = Slice(in, r.hdrOff, 4) /\ a.expires = U16(in, r.hdrOff + 4) /\ a.flags = r.flags
       /\ a.hasoff = r.off /\ (r.off => OffMatches(a.off, Drop(in, r.offOff), r.tst, r.st)) /\ (~r.off => a.off.nil)
       /\ a.innerlen = r.innerLen /\ a.inner = Slice(in, r.lenOff + 2, r.innerLen)
       /\ SigMatches(a.sig, in, r.sigOff, r.cst), cls),
     R("C15", "encrypted_leaseset_times_exact", r.ok /\ rr.ok, HeaderTimesExact(a, in, r.hdrOff), cls),
     R("C10", "encrypted_leaseset_key_length_matches_table", rr.ok, SigKnown(a.st) /\ Len(a.bkey) = SigPubLen(a.st), cls) >>

JAcc2One(fn, in, rr, e) ==
  LET cls == fn \o "/" \o (IF "cls" \in DOMAIN e THEN e.cls ELSE "-") IN
  CASE fn \in {"ReadLease", "NewLeaseFromBytes", "ReadLease2", "NewLease2FromBytes"} -> JLeaseAcc(fn, in, rr, cls)
    [] fn \in {"ReadSignature", "NewSignature", "NewSignatureFromBytes"} -> JSigAcc(fn, in, rr, e, cls)
    [] fn = "ReadOfflineSignature" -> JOffAcc(fn, in, rr, e, cls)
    [] fn = "ReadRouterAddress" -> JRAddrAcc(fn, in, rr, cls)
    [] fn = "ReadRouterInfo" -> JRInfoAcc(fn, in, rr, e, cls)
    [] fn = "ReadLeaseSet" -> JLSAcc(fn, in, rr, cls)
    [] fn = "ReadDestinationFromLeaseSet" ->
         << R("C09", "no_prohibited_destination", rr.ok /\ HasAcc(rr), ~DestProhibited(rr.acc.st, rr.acc.ct), cls) >>
    [] fn = "ReadLeaseSet2" -> JLS2Acc(fn, in, rr, cls)
    [] fn = "ReadMetaLeaseSet" -> JMetaAcc(fn, in, rr, cls)
    [] fn = "ReadEncryptedLeaseSet" -> JELSAcc(fn, in, rr, cls)
    [] OTHER -> << >>
=============================================================================
