------------------------------ MODULE Gen_C07 ------------------------------
(* Pairs of identities differing in exactly one byte (every region; every position in the thorough tier), and equal twins. *)
EXTENDS Enc, Ref, GenUtil, TLC, Json
CONSTANTS Tier, Seed, OutFile
Thorough == Tier = "thorough"
Flip(b, i) == [b EXCEPT ![i] = (IF b[i] = 1 THEN 2 ELSE 1)]    \* stays a valid, different key byte
Pairs == << << 7, 4 >>, << 0, 0 >>, << 1, 0 >>, << 2, 4 >>, << 11, 4 >>, << 7, 0 >> >>
Kinds == << "key", "null", "keyx" >>
\* positions: region boundaries and middles (quick) or every position (thorough)
Positions(w, st, ct) ==
  LET n == Len(w)
      cs == CryptoPubLen(ct)  ss == SigPubLen(st)
      quick == << 1, cs, cs + 1, (cs + BlockLen - ss) \div 2, BlockLen - ss, BlockLen - ss + 1, BlockLen, n >> IN
  IF Thorough THEN [i \in 1..(n - 3) |-> IF i <= BlockLen THEN i ELSE i + 3]   \* skip the 3 certificate header bytes (they change the structure)
  ELSE quick
Vec(kind, p, salt) ==
  LET st == IdentitySigType(kind, p[1])  ct == IdentityCryptoType(kind, p[2])
      w == EncIdentity(kind, p[1], p[2], salt)
      pos == Positions(w, st, ct) IN
  [ops |-> << [op |-> "IdentityPair", fn |-> "pair", a |-> w, b |-> w, cls |-> "equal"],
              [op |-> "IdentityPair", fn |-> "pair", a |-> w, b |-> w \o << 9 >>, cls |-> "equal+tail"] >>
           \o [k \in 1..Len(pos) |-> [op |-> "IdentityPair", fn |-> "pair", a |-> w, b |-> Flip(w, pos[k]), cls |-> "flip"]]]
Vecs == Cross2(Kinds, Pairs, LAMBDA kind, p : Vec(kind, p, p[1] + p[2] + 1))
VARIABLE done
Init == done = FALSE
Next == ~done /\ ndJsonSerialize(OutFile, Vecs) /\ PrintT(<< "GENERATED", Len(Vecs) >>) /\ done' = TRUE
=============================================================================
