------------------------------ MODULE Gen_C18 ------------------------------
(* One shared value per structure type and shape; N in {2,3,4,8} goroutines each calling every read-only method. *)
EXTENDS Enc, J_C05, GenUtil, Json
CONSTANTS Tier, Seed, OutFile
Thorough == Tier = "thorough"
Reps == IF Thorough THEN 200 ELSE 20
Ns == IF Thorough THEN << 2, 3, 4, 8 >> ELSE << 2, 4, 8 >>
T4 == << 101, 36, 248, 0 >>
D8(k) == << 0, 0, 1, 138, 207, 146, 32, k >>      \* an end date in milliseconds
Opts == << << << 97 >>, << 98 >> >>, << << 99, 97, 112, 115 >>, << 102, 82 >> >> >>
Id(kind, st, ct) == EncIdentity(kind, st, ct, st + ct + 1)
Addr == EncRouterAddress(5, Zeros(8), << 78, 84, 67, 80, 50 >>, << << << 104, 111, 115, 116 >>, << 49, 46, 50, 46, 51, 46, 52 >> >>, << << 112, 111, 114, 116 >>, << 56, 48 >> >> >>)
Unsorted == << << << 118 >>, << 50 >> >>, << << 99, 97, 112, 115 >>, << 102, 82 >> >>, << << 97 >>, << 98 >> >> >>     \* wire order v, caps, a
AddrU == EncRouterAddress(5, Zeros(8), << 83, 83, 85, 50 >>, << << << 112, 111, 114, 116 >>, << 56, 48 >> >>, << << 104, 111, 115, 116 >>, << 49, 46, 50, 46, 51, 46, 52 >> >> >>)
ShapesU ==
  << << "ReadMapping", SerMapping(Unsorted), << >> >>, << "NewMapping", SerMapping(Unsorted), << >> >>, << "ReadRouterAddress", AddrU, << >> >>,
     << "ReadRouterInfo", EncRouterInfo(Id("key", 7, 4), 7, Zeros(8), << AddrU, Addr >>, 0, Unsorted, 3), << >> >>,
     << "ReadLeaseSet2", EncLS2(Id("key", 7, 4), T4, << 2, 88 >>, 0, << >>, Unsorted, 1, << EncEncKey(4, 32, Fill(32, 1)) >>, 1, << EncLease2(1, T4, T4) >>, 7, 3), << >> >>,
     << "ReadMetaLeaseSet", EncMeta(Id("key", 7, 4), T4, << 2, 88 >>, 0, << >>, Unsorted, 1, << EncMetaEntry(1, 3, T4, 1, Unsorted) >>, 7, 3), << >> >> >>
Shapes ==
  << << "ReadCertificate", << 5, 0, 6, 0, 7, 0, 4, 9, 9 >>, << >> >>, << "ReadCertificate", << 0, 0, 0 >>, << >> >>, << "NewKeyCertificate", << 5, 0, 4, 0, 7, 0, 4 >>, << >> >>,
     << "KeyCertificateFromCertificate", << 5, 0, 4, 0, 11, 0, 4 >>, << >> >>,
     << "ReadKeysAndCert", Id("key", 7, 4), << >> >>, << "ReadKeysAndCert", Id("null", 0, 0), << >> >>, << "ReadKeysAndCertElgAndEd25519", Id("key", 7, 0), << >> >>,
     << "ReadKeysAndCertX25519AndEd25519", Id("key", 7, 4), << >> >>, << "ReadDestination", Id("keyx", 1, 0), << >> >>, << "NewDestinationFromBytes", Id("key", 11, 4), << >> >>,
     << "ReadRouterIdentity", Id("key", 7, 4), << >> >>, << "ReadRouterIdentity", Id("key", 2, 0), << >> >>,
     << "ReadMapping", SerMapping(Opts), << >> >>, << "ReadRouterAddress", Addr, << >> >>,
     << "ReadRouterInfo", EncRouterInfo(Id("key", 7, 4), 7, Zeros(8), << Addr, Addr >>, 0, Opts, 3), << >> >>,
     << "ReadLeaseSet", EncLeaseSet(Id("key", 7, 4), 7, 2, << EncLease(1, T4, Zeros(8)), EncLease(2, T4, Zeros(8)) >>, 3), << >> >>,
     << "ReadLeaseSet", EncLeaseSet(Id("null", 0, 0), 0, 1, << EncLease(1, T4, Zeros(8)) >>, 3), << >> >>,
     \* end dates newest first, and in no order at all (the expiration queries walk them)
     << "ReadLeaseSet", EncLeaseSet(Id("key", 7, 4), 7, 3, << EncLease(1, T4, D8(3)), EncLease(2, T4, D8(2)), EncLease(3, T4, D8(1)) >>, 3), << >> >>,
     << "ReadLeaseSet", EncLeaseSet(Id("key", 7, 4), 7, 4, << EncLease(1, T4, D8(2)), EncLease(2, T4, D8(9)), EncLease(3, T4, D8(1)), EncLease(4, T4, D8(5)) >>, 3), << >> >>,
     << "ReadLeaseSet2", EncLS2(Id("key", 7, 4), T4, << 2, 88 >>, 0, << >>, Opts, 1, << EncEncKey(4, 32, Fill(32, 1)) >>, 3,
                               << EncLease2(1, T4, << 101, 36, 249, 9 >>), EncLease2(2, T4, << 101, 36, 249, 1 >>), EncLease2(3, T4, << 101, 36, 249, 5 >>) >>, 7, 3), << >> >>,
     << "ReadLeaseSet2", EncLS2(Id("key", 7, 4), T4, << 2, 88 >>, 1, EncOffline(T4, 7, 7, 2), Opts, 2, << EncEncKey(4, 32, Fill(32, 1)), EncEncKey(0, 256, Fill(256, 2)) >>, 2,
                               << EncLease2(1, T4, T4), EncLease2(2, T4, T4) >>, 7, 3), << >> >>,
     << "ReadMetaLeaseSet", EncMeta(Id("key", 7, 4), T4, << 2, 88 >>, 0, << >>, Opts, 2, << EncMetaEntry(1, 3, T4, 1, Opts), EncMetaEntry(2, 5, T4, 2, << >>) >>, 7, 3), << >> >>,
     << "ReadEncryptedLeaseSet", EncELS(11, T4, << 2, 88 >>, 1, EncOffline(T4, 7, 11, 2), 100, Fill(100, 2), 7, 3), << >> >>,
     << "ReadOfflineSignature", EncOffline(T4, 7, 7, 2), [typ |-> 7] >>, << "ReadSignature", Fill(64, 1), [typ |-> 7] >>,
     << "ReadLease", Fill(44, 1), << >> >>, << "ReadLease2", Fill(40, 1), << >> >> >>
\* an SSU2 address with introducer options (the introducer helpers and String() walk them), and one without a host
AddrSSU == EncRouterAddress(8, Zeros(8), << 83, 83, 85, 50 >>, << << << 99, 97, 112, 115 >>, << 66, 67, 52 >> >>, << << 105, 101, 120, 112, 48 >>, << 49 >> >>,
                                                                  << << 105, 104, 48 >>, Fill(32, 1) >>, << << 105, 104, 49 >>, Fill(32, 2) >>, << << 105, 116, 97, 103, 48 >>, << 55 >> >> >>)
\* key certificates with unassigned / reserved / experimental type codes (size lookups take their "unknown type" path)
ShapesK == SeqMap(LAMBDA p : << "NewKeyCertificate", << 5, 0, 4 >> \o BE16(p[1]) \o BE16(p[2]), << >> >>,
                  << << 9, 4 >>, << 12, 4 >>, << 20, 0 >>, << 7, 9 >>, << 65280, 4 >>, << 7, 65534 >>, << 10, 8 >> >>)
           \o SeqMap(LAMBDA p : << "KeyCertificateFromCertificate", << 5, 0, 4 >> \o BE16(p[1]) \o BE16(p[2]), << >> >>, << << 13, 4 >>, << 7, 255 >> >>)
ShapesS == ShapesK \o << << "ReadRouterAddress", AddrSSU, << >> >>,
              << "ReadRouterInfo", EncRouterInfo(Id("key", 7, 4), 7, Zeros(8), << AddrSSU, Addr >>, 0, Opts, 3), << >> >> >>
\* structures that really verify (real keys and signatures put into the reference slots by the driver): Verify() then runs its whole path
SignedShapes ==
  << SignedShape("ReadMetaLeaseSet", EncMeta(Id("key", 7, 4), T4, << 2, 88 >>, 1, EncOffline(T4, 7, 7, 4), Opts, 1, << EncMetaEntry(1, 3, T4, 1, << >>) >>, 7, 5), 7, 0),
     SignedShape("ReadMetaLeaseSet", EncMeta(Id("key", 11, 4), T4, << 2, 88 >>, 0, << >>, Opts, 1, << EncMetaEntry(1, 3, T4, 1, << >>) >>, 11, 5), 11, 0),
     SignedShape("ReadLeaseSet2", EncLS2(Id("key", 7, 4), T4, << 2, 88 >>, 1, EncOffline(T4, 11, 7, 4), Opts, 1, << EncEncKey(4, 32, Fill(32, 1)) >>, 1, << EncLease2(1, T4, T4) >>, 11, 5), 7, 0),
     SignedShape("ReadEncryptedLeaseSet", EncELS(11, T4, << 2, 88 >>, 1, EncOffline(T4, 7, 11, 4), 100, Fill(100, 2), 7, 5), 11, 0),
     SignedShape("ReadLeaseSet", EncLeaseSet(Id("key", 7, 4), 7, 2, << EncLease(1, T4, D8(7)), EncLease(2, T4, D8(3)) >>, 5), 7, 0),
     SignedShape("ReadRouterInfo", EncRouterInfo(Id("key", 7, 4), 7, Zeros(8), << AddrSSU >>, 0, Opts, 5), 7, 0) >>
SignedVecs == Cross2(SignedShapes, Ns, LAMBDA sh, n : [op |-> "Concurrent", n |-> n, reps |-> Reps, cls |-> "signed/n" \o ToString(n)] @@ sh)
\* distinct values verified at the same time: the genuine structure and a copy with one covered bit flipped (three positions each)
DistinctVecs ==
  Concat(SeqMap(LAMBDA sh : SeqMap(LAMBDA off : [op |-> "ConcurrentVerify", n |-> 4, reps |-> Reps * 5, flipoff |-> off, cls |-> "flip"] @@ sh,
                                   ContentOffsets(sh.fn, sh.base, sh.typ)), SignedShapes))
\* identities the caller assembles as struct literals from the exported fields (zero padding: the literal carries no padding slice)
ZeroPadId(st, ct, pubLen, spkLen) == Fill(pubLen, 3) \o Zeros(BlockLen - pubLen - spkLen) \o Fill(spkLen, 5) \o EncKeyCert(st, ct, 0)
LiteralShapes ==
  << << "ReadKeysAndCert", ZeroPadId(7, 4, 32, 32) >>, << "ReadDestination", ZeroPadId(7, 4, 32, 32) >>, << "ReadRouterIdentity", ZeroPadId(7, 4, 32, 32) >>,
     << "ReadKeysAndCert", ZeroPadId(7, 0, 256, 32) >>, << "ReadDestination", ZeroPadId(11, 4, 32, 32) >>, << "ReadKeysAndCert", Id("key", 7, 4) >>,
     << "ReadKeysAndCert", Id("null", 0, 0) >> >>
LiteralVecs == Cross2(LiteralShapes, Ns, LAMBDA sh, n : [op |-> "Concurrent", fn |-> sh[1], in |-> sh[2], n |-> n, reps |-> Reps, literal |-> TRUE, cls |-> "literal/n" \o ToString(n)])
\* shared values no method of which has run before the goroutines get them (bare parser calls): whatever a FIRST query or serialisation
\* writes into the value happens while it is shared.  Among them mappings that ReadMapping hands back through its documented recovery
\* (size field larger than the data, data after the last pair inside the declared size, a wrong delimiter): ordinary values from then on.
ColdFns == { "ReadKeysAndCert", "ReadDestination", "ReadRouterIdentity", "ReadRouterInfo", "ReadRouterAddress", "ReadMapping", "NewMapping", "ReadLeaseSet2",
             "ReadMetaLeaseSet", "ReadLeaseSet", "ReadCertificate" }
ColdShapes == SelectSeq(Shapes \o ShapesU, LAMBDA sh : sh[1] \in ColdFns)
RecoveredMappings == << << 0, 12, 1, 97, 61, 1, 98, 59 >>, << 0, 8, 1, 97, 61, 1, 98, 59, 7, 7 >>, << 0, 12, 1, 97, 61, 1, 98, 59, 1, 99, 58, 1, 100, 59 >>, << 0, 7, 1, 97, 61, 1, 98, 59, 1 >> >>
ColdVecs == Cross2(ColdShapes, << 4, 8 >>, LAMBDA sh, n : [op |-> "Concurrent", fn |-> sh[1], in |-> sh[2], n |-> n, reps |-> Reps, bare |-> TRUE, cls |-> "bare/n" \o ToString(n)] @@ sh[3])
            \o Cross3(<< "ReadMapping", "NewMapping" >>, RecoveredMappings, << 4, 8 >>, LAMBDA fn, w, n :
                       [op |-> "Concurrent", fn |-> fn, in |-> w, n |-> n, reps |-> Reps, bare |-> TRUE, recovered |-> TRUE, cls |-> "bare-recovered/n" \o ToString(n)])
Vecs == SignedVecs \o DistinctVecs \o LiteralVecs \o ColdVecs \o Cross2(Shapes \o ShapesU \o ShapesS, Ns, LAMBDA sh, n : [op |-> "Concurrent", fn |-> sh[1], in |-> sh[2], n |-> n, reps |-> Reps, cls |-> "n" \o ToString(n)] @@ sh[3])
VARIABLE done
Init == done = FALSE
Next == ~done /\ ndJsonSerialize(OutFile, Vecs) /\ PrintT(<< "GENERATED", Len(Vecs) >>) /\ done' = TRUE
=============================================================================
