-------------------------------- MODULE Text --------------------------------
(***************************************************************************)
(* I2P base32 / base64 at bit level.                                       *)
(*   base64: RFC 4648 with the alphabet A-Z a-z 0-9 - ~ and '=' padding    *)
(*   base32: RFC 4648 with the alphabet a-z 2-7 and '=' padding (the       *)
(*           .b32.i2p address form is the unpadded encoding)               *)
(* Text travels as sequences of byte values (TLC cannot index strings).    *)
(***************************************************************************)
EXTENDS Bytes

Pow2(k) == CASE k = 0 -> 1 [] k = 1 -> 2 [] k = 2 -> 4 [] k = 3 -> 8 [] k = 4 -> 16 [] k = 5 -> 32 [] k = 6 -> 64 [] k = 7 -> 128
\* bit i (0 = most significant bit of the first byte); bits past the end are 0
Bit(b, i) == IF i \div 8 + 1 > Len(b) THEN 0 ELSE (b[i \div 8 + 1] \div Pow2(7 - (i % 8))) % 2
\* w-bit group number k (0-based)
Group(b, w, k) == LET S[t \in 0..w] == IF t = 0 THEN 0 ELSE S[t - 1] * 2 + Bit(b, w * k + t - 1) IN S[w]
CeilDiv(a, d) == (a + d - 1) \div d

B64Char(v) == CASE v < 26 -> 65 + v [] v < 52 -> 97 + (v - 26) [] v < 62 -> 48 + (v - 52) [] v = 62 -> 45 [] OTHER -> 126
B32Char(v) == IF v < 26 THEN 97 + v ELSE 50 + (v - 26)
PadByte == 61
B64Alphabet == { B64Char(v) : v \in 0..63 }
B32Alphabet == { B32Char(v) : v \in 0..31 }

B64NoPad(b) == [k \in 1..CeilDiv(8 * Len(b), 6) |-> B64Char(Group(b, 6, k - 1))]
B64(b) == LET s == B64NoPad(b) IN s \o Rep((4 - (Len(s) % 4)) % 4, PadByte)
B32NoPad(b) == [k \in 1..CeilDiv(8 * Len(b), 5) |-> B32Char(Group(b, 5, k - 1))]
B32(b) == LET s == B32NoPad(b) IN s \o Rep((8 - (Len(s) % 8)) % 8, PadByte)

\* inverse direction: value of a character, -1 if foreign
B64Val(c) == CASE c \in 65..90 -> c - 65 [] c \in 97..122 -> c - 97 + 26 [] c \in 48..57 -> c - 48 + 52 [] c = 45 -> 62 [] c = 126 -> 63 [] OTHER -> -1
B32Val(c) == CASE c \in 97..122 -> c - 97 [] c \in 50..55 -> c - 50 + 26 [] OTHER -> -1

\* decode m characters of w bits each into floor(w*m/8) bytes (characters already validated)
DecBit(vals, w, i) == (vals[i \div w + 1] \div Pow2(w - 1 - (i % w))) % 2
DecBytes(vals, w) ==
  [k \in 1..((w * Len(vals)) \div 8) |->
     LET S[t \in 0..8] == IF t = 0 THEN 0 ELSE S[t - 1] * 2 + DecBit(vals, w, 8 * (k - 1) + t - 1) IN S[8]]

StripCRLF(s) == SelectSeq(s, LAMBDA c : c # 13 /\ c # 10)
\* number of trailing '=' characters
RECURSIVE TrailingPads(_)
TrailingPads(s) == IF Len(s) > 0 /\ s[Len(s)] = PadByte THEN 1 + TrailingPads(SubSeq(s, 1, Len(s) - 1)) ELSE 0

\* canonical padded decode: [ok, bytes].  CR and LF are skipped; everything else must be in the alphabet;
\* padded form: length multiple of the quantum and a legal amount of padding.
DecodeGeneric(s0, w, quantum, Val(_), padded, LegalDataChars) ==
  LET s == StripCRLF(s0)
      np == IF padded THEN TrailingPads(s) ELSE 0
      body == SubSeq(s, 1, Len(s) - np)
      vals == [i \in 1..Len(body) |-> Val(body[i])]
      charsOK == \A i \in 1..Len(body) : vals[i] >= 0
      shapeOK == IF padded THEN Len(s) % quantum = 0 /\ (Len(body) % quantum) \in LegalDataChars /\ np < quantum
                 ELSE (Len(body) % quantum) \in LegalDataChars
  IN IF charsOK /\ shapeOK THEN [ok |-> TRUE, bytes |-> DecBytes(vals, w)] ELSE [ok |-> FALSE, bytes |-> << >>]
B64Decode(s) == DecodeGeneric(s, 6, 4, B64Val, TRUE, {0, 2, 3})
B32Decode(s) == DecodeGeneric(s, 5, 8, B32Val, TRUE, {0, 2, 4, 5, 7})
B32DecodeNoPad(s) == DecodeGeneric(s, 5, 8, B32Val, FALSE, {0, 2, 4, 5, 7})

B32Suffix == << 46, 98, 51, 50, 46, 105, 50, 112 >>    \* ".b32.i2p"
B32Address(hash) == B32NoPad(hash) \o B32Suffix
=============================================================================
