------------------------------ MODULE Gen_C06 ------------------------------
(* Argument tuples for the signing constructors: option maps incl. empty values and short keys, 0..16 addresses/leases,
   flag words, with/without offline signature, every signing type each constructor supports. *)
EXTENDS Enc, GenUtil, Json
CONSTANTS Tier, Seed, OutFile
Thorough == Tier = "thorough"
KeyA == << 97 >>  KeyB == << 98 >>  ValX == << 120 >>
MapSets ==
  << << >>, << << KeyA, << >> >> >>, << << KeyA, ValX >> >>, << << KeyB, ValX >>, << KeyA, ValX >> >>,
     << << << 99, 97, 112, 115 >>, << 102, 82 >> >>, << << 114, 111, 117, 116, 101, 114, 46, 118, 101, 114, 115, 105, 111, 110 >>, << 48, 46, 57, 46, 54, 55 >> >> >>,
     << << Fill(255, 9), Fill(255, 4) >> >>, << << KeyA, << 61, 59 >> >>, << << 59, 61 >>, << 0, 255 >> >> >>,
     << << KeyB, ValX >>, << KeyA, << >> >>, << << 99 >>, << >> >> >>, << << << 122 >>, << >> >>, << KeyA, ValX >> >>, << << << 97, 98 >>, << >> >> >>, CollisionPairs, PrefixPairs >>
SB(fn, st, m, siglen, prefix, k) == [ops |-> << [op |-> "SignBuild", fn |-> fn, st |-> st, m |-> m, siglen |-> siglen, prefix |-> prefix, stream |-> k] >>]
T4 == << 101, 36, 248, 0 >>
Secs == << << >>, << 101, 36, 248, 0 >>, << 255, 255, 255, 255 >>, << 2, 37, 169, 53, 159 >>, << 3, 0, 0, 0, 0 >> >>
RIVecs ==
  [k \in 1..Len(MapSets) |-> SB("NewRouterInfo", 7, [ct |-> 4, pairs |-> MapSets[k], naddr |-> k % 3, pubsec |-> PadTo(T4, 8), pubneg |-> FALSE, pubns |-> 0], 64, << >>, k)]
  \o Cross2(<< 0, 1, 2, 3, 16, 255, 256, 257 >>, << 0, 4 >>, LAMBDA n, ct : SB("NewRouterInfo", 7, [ct |-> ct, pairs |-> MapSets[3], naddr |-> n, pubsec |-> PadTo(T4, 8), pubneg |-> FALSE, pubns |-> 0], 64, << >>, 100 + n + ct))
  \o Cross2(Secs, << 0, 999999, 1000000, 999999999 >>, LAMBDA s, ns : SB("NewRouterInfo", 7, [ct |-> 4, pairs |-> MapSets[2], naddr |-> 1, pubsec |-> PadTo(s, 8), pubneg |-> FALSE, pubns |-> ns], 64, << >>, 200 + (ns % 97)))
LSVecs ==
  Cross2(<< << 0, 40 >>, << 1, 64 >>, << 7, 64 >> >>, << 0, 1, 2, 16 >>, LAMBDA t, n : SB("NewLeaseSet", t[1], [ct |-> 0, nleases |-> n], t[2], << >>, 300 + t[1] * 20 + n))
  \* legacy Destination with a NULL certificate (DSA-SHA1 / ElGamal): cannot be built by a constructor, so it is parsed from this encoding
  \o SeqMap(LAMBDA n : SB("NewLeaseSet", 0, [ct |-> 0, nleases |-> n, idbase |-> EncIdentity("null", 0, 0, 9), idslot |-> [off |-> BlockLen - SigPubLen(0), len |-> SigPubLen(0)]], 40, << >>, 380 + n), << 0, 1, 16 >>)
  \o << SB("NewLeaseSet", 7, [ct |-> 4, nleases |-> 1], 64, << >>, 390), SB("NewLeaseSet", 11, [ct |-> 4, nleases |-> 1], 64, << >>, 391) >>
  \* an independent revocation key in the signing_key field (the usual case on the network)
  \o Cross2(<< << 0, 0, 40 >>, << 7, 4, 64 >>, << 7, 0, 64 >>, << 11, 4, 64 >> >>, << 1, 3 >>, LAMBDA t, n :
         SB("NewLeaseSet", t[1], [ct |-> t[2], nleases |-> n, otherrevkey |-> TRUE], t[3], << >>, 395 + t[1] + n))
  \* lease end dates descending (1) and unordered with a repeat (2): the order given is the order signed, and no query may change it
  \o Cross2(<< << 0, 0, 40 >>, << 7, 4, 64 >> >>, << 1, 2 >>, LAMBDA t, o :
         SB("NewLeaseSet", t[1], [ct |-> t[2], nleases |-> 3 + o, lorder |-> o], t[3], << >>, 440 + t[1] + o))
OffVecs ==
  Cross3(<< 7, 11, 8 >>, << 7, 11, 8, 0, 1 >>, << << 0, 0, 0, 1 >>, T4, << 255, 255, 255, 255 >> >>, LAMBDA dst, tst, ex :
     SB("CreateOfflineSignature", dst, [tst |-> tst, expires |-> ex], 64, << >>, 400 + dst * 10 + tst))
ELSVecs ==
  Cross3(<< 11, 7 >>, << 0, 2 >>, << 61, 100, 1000 >>, LAMBDA st, f, n :
     SB("NewEncryptedLeaseSet", st, [off |-> FALSE, tst |-> 7, flags |-> f, innerlen |-> n, published |-> T4, expires |-> 600, offexpires |-> T4], 64, << 5 >>, 500 + st + f + n))
  \o Cross3(<< 11, 7 >>, << 7, 11 >>, << 1, 3 >>, LAMBDA st, tst, f :
     SB("NewEncryptedLeaseSet", st, [off |-> TRUE, tst |-> tst, flags |-> f, innerlen |-> 100, published |-> T4, expires |-> 600, offexpires |-> << 101, 36, 250, 0 >>], 64, << 5 >>, 600 + st + tst + f))
\* transient DSA (40-byte signatures) and P-256 keys, handed over as go-i2p/crypto key objects (P-384 has no such object): whatever the constructor
\* returns without error has to validate, verify and survive the wire
ELSOddTransientVecs ==
  Cross2(<< 11, 7 >>, << << 0, 40 >>, << 1, 64 >> >>, LAMBDA st, t :
     SB("NewEncryptedLeaseSet", st, [off |-> TRUE, tst |-> t[1], flags |-> 1, innerlen |-> 100, published |-> T4, expires |-> 600, offexpires |-> << 101, 36, 250, 0 >>], t[2], << 5 >>, 640 + st + t[1]))
  \o Cross2(<< 11, 7 >>, << << 0, 40 >>, << 1, 64 >> >>, LAMBDA st, t :
     SB("NewLeaseSet2", st, [ct |-> 4, pairs |-> MapSets[3], off |-> TRUE, tst |-> t[1], flags |-> 1, nkeys |-> 1, nleases |-> 1, published |-> T4, expires |-> 600, offexpires |-> << 101, 36, 250, 0 >>], t[2], << 3 >>, 840 + st + t[1]))
\* ... and the mismatch a caller can produce: the offline block announces a DSA / P-256 / P-384 transient key, the structure is signed with the
\* identity's Ed25519 key (whatever comes back without error must still validate and survive the wire)
ELSMismatchVecs ==
  Cross2(<< 11, 7 >>, << << 0, 40 >>, << 1, 64 >>, << 2, 96 >> >>, LAMBDA st, t :
     SB("NewEncryptedLeaseSet", st, [off |-> TRUE, tst |-> t[1], flags |-> 1, innerlen |-> 100, published |-> T4, expires |-> 600, offexpires |-> << 101, 36, 250, 0 >>, edsigner |-> TRUE], t[2], << 5 >>, 620 + st + t[1]))
  \o Cross2(<< 11, 7 >>, << << 0, 40 >>, << 1, 64 >>, << 2, 96 >> >>, LAMBDA st, t :
     SB("NewLeaseSet2", st, [ct |-> 4, pairs |-> MapSets[3], off |-> TRUE, tst |-> t[1], flags |-> 1, nkeys |-> 1, nleases |-> 1, published |-> T4, expires |-> 600, offexpires |-> << 101, 36, 250, 0 >>, edsigner |-> TRUE], t[2], << 3 >>, 820 + st + t[1]))
\* single-defect variants of the EncryptedLeaseSet constructor (C14): flag/offline mismatch both ways, reserved bits, zero expiry,
\* inner data too short, blinded key of the wrong length
ELSM(off, tst, flags, innerlen, expires, keydelta) == [off |-> off, tst |-> tst, flags |-> flags, innerlen |-> innerlen, published |-> T4, expires |-> expires,
                                                     offexpires |-> << 101, 36, 250, 0 >>, keydelta |-> keydelta]
ELSDefectVecs ==
  SeqMap(LAMBDA f : SB("NewEncryptedLeaseSet", 11, ELSM(FALSE, 7, f, 100, 600, 0), 64, << 5 >>, 650 + f), << 1, 3 >>)
  \o SeqMap(LAMBDA f : SB("NewEncryptedLeaseSet", 11, ELSM(TRUE, 7, f, 100, 600, 0), 64, << 5 >>, 660 + f), << 0, 2 >>)
  \o SeqMap(LAMBDA f : SB("NewEncryptedLeaseSet", 7, ELSM(FALSE, 7, f, 100, 600, 0), 64, << 5 >>, 670), << 4, 8, 32768, 65534 >>)
  \o << SB("NewEncryptedLeaseSet", 11, ELSM(FALSE, 7, 0, 100, 0, 0), 64, << 5 >>, 680), SB("NewEncryptedLeaseSet", 11, ELSM(TRUE, 7, 1, 100, 0, 0), 64, << 5 >>, 681) >>
  \o SeqMap(LAMBDA n : SB("NewEncryptedLeaseSet", 11, ELSM(FALSE, 7, 0, n, 600, 0), 64, << 5 >>, 690 + n), << 0, 1, 60 >>)
  \o SeqMap(LAMBDA d : SB("NewEncryptedLeaseSet", 11, ELSM(FALSE, 7, 0, 100, 600, d), 64, << 5 >>, 695), << -1, 1 >>)
LS2Vecs ==
  [k \in 1..Len(MapSets) |-> SB("NewLeaseSet2", 7, [ct |-> 4, pairs |-> MapSets[k], off |-> FALSE, tst |-> 7, flags |-> 0, nkeys |-> 1, nleases |-> (k % 3) + 2, lorder |-> k % 3, published |-> T4, expires |-> 600, offexpires |-> T4], 64, << 3 >>, 700 + k)]
  \o Cross2(<< 7, 11 >>, << 7, 11 >>, LAMBDA st, tst : SB("NewLeaseSet2", st, [ct |-> 4, pairs |-> MapSets[3], off |-> TRUE, tst |-> tst, flags |-> 1, nkeys |-> 2, nleases |-> 2, published |-> T4, expires |-> 600, offexpires |-> << 101, 36, 250, 0 >>], 64, << 3 >>, 800 + st + tst))
  \* "any encryption keys": legacy 256-byte key entries whose bytes are 0, 1, all ones, random
  \o SeqMap(LAMBDA k : SB("NewLeaseSet2", 7, [ct |-> 4, pairs |-> MapSets[3], off |-> FALSE, tst |-> 7, flags |-> 0, nkeys |-> 1, nleases |-> 1, published |-> T4, expires |-> 600,
                                            offexpires |-> T4, elgkeys |-> k], 64, << 3 >>, 940), << "zeros", "ones", "one", "random" >>)
  \* counts at their limits (16 keys, 16 leases) and one below
  \o Cross2(<< 15, 16 >>, << 0, 15, 16 >>, LAMBDA nk, nl : SB("NewLeaseSet2", 7, [ct |-> 4, pairs |-> MapSets[3], off |-> FALSE, tst |-> 7, flags |-> 0, nkeys |-> nk, nleases |-> nl,
                                                                  published |-> T4, expires |-> 600, offexpires |-> T4], 64, << 3 >>, 950 + nk + nl))
  \o SeqMap(LAMBDA f : SB("NewLeaseSet2", 11, [ct |-> 4, pairs |-> MapSets[1], off |-> FALSE, tst |-> 7, flags |-> f, nkeys |-> 1, nleases |-> 16, published |-> T4, expires |-> 65535, offexpires |-> T4], 64, << 3 >>, 900 + f), << 0, 2, 4, 6 >>)
\* identities assembled by the caller (struct literals) that DECLARE a key type the structure may not carry (around an Ed25519-format key):
\* whatever a signing constructor returns for them must still validate and survive the wire, and must not carry a prohibited identity
DeclVecs ==
  SeqMap(LAMBDA d : SB("NewLeaseSet2", 7, [ct |-> 4, pairs |-> MapSets[3], off |-> FALSE, tst |-> 7, flags |-> 0, nkeys |-> 1, nleases |-> 1, published |-> T4, expires |-> 600,
                                            offexpires |-> T4, declst |-> d], 64, << 3 >>, 1000 + d), << 8, 11, 7 >>)
  \* ... the same with an offline block (the transient key signs; the identity is still the identity), under every flag word
  \o Cross3(<< 8, 11, 7 >>, << 7, 11 >>, << 1, 3 >>, LAMBDA d, tst, f :
       SB("NewLeaseSet2", 7, [ct |-> 4, pairs |-> MapSets[3], off |-> TRUE, tst |-> tst, flags |-> f, nkeys |-> 1, nleases |-> 1, published |-> T4, expires |-> 600,
                              offexpires |-> << 101, 36, 250, 0 >>, declst |-> d], 64, << 3 >>, 1030 + d + tst + f))
  \o SeqMap(LAMBDA d : SB("NewLeaseSet2", 7, [ct |-> 4, pairs |-> MapSets[3], off |-> FALSE, tst |-> 7, flags |-> 2, nkeys |-> 1, nleases |-> 1, published |-> T4, expires |-> 600,
                                            offexpires |-> T4, declst |-> d], 64, << 3 >>, 1060 + d), << 8, 11, 7 >>)
  \o SeqMap(LAMBDA d : SB("NewLeaseSet", 7, [ct |-> 4, nleases |-> 1, declst |-> d], 64, << >>, 1010 + d), << 8, 11, 7 >>)
  \o SeqMap(LAMBDA d : SB("NewRouterInfo", 7, [ct |-> 4, pairs |-> MapSets[3], naddr |-> 1, pubsec |-> PadTo(T4, 8), pubneg |-> FALSE, pubns |-> 0, declst |-> d], 64, << >>, 1020 + d), << 8, 11, 7 >>)
\* the same calls made by several goroutines at once, each around fresh keys
CS(fn, st, m, siglen, prefix, k, n) == [ops |-> << [op |-> "ConcurrentSign", fn |-> fn, st |-> st, m |-> m, siglen |-> siglen, prefix |-> prefix, stream |-> k, n |-> n,
                                                    reps |-> (IF Thorough THEN 2000 ELSE 250)] >>]
ConcVecs ==
  Concat(SeqMap(LAMBDA n : << CS("NewRouterInfo", 7, [ct |-> 4, pairs |-> MapSets[5], naddr |-> 2, pubsec |-> PadTo(T4, 8), pubneg |-> FALSE, pubns |-> 0], 64, << >>, 7000, n),
                              CS("NewLeaseSet", 7, [ct |-> 4, nleases |-> 2], 64, << >>, 7100, n),
                              CS("NewLeaseSet2", 7, [ct |-> 4, pairs |-> MapSets[5], off |-> TRUE, tst |-> 11, flags |-> 1, nkeys |-> 2, nleases |-> 2, published |-> T4, expires |-> 600,
                                                     offexpires |-> << 101, 36, 250, 0 >>], 64, << 3 >>, 7200, n),
                              CS("NewEncryptedLeaseSet", 11, [off |-> FALSE, tst |-> 7, flags |-> 0, innerlen |-> 100, published |-> T4, expires |-> 600, offexpires |-> T4], 64, << 5 >>, 7300, n) >>,
                << 4, 16 >>))
\* the twin constructor NewEncryptedLeaseSetFromDestination (signing type and blinded key taken from a Destination): same tuples, same judgement
ViaDest(vs) == SeqMap(LAMBDA v : [ops |-> SeqMap(LAMBDA o : [o EXCEPT !.m = @ @@ [viadest |-> TRUE]], v.ops)], vs)
NoKeyDelta(v) == "keydelta" \notin DOMAIN v.ops[1].m \/ v.ops[1].m.keydelta = 0      \* (a key of the wrong length cannot sit in a Destination)
\* parts that only a parser produces: router addresses and an options mapping with their pairs in unsorted wire order
UnsortedPairs == << << << 118 >>, << 50 >> >>, << << 104, 111, 115, 116 >>, << 49, 46, 50, 46, 51, 46, 52 >> >>, << << 97 >>, << 98 >> >> >>
RawAddr(c) == EncRouterAddress(c, Zeros(8), << 78, 84, 67, 80, 50 >>, UnsortedPairs)
RawVecs ==
  << SB("NewRouterInfo", 7, [ct |-> 4, pairs |-> MapSets[5], naddr |-> 0, rawaddrs |-> << RawAddr(3) >>, pubsec |-> PadTo(T4, 8), pubneg |-> FALSE, pubns |-> 0], 64, << >>, 1101),
     SB("NewRouterInfo", 7, [ct |-> 4, pairs |-> MapSets[3], naddr |-> 1, rawaddrs |-> << RawAddr(3), RawAddr(4) >>, pubsec |-> PadTo(T4, 8), pubneg |-> FALSE, pubns |-> 0], 64, << >>, 1102),
     SB("NewLeaseSet2", 7, [ct |-> 4, pairs |-> << >>, rawopts |-> SerMapping(UnsortedPairs), rawpairs |-> UnsortedPairs, off |-> FALSE, tst |-> 7, flags |-> 0, nkeys |-> 1, nleases |-> 1, published |-> T4, expires |-> 600,
                            offexpires |-> T4], 64, << 3 >>, 1103),
     SB("NewLeaseSet2", 11, [ct |-> 4, pairs |-> << >>, rawopts |-> SerMapping(UnsortedPairs), rawpairs |-> UnsortedPairs, off |-> TRUE, tst |-> 7, flags |-> 1, nkeys |-> 2, nleases |-> 2, published |-> T4, expires |-> 600,
                             offexpires |-> << 101, 36, 250, 0 >>], 64, << 3 >>, 1104) >>
CONSTANT Part      \* "all" | "decl" (C09 replays the declared-type identities only)
Vecs == IF Part = "decl" THEN DeclVecs ELSE RawVecs \o ViaDest(ELSVecs \o SelectSeq(ELSDefectVecs, NoKeyDelta)) \o ConcVecs \o DeclVecs \o RIVecs \o LSVecs \o OffVecs \o ELSVecs \o ELSOddTransientVecs \o ELSMismatchVecs \o ELSDefectVecs \o LS2Vecs
VARIABLE done
Init == done = FALSE
Next == ~done /\ ndJsonSerialize(OutFile, Vecs) /\ PrintT(<< "GENERATED", Len(Vecs) >>) /\ done' = TRUE
=============================================================================
