----------------------------- MODULE Gen_BigTail -----------------------------
(* Structures at the front of a LARGE buffer: more than 64 KiB follow the structure (a stream, a file).  The remainder is still all of it. *)
EXTENDS Enc, GenUtil, Json
CONSTANTS Tier, Seed, OutFile
T4 == << 101, 36, 248, 0 >>
Opts == << << << 97 >>, << 98 >> >>, << << 99, 97, 112, 115 >>, << 102, 82 >> >> >>
Addr == EncRouterAddress(5, Zeros(8), << 78, 84, 67, 80, 50 >>, << << << 104, 111, 115, 116 >>, << 49, 46, 50, 46, 51, 46, 52 >> >> >>)
Id == EncIdentity("key", 7, 4, 3)
BigTail(n) == Fill(n, 7)
Shapes ==
  << << "ReadMapping", SerMapping(Opts) >>, << "ReadMapping", SerMapping(<< >>) >>, << "ReadRouterAddress", Addr >>,
     << "ReadRouterInfo", EncRouterInfo(Id, 7, Zeros(8), << Addr >>, 0, Opts, 5) >>,
     << "ReadLeaseSet2", EncLS2(Id, T4, << 2, 88 >>, 0, << >>, Opts, 1, << EncEncKey(4, 32, Fill(32, 1)) >>, 1, << EncLease2(1, T4, T4) >>, 7, 5) >>,
     << "ReadMetaLeaseSet", EncMeta(Id, T4, << 2, 88 >>, 0, << >>, Opts, 1, << EncMetaEntry(1, 3, T4, 1, Opts) >>, 7, 5) >>,
     << "ReadCertificate", << 5, 0, 4, 0, 7, 0, 4 >> >>, << "ReadKeysAndCert", Id >>, << "ReadDestination", Id >>,
     << "ReadI2PString", << 3, 97, 98, 99 >> >>, << "ReadLease2", Fill(40, 1) >> >>
Vecs == Cross2(Shapes, << 65530, 65536, 70000 >>, LAMBDA sh, n : [op |-> "Read", fn |-> sh[1], in |-> sh[2] \o BigTail(n), cls |-> "bigtail" \o ToString(n)])
VARIABLE done
Init == done = FALSE
Next == ~done /\ ndJsonSerialize(OutFile, Vecs) /\ PrintT(<< "GENERATED", Len(Vecs) >>) /\ done' = TRUE
=============================================================================
