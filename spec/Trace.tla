------------------------------- MODULE Trace -------------------------------
(***************************************************************************)
(* Validation of a recorded execution of the real library against the      *)
(* specification.  The log is ndjson, one record per API call, written by  *)
(* the driver at the call's return.  Each step consumes one record,        *)
(* evaluates every predicate that applies (Judge), and updates the         *)
(* session state.  The trace spec is total: a failing predicate prints a   *)
(* VERDICT line and the step is still taken, so one pass reports every     *)
(* disagreement; "not accepted" (the log is not consumed to its end) can   *)
(* only mean a malformed log or a specification bug.                       *)
(***************************************************************************)
EXTENDS Integers, Sequences, TLC, Json, J_Prims, J_Build, J_Tables, J_C07, J_C15, J_Text, J_C17, J_C20, J_C04, J_C18, J_C06, J_C16, J_MapBodies, J_Objects, J_Misc, J_Chain, J_WarmEdit

CONSTANT TraceFile
Log == ndJsonDeserialize(TraceFile)

VARIABLES l,      \* next record to consume
          cov,    \* predicate name -> number of events that exercised its antecedent
          mem     \* session memory: [sid, snap, obj] - the first observation of every live value of the current session (C08)
                  \* and the abstract state of the session's mutable object (Objects.tla)
vars == << l, cov, mem >>

\* session state visible to the judge of event e (a new session starts with empty memory)
MemFor(e) == IF e.sid = mem.sid THEN mem ELSE [sid |-> e.sid, snap |-> << >>, obj |-> NoObj]
\* C08: a value's observation (serialisation + every accessor) never changes after its first observation,
\* whatever the caller overwrote in between (Scribble / ScribbleReturned steps of the session)
JObserve(e, m) ==
  \* (ext: structures the property's list leaves out - extension family X05)
  << R(IF "ext" \in DOMAIN e THEN "X05" ELSE "C08", "observation_unchanged_after_overwrite", e.r.has /\ e.h \in DOMAIN m.snap, e.r.obs = m.snap[e.h],
       e.fn \o "/" \o (IF "cls" \in DOMAIN e THEN e.cls ELSE "-")),
     R(IF "ext" \in DOMAIN e THEN "X05" ELSE "C08", "value_observable", TRUE, e.r.has /\ "unobservable" \notin DOMAIN e.r.obs, e.fn) >>
MemNext(e, m) ==
  IF e.op = "Observe" /\ e.r.has /\ e.h \notin DOMAIN m.snap
  THEN [m EXCEPT !.snap = [k \in (DOMAIN m.snap) \cup {e.h} |-> IF k = e.h THEN e.r.obs ELSE m.snap[k]]]
  ELSE IF e.op \in {"ObjNew", "ObjCall"} /\ ~(e.r.panic \/ e.r.hang) THEN [m EXCEPT !.obj = ObjMemNext(e, m.obj)]
  ELSE m

Judge(e) ==
  IF e.r.panic \/ e.r.hang
  THEN << R("C04", "returns_normally", TRUE, FALSE, e.op \o "/" \o e.fn) >>
       \* a fatal runtime error (the runner found the call and reproduced it in a fresh process): whatever the property under check says
       \* about this call's result, there is no result
       \o (IF "fatal" \in DOMAIN e.r THEN << R(e.r.fatal, "call_returns_at_all", TRUE, FALSE, e.op \o "/" \o e.fn \o "/fatal") >> ELSE << >>)
  ELSE CASE e.op \in PrimOps -> JPrims(e)
         [] e.op = "Observe" -> JObserve(e, MemFor(e))
         [] e.op = "ReadSigned" -> << R(IF "ext" \in DOMAIN e THEN "X05" ELSE "C08", "signed_value_obtained_and_verifies", TRUE, e.r.setup /\ e.r.verify, e.fn \o "/" \o e.cls) >>
         [] e.op \in {"Scribble", "ScribbleReturned", "ScribbleRem"} -> << R(IF "ext" \in DOMAIN e THEN "X05" ELSE "C08", "overwrite_performed", TRUE, e.r.done, e.op) >>
         [] e.op = "Read" -> JRead(e) \o JAccOne(e.fn, e["in"], e.r, e) \o JAcc2One(e.fn, e["in"], e.r, e)
         [] e.op = "Twins" -> JTwinsWith(e, JAcc2One)
         [] e.op = "Tables" -> JTables(e)
         [] e.op = "IdentityPair" -> JIdentityPair(e)
         [] e.op \in {"TextEnc", "TextDec", "TextEncChunks", "TextDecMutate", "TextGuard", "TextBig"} -> JText(e)
         [] e.op = "RAddrAccess" -> JRAddrAccess(e)
         [] e.op \in {"ByteSweep", "RandomSweep", "CodeSweep", "SignedMutSweep", "CrossSweep"} -> JSweepOutcome(e)
         [] e.op = "MappingBodies" -> JMappingBodies(e)
         [] e.op = "ApiSweep" -> JApiSweep(e)
         [] e.op = "Misc" -> JMisc(e)
         [] e.op = "Chain" -> JChain(e)
         [] e.op = "ObjNew" -> JObjNew(e)
         [] e.op = "ObjCall" -> JObjCall(e, MemFor(e).obj)
         [] e.op = "SignedProbe" -> JSignedProbe(e)
         [] e.op = "SignBuild" -> JSignBuild(e)
         [] e.op = "ConcurrentSign" -> JConcurrentSign(e)
         [] e.op = "WarmEdit" -> JWarmEdit(e)
         [] e.op = "EncDec" -> JEncDec(e)
         [] e.op = "Blind" -> JBlind(e)
         [] e.op = "Concurrent" -> JConcurrent(e)
         [] e.op = "ConcurrentVerify" -> JConcurrentVerify(e)
         [] e.op = "ZeroMethods" -> JZero(e)
         [] e.op = "PartialMethods" -> JPartial(e)
         [] e.op = "Catalogue" -> JCatalogue(e)
         [] e.op = "Extrema" -> JExtrema(e)
         [] e.op = "ExpiryProbe" -> JExpiryProbe(e)
         [] e.op = "Build" -> JBuild(e)
         [] e.op = "BuildMapping" -> JBuildMapping(e)
         [] e.op = "Sweep" -> JSweep(e)
         [] OTHER -> << R("X", "unknown_op", TRUE, FALSE, e.op) >>

Report(e, js) ==
  /\ PrintT(<< "NT", e.sid, { js[i].prop : i \in { k \in 1..Len(js) : js[k].ante } } >>)
  /\ \A i \in 1..Len(js) :
     IF js[i].ok THEN TRUE     \* (IF, not \/ : inside an action TLC would explore both disjuncts)
     ELSE PrintT(<< "VERDICT", ToJson([line |-> l, sid |-> e.sid, seq |-> e.seq, op |-> e.op, fn |-> e.fn,
                                       prop |-> js[i].prop, pred |-> js[i].pred, cls |-> js[i].cls]) >>)

Bump(c, js) ==
  LET names == { js[i].prop \o ":" \o js[i].pred : i \in { k \in 1..Len(js) : js[k].ante } }
      old == [k \in DOMAIN c |-> IF k \in names THEN c[k] + 1 ELSE c[k]]
  IN [k \in (DOMAIN c \cup names) |-> IF k \in DOMAIN c THEN old[k] ELSE 1]

Init == l = 1 /\ cov = [k \in {} |-> 0] /\ mem = [sid |-> 0, snap |-> << >>, obj |-> NoObj]

Step ==
  /\ l <= Len(Log)
  /\ LET e == Log[l]
         js == Judge(e) IN
     /\ Report(e, js)
     /\ cov' = Bump(cov, js)
     /\ mem' = MemNext(e, MemFor(e))
  /\ l' = l + 1

Done == l = Len(Log) + 1 /\ PrintT(<< "COVERAGE", ToJson(cov) >>) /\ PrintT(<< "ACCEPTED", Len(Log) >>) /\ UNCHANGED vars

Next == Step \/ Done
Spec == Init /\ [][Next]_vars
=============================================================================
