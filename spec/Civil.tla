------------------------------- MODULE Civil -------------------------------
(* UTC calendar day of a Unix instant (seconds, 0 <= s < 2^31), proleptic Gregorian: days-to-civil algorithm. *)
EXTENDS Integers, Sequences
DayNumber(sec) == sec \div 86400
CivilFromDays(z0) ==
  LET z == z0 + 719468
      era == z \div 146097
      doe == z - era * 146097
      yoe == (doe - (doe \div 1460) + (doe \div 36524) - (doe \div 146096)) \div 365
      y0 == yoe + era * 400
      doy == doe - (365 * yoe + (yoe \div 4) - (yoe \div 100))
      mp == (5 * doy + 2) \div 153
      d == doy - ((153 * mp + 2) \div 5) + 1
      m == IF mp < 10 THEN mp + 3 ELSE mp - 9
      y == IF m <= 2 THEN y0 + 1 ELSE y0
  IN << y, m, d >>
Dig2(v) == << 48 + (v \div 10), 48 + (v % 10) >>
Dig4(v) == << 48 + (v \div 1000), 48 + ((v \div 100) % 10), 48 + ((v \div 10) % 10), 48 + (v % 10) >>
\* "YYYY-MM-DD" as bytes
DayString(sec) == LET c == CivilFromDays(DayNumber(sec)) IN Dig4(c[1]) \o << 45 >> \o Dig2(c[2]) \o << 45 >> \o Dig2(c[3])
=============================================================================
