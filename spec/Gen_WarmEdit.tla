---------------------------- MODULE Gen_WarmEdit ----------------------------
(* Pairs (A, B) of accepted encodings of the same shape for WarmEdit: identities of the usual key-type pairs (different key, padding and    *)
(* certificate bytes), RouterInfos around them, router addresses whose options name hosts of different families.                         *)
EXTENDS Enc, GenUtil, Json
CONSTANTS Tier, Seed, OutFile, Part
T4 == << 101, 36, 248, 0 >>
WE(fn, a, b, family, cls) == [op |-> "WarmEdit", fn |-> fn, a |-> a, b |-> b, family |-> family, cls |-> cls]
Pairs == << << 7, 4 >>, << 7, 0 >>, << 11, 4 >>, << 0, 0 >>, << 1, 0 >> >>
IdA(p) == IF p[1] = 0 THEN EncIdentity("null", 0, 0, 3) ELSE EncIdentity("key", p[1], p[2], 5)
IdB(p) == IF p[1] = 0 THEN EncIdentity("null", 0, 0, 9) ELSE EncIdentity("key", p[1], p[2], 77)
IdentVecs ==
  SelectSeq(Cross2(<< "ReadKeysAndCert", "ReadDestination", "NewDestinationFromBytes", "ReadRouterIdentity", "NewRouterIdentityFromBytes" >>, Pairs,
         LAMBDA fn, p : WE(fn, IdA(p), IdB(p), "ident", "st=" \o ToString(p[1]) \o "/ct=" \o ToString(p[2]))),
            LAMBDA v : ~(v.fn \in {"ReadRouterIdentity", "NewRouterIdentityFromBytes"} /\ v.cls = "st=11/ct=4"))       \* (RedDSA is not a router type)
  \o << WE("ReadKeysAndCert", EncIdentity("key", 7, 4, 5), EncIdentity("keyx", 7, 4, 9), "ident", "excess-payload") >>
Host4 == << << 104, 111, 115, 116 >>, << 49, 46, 50, 46, 51, 46, 52 >> >>
Host6 == << << 104, 111, 115, 116 >>, << 50, 48, 48, 49, 58, 100, 98, 56, 58, 58, 49 >> >>
PortA == << << 112, 111, 114, 116 >>, << 56, 48 >> >>
PortB == << << 112, 111, 114, 116 >>, << 52, 52, 51 >> >>
Caps6 == << << 99, 97, 112, 115 >>, << 54 >> >>
NTCP2 == << 78, 84, 67, 80, 50 >>
SSU2 == << 83, 83, 85, 50 >>
AddrVecs ==
  << WE("ReadRouterAddress", EncRouterAddress(5, Zeros(8), NTCP2, << Host4, PortA >>), EncRouterAddress(9, Zeros(8), SSU2, << Host6, PortB >>), "raddr", "v4-to-v6"),
     WE("ReadRouterAddress", EncRouterAddress(5, Zeros(8), NTCP2, << Host6, PortA >>), EncRouterAddress(9, Zeros(8), NTCP2, << Host4, PortB >>), "raddr", "v6-to-v4"),
     WE("ReadRouterAddress", EncRouterAddress(5, Zeros(8), SSU2, << Caps6 >>), EncRouterAddress(5, Zeros(8), SSU2, << Host4, PortA >>), "raddr", "caps-to-host"),
     WE("ReadRouterAddress", EncRouterAddress(5, Zeros(8), NTCP2, << Host4 >>), EncRouterAddress(5, Zeros(8), NTCP2, << >>), "raddr", "host-to-none") >>
Opts(k) == << << << 99, 97, 112, 115 >>, << 102, 82 + k >> >> >>
RI(p, salt, k) == EncRouterInfo(IF p[1] = 0 THEN EncIdentity("null", 0, 0, salt) ELSE EncIdentity("key", p[1], p[2], salt), p[1], Zeros(8),
                               << EncRouterAddress(5, Zeros(8), NTCP2, << Host4, PortA >>) >>, 0, Opts(k), 5)
RInfoVecs == SeqMap(LAMBDA p : WE("ReadRouterInfo", RI(p, 5, 0), RI(p, 77, 1), "rinfo", "st=" \o ToString(p[1]) \o "/ct=" \o ToString(p[2])), << << 7, 4 >>, << 7, 0 >> >>)
Vecs == CASE Part = "ident" -> IdentVecs \o RInfoVecs [] Part = "raddr" -> AddrVecs [] OTHER -> IdentVecs \o RInfoVecs \o AddrVecs
VARIABLE done
Init == done = FALSE
Next == ~done /\ ndJsonSerialize(OutFile, Vecs) /\ PrintT(<< "GENERATED", Len(Vecs) >>) /\ done' = TRUE
=============================================================================
