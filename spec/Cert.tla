-------------------------------- MODULE Cert --------------------------------
(***************************************************************************)
(* I2P Certificate and Key Certificate.                                    *)
(*   type(1) | length(2, big endian) | payload(length)                     *)
(* Key certificate: type 5, payload = signing type(2) | crypto type(2) |   *)
(* excess key data.                                                        *)
(***************************************************************************)
EXTENDS Prims, Tables

\* Reference reader at 0-based offset off of in
RefCertAt(in, off) ==
  LET n == Len(in) - off IN
  IF n < 3 THEN [ok |-> FALSE, short |-> TRUE, consumed |-> 3, type |-> 0, len |-> 0, payload |-> << >>]
  ELSE LET ln == U16(in, off + 1) IN
       IF n < 3 + ln THEN [ok |-> FALSE, short |-> TRUE, consumed |-> 3 + ln, type |-> in[off + 1], len |-> ln, payload |-> << >>]
       ELSE [ok |-> TRUE, short |-> FALSE, consumed |-> 3 + ln, type |-> in[off + 1], len |-> ln, payload |-> Slice(in, off + 3, ln)]
RefReadCert(in) == RefCertAt(in, 0)

SerCert(type, payload) == << type >> \o BE16(Len(payload)) \o payload

\* what the specification says about payloads per type (NULL/HIDDEN empty, SIGNED 40 or 72, KEY >= 4)
CertPayloadWellFormed(type, ln) ==
  CASE type \in {CertNull, CertHidden} -> ln = 0
    [] type = CertSigned -> ln \in {40, 72}
    [] type = CertKey -> ln >= 4
    [] OTHER -> TRUE
CertTypeKnown(type) == type \in 0..5

\* Key certificate view of a certificate record c (from RefCertAt)
IsKeyCert(c) == c.ok /\ c.type = CertKey /\ c.len >= 4
KeyCertSigType(c) == U16(c.payload, 0)
KeyCertCryptoType(c) == U16(c.payload, 2)
KeyCertPayload(st, ct) == BE16(st) \o BE16(ct)
\* what the direct constructor NewCertificateWithType accepts (the documented per-type payload rules)
CertCtorValid(type, payload) ==
  /\ type \in 0..5 /\ Len(payload) <= 65535
  /\ (type \in {CertNull, CertHidden} => Len(payload) = 0)
  /\ (type = CertSigned => Len(payload) \in {40, 72})
\* excess key bytes a key certificate must carry for its types (keys longer than their field)
ExcessFor(st, ct) ==
  (IF SigPubLen(st) > SpkField THEN SigPubLen(st) - SpkField ELSE 0)
  + (IF CryptoPubLen(ct) > PubField THEN CryptoPubLen(ct) - PubField ELSE 0)
=============================================================================
