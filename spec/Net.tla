-------------------------------- MODULE Net --------------------------------
(***************************************************************************)
(* Text grammars used by the router-address accessors:                     *)
(*  - IP literals: IPv4 dotted quad; IPv6 per RFC 4291 section 2.2         *)
(*    (hex groups, one optional "::", optional embedded IPv4 at the end);  *)
(*    no zone, port, brackets or whitespace.  Value = 16 bytes (IPv4 as    *)
(*    IPv4-mapped).                                                        *)
(*  - decimal port: [+-]?[0-9]+ with value 1..65535.                       *)
(* The grammar is deliberately permissive where implementations differ     *)
(* (leading zeros in IPv4 parts): it is used in the direction              *)
(* "accepted by the library => is an IP literal".                          *)
(***************************************************************************)
EXTENDS Bytes

IsDigit(c) == c \in 48..57
IsHex(c) == c \in 48..57 \/ c \in 97..102 \/ c \in 65..70
HexVal(c) == IF c \in 48..57 THEN c - 48 ELSE IF c \in 97..102 THEN c - 87 ELSE c - 55

\* split s at every occurrence of byte sep: sequence of (possibly empty) fields
RECURSIVE SplitFrom(_, _, _, _, _)
SplitFrom(s, sep, i, cur, acc) ==
  IF i > Len(s) THEN Append(acc, cur)
  ELSE IF s[i] = sep THEN SplitFrom(s, sep, i + 1, << >>, Append(acc, cur))
  ELSE SplitFrom(s, sep, i + 1, Append(cur, s[i]), acc)
Split(s, sep) == SplitFrom(s, sep, 1, << >>, << >>)

\* decimal value of 1..3 digits (else -1)
DecPart(f) ==
  IF Len(f) \in 1..3 /\ \A i \in 1..Len(f) : IsDigit(f[i])
  THEN LET F[i \in 0..Len(f)] == IF i = 0 THEN 0 ELSE F[i - 1] * 10 + (f[i] - 48) IN F[Len(f)]
  ELSE -1
ParseV4(s) ==
  LET fs == Split(s, 46) IN
  IF Len(fs) = 4 /\ \A i \in 1..4 : DecPart(fs[i]) \in 0..255
  THEN [ok |-> TRUE, b |-> << DecPart(fs[1]), DecPart(fs[2]), DecPart(fs[3]), DecPart(fs[4]) >>]
  ELSE [ok |-> FALSE, b |-> << >>]

HexGroupOK(f) == Len(f) \in 1..4 /\ \A i \in 1..Len(f) : IsHex(f[i])
HexGroupBytes(f) ==
  LET v == LET F[i \in 0..Len(f)] == IF i = 0 THEN 0 ELSE F[i - 1] * 16 + HexVal(f[i]) IN F[Len(f)]
  IN << v \div 256, v % 256 >>
\* a list of ':'-separated fields, the last of which may be an embedded IPv4: [ok, b]
GroupsOf(fields) ==
  IF Len(fields) = 0 THEN [ok |-> TRUE, b |-> << >>]
  ELSE LET n == Len(fields)
           last4 == ParseV4(fields[n])
           headOK == \A i \in 1..(n - 1) : HexGroupOK(fields[i])
           head == LET F[i \in 0..(n - 1)] == IF i = 0 THEN << >> ELSE F[i - 1] \o HexGroupBytes(fields[i]) IN F[n - 1] IN
       IF ~headOK THEN [ok |-> FALSE, b |-> << >>]
       ELSE IF HexGroupOK(fields[n]) THEN [ok |-> TRUE, b |-> head \o HexGroupBytes(fields[n])]
       ELSE IF last4.ok THEN [ok |-> TRUE, b |-> head \o last4.b]
       ELSE [ok |-> FALSE, b |-> << >>]
\* position (1-based) of the first "::" or 0
FirstDoubleColon(s) ==
  LET idx == { i \in 1..(Len(s) - 1) : s[i] = 58 /\ s[i + 1] = 58 } IN
  IF idx = {} THEN 0 ELSE CHOOSE i \in idx : \A j \in idx : i <= j
ParseV6(s) ==
  LET dc == FirstDoubleColon(s) IN
  IF Len(s) < 2 THEN [ok |-> FALSE, b |-> << >>]
  ELSE IF dc = 0 THEN
    LET g == GroupsOf(Split(s, 58)) IN
    IF g.ok /\ Len(g.b) = 16 THEN g ELSE [ok |-> FALSE, b |-> << >>]
  ELSE
    LET left == SubSeq(s, 1, dc - 1)
        right == SubSeq(s, dc + 2, Len(s))
        lg == IF Len(left) = 0 THEN [ok |-> TRUE, b |-> << >>] ELSE
              (LET fs == Split(left, 58) IN IF \A i \in 1..Len(fs) : HexGroupOK(fs[i]) THEN GroupsOf(fs) ELSE [ok |-> FALSE, b |-> << >>])
        rg == IF Len(right) = 0 THEN [ok |-> TRUE, b |-> << >>] ELSE GroupsOf(Split(right, 58))
        noMore == FirstDoubleColon(right) = 0 /\ (Len(right) = 0 \/ right[1] # 58) IN
    IF lg.ok /\ rg.ok /\ noMore /\ Len(lg.b) + Len(rg.b) <= 14
    THEN [ok |-> TRUE, b |-> lg.b \o Zeros(16 - Len(lg.b) - Len(rg.b)) \o rg.b]
    ELSE [ok |-> FALSE, b |-> << >>]

V4Mapped(b4) == Zeros(10) \o << 255, 255 >> \o b4
IsV4Mapped(b16) == Take(b16, 12) = Zeros(10) \o << 255, 255 >>
\* [ok, fam ("4"|"6"|"4or6"), b (16 bytes)]
ParseIP(s) ==
  LET v4 == ParseV4(s)  v6 == ParseV6(s) IN
  IF v4.ok THEN [ok |-> TRUE, fam |-> "4", b |-> V4Mapped(v4.b)]
  ELSE IF v6.ok THEN [ok |-> TRUE, fam |-> (IF IsV4Mapped(v6.b) THEN "4or6" ELSE "6"), b |-> v6.b]
  ELSE [ok |-> FALSE, fam |-> "", b |-> << >>]

\* decimal port: optional sign, digits; value (small) or -1; canonical rendering
PortValue(s) ==
  LET signed == Len(s) >= 1 /\ s[1] \in {43, 45}
      ds == IF signed THEN Tail(s) ELSE s
      digitsOK == Len(ds) >= 1 /\ \A i \in 1..Len(ds) : IsDigit(ds[i])
      sig == Norm([i \in 1..Len(ds) |-> ds[i] - 48])     \* digits without leading zeros (base-10 limbs, reuse Norm)
  IN IF ~digitsOK THEN -1
     ELSE IF Len(sig) > 5 THEN 70000          \* certainly out of range
     ELSE LET F[i \in 0..Len(sig)] == IF i = 0 THEN 0 ELSE F[i - 1] * 10 + sig[i] IN
          IF signed /\ s[1] = 45 /\ F[Len(sig)] > 0 THEN -2 ELSE F[Len(sig)]
RECURSIVE Digits(_)
Digits(v) == IF v < 10 THEN << 48 + v >> ELSE Digits(v \div 10) \o << 48 + (v % 10) >>
PortOK(s) == PortValue(s) \in 1..65535
=============================================================================
