------------------------------- MODULE Judge -------------------------------
(* Shape of one judged predicate instance. *)
EXTENDS Integers, Sequences, TLC

\* prop: property id; pred: predicate name; ante: antecedent held (the event exercised the predicate);
\* ok: the predicate held; cls: a spec-computed class of the input (used to key known findings)
R(prop, pred, ante, concl, cls) ==
  [prop |-> prop, pred |-> pred, ante |-> ante, ok |-> (IF ante THEN concl ELSE TRUE), cls |-> cls]
=============================================================================
