----------------------------- MODULE Gen_Struct2 -----------------------------
(***************************************************************************)
(* Behaviours replayed into the composite parsers: Lease, Lease2,          *)
(* Signature, OfflineSignature, RouterAddress, RouterInfo, LeaseSet,       *)
(* LeaseSet2, MetaLeaseSet, EncryptedLeaseSet, session keys/tags.          *)
(* Shape space per structure: default shape, every value of every          *)
(* dimension one at a time, and seeded random combinations.                *)
(***************************************************************************)
EXTENDS Enc, Ref, GenUtil, TLC, Json

CONSTANTS Tier, Seed, OutFile, Fam
Thorough == Tier = "thorough"
NRand == IF Thorough THEN 150 ELSE 12

Pick(s, k) == s[RndNat(Seed, k, Len(s)) + 1]
Tail1 == << 0 >>
Tail40 == Fill(40, 11)
Tails == << << >>, Tail1, Tail40 >>

\* option maps (wire order as given)
KeyA == << 97 >>  KeyB == << 98 >>  ValX == << 120 >>
OptSets ==
  << << >>,
     << << KeyA, << >> >> >>,
     << << KeyA, ValX >> >>,
     << << << 99, 97, 112, 115 >>, << 102, 82 >> >>, << << 118 >>, << 48, 46, 57 >> >> >>,
     << << KeyA, ValX >>, << KeyB, << >> >> >>,
     << << Fill(255, 9), Fill(255, 4) >> >>,
     << << KeyB, ValX >>, << KeyA, ValX >> >>,                                  \* unsorted
     << << << 104, 111, 115, 116 >>, << 49, 46, 50, 46, 51, 46, 52 >> >>, << << 112, 111, 114, 116 >>, << 56, 48 >> >> >>,
     CollisionPairs, PrefixPairs >>

\* for RouterInfo sessions the extent L of the embedded identity (for the independent SHA-256 of IdentHash) comes from the reference decoder
ExtraFor(fns, w, extra) == IF fns[1] = "ReadRouterInfo" THEN extra @@ [L |-> Min(RefReadRouterIdentity(w).consumed, Len(w))] ELSE extra
Session(fns, w, extra, cls) ==
  [ops |-> [i \in 1..Len(Tails) |-> [op |-> "Twins", fns |-> fns, in |-> w \o Tails[i], cls |-> cls] @@ ExtraFor(fns, w, extra)]]
SessionSweep(fns, w, extra, cls, from) ==
  [ops |-> [i \in 1..Len(Tails) |-> [op |-> "Twins", fns |-> fns, in |-> w \o Tails[i], cls |-> cls] @@ ExtraFor(fns, w, extra)]
           \o << [op |-> "Sweep", fn |-> fns[1], in |-> w \o << 0, 255 >>, cls |-> cls, from |-> from] @@ extra >>]

(******************************* leases / keys / tags ***********************)
T4 == << << 0, 0, 0, 0 >>, << 0, 0, 0, 1 >>, << 127, 255, 255, 255 >>, << 128, 0, 0, 0 >>, << 255, 255, 255, 255 >>, << 101, 36, 248, 0 >> >>
D8 == << Zeros(8), << 0, 0, 0, 0, 0, 0, 0, 1 >>, << 0, 0, 1, 138, 207, 146, 32, 0 >>, << 127, 255, 255, 255, 255, 255, 255, 255 >>, Rep(8, 255) >>
LeaseVecs ==
  Cross2(T4, D8, LAMBDA t, d : SessionSweep(<< "ReadLease", "NewLeaseFromBytes" >>, EncLease(5, t, d), << >>, "lease", 0))
  \o Cross2(T4, T4, LAMBDA t, d : SessionSweep(<< "ReadLease2", "NewLease2FromBytes" >>, EncLease2(6, t, d), << >>, "lease2", 0))
SessionVecs ==
  << SessionSweep(<< "ReadSessionKey", "NewSessionKey" >>, Fill(32, 1), << >>, "sessionkey", 0),
     SessionSweep(<< "ReadSessionTag", "NewSessionTag" >>, Fill(32, 2), << >>, "sessiontag", 0),
     SessionSweep(<< "ReadECIESSessionTag", "NewECIESSessionTag" >>, Fill(8, 3), << >>, "eciestag", 0),
     [ops |-> [k \in 1..4 |-> [op |-> "Read", fn |-> "NewSessionTagFromBytes", in |-> Fill(30 + k, 4), cls |-> "exact"]]],
     [ops |-> [k \in 1..4 |-> [op |-> "Read", fn |-> "NewECIESSessionTagFromBytes", in |-> Fill(6 + k, 4), cls |-> "exact"]]],
     [ops |-> [k \in 1..4 |-> [op |-> "Read", fn |-> "NewHashFromSlice", in |-> Fill(30 + k, 4), cls |-> "exact"]]] >>

(******************************* signatures *********************************)
SigTypesAll == << 0, 1, 2, 3, 4, 5, 6, 7, 8, 9, 10, 11, 12, 20, 21, 255, 256, 65279, 65280, 65534, 65535 >>
  \o [k \in 1..(IF Thorough THEN 60 ELSE 6) |-> RndNat(Seed, 90 + k, 65536)]
SigVecs ==
  SeqMap(LAMBDA st :
     LET n == IF SigKnown(st) THEN SigLen(st) ELSE 64
         w == Fill(n, st) IN
     [ops |-> << [op |-> "Twins", fns |-> << "ReadSignature", "NewSignature" >>, typ |-> st, in |-> w, cls |-> "sig"],
                 [op |-> "Twins", fns |-> << "ReadSignature", "NewSignature" >>, typ |-> st, in |-> w \o Tail40, cls |-> "sig+tail"],
                 [op |-> "Read", fn |-> "NewSignatureFromBytes", typ |-> st, in |-> w, cls |-> "exact"],
                 [op |-> "Read", fn |-> "NewSignatureFromBytes", typ |-> st, in |-> w \o Tail1, cls |-> "exact+1"],
                 [op |-> "Read", fn |-> "NewSignatureFromBytes", typ |-> st, in |-> Take(w, n - 1), cls |-> "exact-1"],
                 [op |-> "Sweep", fn |-> "ReadSignature", typ |-> st, in |-> w \o << 1, 2 >>, cls |-> "sig"] >>], SigTypesAll)

(******************************* offline signatures *************************)
OffT == << 0, 1, 2, 3, 4, 7, 8, 11, 9, 12, 65535 >>
OffVecs ==
  Cross2(OffT, OffT, LAMBDA dst, tst :
     LET w == EncOffline(<< 101, 36, 248, 0 >>, tst, dst, 7) IN
     [ops |-> << [op |-> "Read", fn |-> "ReadOfflineSignature", typ |-> dst, in |-> w, cls |-> "off"],
                 [op |-> "Read", fn |-> "ReadOfflineSignature", typ |-> dst, in |-> w \o Tail40, cls |-> "off+tail"],
                 [op |-> "Sweep", fn |-> "ReadOfflineSignature", typ |-> dst, in |-> w \o << 3 >>, cls |-> "off"] >>])
  \o SeqMap(LAMBDA ex : [ops |-> << [op |-> "Read", fn |-> "ReadOfflineSignature", typ |-> 7, in |-> EncOffline(ex, 7, 7, 3), cls |-> "off-expires"] >>], T4)

(******************************* router addresses ***************************)
Styles == << << >>, << 78, 84, 67, 80, 50 >>, << 83, 83, 85, 50 >>, Fill(255, 8) >>
Costs == << 0, 10, 255 >>
AddrEnc(k) == EncRouterAddress(Pick(Costs, k), Pick(D8, k + 1), Pick(Styles, k + 2), Pick(OptSets, k + 3))
RAddrVecs ==
  Cross3(Costs, << Zeros(8), D8[3] >>, Styles, LAMBDA c, d, s :
     SessionSweep(<< "ReadRouterAddress" >>, EncRouterAddress(c, d, s, OptSets[4]), << >>, "raddr", 0))
  \o SeqMap(LAMBDA ps : SessionSweep(<< "ReadRouterAddress" >>, EncRouterAddress(10, Zeros(8), Styles[2], ps), << >>, "raddr-opts", 0), OptSets)
  \o [k \in 1..NRand |-> Session(<< "ReadRouterAddress" >>, AddrEnc(100 + 7 * k), << >>, "raddr-rnd")]

(******************************* router infos *******************************)
RIPairs == << << 7, 4 >>, << 0, 0 >>, << 1, 0 >>, << 2, 4 >>, << 7, 0 >>, << 11, 4 >>, << 8, 4 >>, << 7, 5 >>, << 3, 4 >> >>   \* last four: not permitted / unsupported
RIKinds == << "key", "null", "keyx" >>
RInfoEnc(kind, st, ct, pub8, na, peers, opts, salt) ==
  EncRouterInfo(EncIdentity(kind, st, ct, salt), IdentitySigType(kind, st), pub8, [i \in 1..na |-> AddrEnc(salt + i)], peers, opts, salt + 50)
RInfoShape(k) == << Pick(RIKinds, k), Pick(SubSeq(RIPairs, 1, 5), k + 1), Pick(D8, k + 2), RndNat(Seed, k + 3, 4), Pick(OptSets, k + 4) >>
RInfoVecs ==
  Cross2(RIKinds, RIPairs, LAMBDA kind, p :
     SessionSweep(<< "ReadRouterInfo" >>, RInfoEnc(kind, p[1], p[2], D8[3], 1, 0, OptSets[4], p[1] + p[2]), << >>,
                  "rinfo/" \o kind \o "/" \o ToString(p[1]) \o "/" \o ToString(p[2]), IF Thorough THEN 0 ELSE BlockLen))
  \o SeqMap(LAMBDA na : SessionSweep(<< "ReadRouterInfo" >>, RInfoEnc("key", 7, 4, D8[3], na, 0, OptSets[4], 3), << >>, "rinfo-naddr", BlockLen), << 0, 1, 2, 3, 8 >>)
  \o SeqMap(LAMBDA ps : Session(<< "ReadRouterInfo" >>, RInfoEnc("key", 7, 4, D8[3], 1, 0, ps, 4), << >>, "rinfo-opts"), OptSets)
  \o SeqMap(LAMBDA d : Session(<< "ReadRouterInfo" >>, RInfoEnc("key", 7, 4, d, 1, 0, OptSets[3], 5), << >>, "rinfo-date"), D8)
  \o << Session(<< "ReadRouterInfo" >>, RInfoEnc("key", 7, 4, D8[3], 1, 1, OptSets[3], 6), << >>, "rinfo-peers1") >>
  \* peer_size 1..2 with 32-byte "peer hashes" really present (beginning 00 00, so that what follows the count still reads as an options mapping):
  \* whatever the parser does with them, serialising the result gives back what it consumed
  \o SeqMap(LAMBDA np : Session(<< "ReadRouterInfo" >>,
                                EncIdentity("key", 7, 4, 9) \o D8[3] \o << 1 >> \o AddrEnc(3) \o << np >> \o Flatten([i \in 1..np |-> << 0, 0 >> \o Fill(30, 40 + i)])
                                \o SerMapping(OptSets[4]) \o Fill(64, 17) \o Fill(70, 3), << >>, "rinfo-peerhashes"), << 1, 2 >>)
  \o [k \in 1..NRand |-> LET s == RInfoShape(200 + 11 * k) IN
        Session(<< "ReadRouterInfo" >>, RInfoEnc(s[1], s[2][1], s[2][2], s[3], s[4], 0, s[5], k), << >>, "rinfo-rnd")]

(******************************* router info capabilities (extension family X01 + C02 accessor) ***********)
KCapsG == << 99, 97, 112, 115 >>   KVerG == << 114, 111, 117, 116, 101, 114, 46, 118, 101, 114, 115, 105, 111, 110 >>   KHostG == << 104, 111, 115, 116 >>   KPortG == << 112, 111, 114, 116 >>
CapsVals == << << >>,
              << 102 >>,
              << 102, 82 >>,
              << 76, 85 >>,
              << 88, 102, 82 >>,
              << 80, 102, 82, 68 >>,
              << 79, 102, 82, 69 >>,
              << 78, 82, 71 >>,
              << 75, 85 >>,
              << 77, 82 >>,
              << 85, 82 >>,
              << 76, 88 >>,
              << 88, 76 >>,
              << 102, 82, 68, 69, 71 >>,
              << 114 >>,
              << 70 >>,
              << 255, 80, 102, 82 >>, << 197, 130, 88, 102, 82 >>, << 102, 228, 184, 150, 82 >>, << 240, 159, 154, 128, 78 >>, << 0, 76 >>, << 239, 191, 189, 79 >>,
              Fill(68, 97), Fill(69, 97), Fill(71, 97), Fill(102, 97), Fill(81, 97) \o << 82 >>, Fill(84, 97) \o << 82 >>, Fill(75, 97), Fill(88, 97), Fill(255, 102) >>
VerVals == << << 48, 46, 57, 46, 54, 52 >>,
             << 48, 46, 57, 46, 53, 56 >>,
             << 48, 46, 57, 46, 53, 55 >>,
             << 48, 46, 57, 46, 57, 57 >>,
             << 48, 46, 57, 46, 49, 48, 48 >>,
             << 48, 46, 57 >>,
             << 48, 46, 57, 46, 54, 52, 46, 49 >>,
             << 49, 46, 57, 46, 54, 52 >>,
             << 48, 46, 56, 46, 54, 52 >>,
             << >>,
             << 48, 46, 57, 46, 120 >>,
             << 48, 46, 48, 57, 46, 48, 54, 52 >>,
             << 48, 46, 57, 46 >>,
             << 46, 46 >>,
             << 48, 46, 57, 46, 54, 32, 52 >>,
             << 48, 46, 49, 48, 46, 54, 52 >> >>
Ver064 == << 48, 46, 57, 46, 54, 52 >>
CapsOnly(v) == EncRouterAddress(9, Zeros(8), << 83, 83, 85, 50 >>, << << << 99, 97, 112, 115 >>, v >> >>)
CapAddrs == << EncRouterAddress(10, Zeros(8), << 78, 84, 67, 80, 50 >>, << << KHostG, << 49, 46, 50, 46, 51, 46, 52 >> >>, << KPortG, << 56, 48, 56, 48 >> >> >>),
              EncRouterAddress(10, Zeros(8), << 83, 83, 85, 50 >>, << << KHostG, << 58, 58, 49 >> >>, << KPortG, << 56, 48, 56, 48 >> >> >>),
              EncRouterAddress(10, Zeros(8), << 78, 84, 67, 80 >>, << << KHostG, << 50, 48, 48, 49, 58, 100, 98, 56, 58, 58, 49 >> >>, << KPortG, << 56, 48, 56, 48 >> >> >>),
              EncRouterAddress(10, Zeros(8), << 110, 116, 99, 112, 50 >>, << >>),
              EncRouterAddress(10, Zeros(8), << 120, 78, 116, 67, 112, 50, 121 >>, << << KHostG, << 101, 120, 97, 109, 112, 108, 101, 46, 99, 111, 109 >> >>, << KPortG, << 56, 48, 56, 48 >> >> >>),
              EncRouterAddress(10, Zeros(8), << 83, 83, 85 >>, << << KHostG, << 49, 48, 46, 48, 46, 48, 46, 49 >> >>, << KPortG, << 56, 48, 56, 48 >> >> >>),
              EncRouterAddress(10, Zeros(8), << 83, 115, 85, 50 >>, << << KHostG, << 49, 57, 50, 46, 49, 54, 56, 46, 49, 46, 49 >> >>, << KPortG, << 56, 48, 56, 48 >> >> >>),
              EncRouterAddress(10, Zeros(8), << >>, << >>),
              EncRouterAddress(10, Zeros(8), << 78, 84, 67, 80, 50, 83, 83, 85, 50 >>, << << KHostG, << 102, 101, 56, 48, 58, 58, 49 >> >>, << KPortG, << 56, 48, 56, 48 >> >> >>) >>
AddrSetsX == << << >>, << CapAddrs[1] >>, << CapAddrs[2] >>, << CapAddrs[3] >>, << CapAddrs[4] >>, << CapAddrs[5] >>, << CapAddrs[6] >>, << CapAddrs[7] >>, << CapAddrs[8] >>, << CapAddrs[9] >>,
               << CapAddrs[1], CapAddrs[2] >>, << CapAddrs[3], CapAddrs[6] >>, << CapAddrs[8], CapAddrs[4], CapAddrs[7] >>,
               << CapsOnly(<< >>) >>, << CapsOnly(<< 54 >>) >>, << CapsOnly(<< 66, 52 >>), CapsOnly(<< 66 >>) >> >>
RICapsEnc(opts, addrs, salt) == EncRouterInfo(EncIdentity("key", 7, 4, salt), 7, D8[3], addrs, 0, opts, salt + 50)
RICapsVecs ==
  [k \in 1..Len(CapsVals) |-> Session(<< "ReadRouterInfo" >>, RICapsEnc(<< << KCapsG, CapsVals[k] >>, << KVerG, Ver064 >> >>, AddrSetsX[2], k), << >>, "ricaps-caps")]
  \o [k \in 1..Len(VerVals) |-> Session(<< "ReadRouterInfo" >>, RICapsEnc(<< << KCapsG, CapsVals[3] >>, << KVerG, VerVals[k] >> >>, AddrSetsX[3], 30 + k), << >>, "ricaps-version")]
  \o [k \in 1..Len(AddrSetsX) |-> Session(<< "ReadRouterInfo" >>, RICapsEnc(<< << KCapsG, CapsVals[5] >>, << KVerG, Ver064 >> >>, AddrSetsX[k], 60 + k), << >>, "ricaps-addrs")]
  \o << Session(<< "ReadRouterInfo" >>, RICapsEnc(<< >>, AddrSetsX[2], 90), << >>, "ricaps-absent"),
        Session(<< "ReadRouterInfo" >>, RICapsEnc(<< << KVerG, Ver064 >> >>, AddrSetsX[2], 91), << >>, "ricaps-nocaps"),
        Session(<< "ReadRouterInfo" >>, RICapsEnc(<< << KCapsG, CapsVals[3] >> >>, AddrSetsX[2], 92), << >>, "ricaps-noversion") >>
  \o [k \in 1..NRand |-> Session(<< "ReadRouterInfo" >>,
         RICapsEnc(<< << KCapsG, Pick(CapsVals, 300 + k) >>, << KVerG, Pick(VerVals, 400 + k) >> >>, Pick(AddrSetsX, 500 + k), 100 + k), << >>, "ricaps-rnd")]

(******************************* lease sets *********************************)
DestPairs == << << 7, 4 >>, << 0, 0 >>, << 1, 0 >>, << 2, 0 >>, << 7, 0 >>, << 11, 4 >>, << 1, 4 >>, << 8, 4 >>, << 7, 5 >>, << 7, 6 >>, << 7, 7 >>, << 8, 5 >>, << 3, 4 >>, << 4, 0 >> >>
PermittedDestPairs == SubSeq(DestPairs, 1, 7)
LSEnc(kind, st, ct, nDecl, nAct, salt) ==
  EncLeaseSet(EncIdentity(kind, st, ct, salt), IdentitySigType(kind, st), nDecl, [i \in 1..nAct |-> EncLease(salt + i, T4[(i % 6) + 1], D8[(i % 3) + 2])], salt + 9)
LSFns == << "ReadLeaseSet", "ReadDestinationFromLeaseSet" >>
LSVecs ==
  Cross2(RIKinds, DestPairs, LAMBDA kind, p :
     [ops |-> << [op |-> "Read", fn |-> "ReadLeaseSet", in |-> LSEnc(kind, p[1], p[2], 1, 1, p[1] + p[2]), cls |-> "ls/" \o kind \o "/" \o ToString(p[1]) \o "/" \o ToString(p[2])],
                 [op |-> "Read", fn |-> "ReadLeaseSet", in |-> LSEnc(kind, p[1], p[2], 1, 1, p[1] + p[2]) \o Tail40, cls |-> "ls+tail"],
                 [op |-> "Read", fn |-> "ReadDestinationFromLeaseSet", in |-> LSEnc(kind, p[1], p[2], 1, 1, p[1] + p[2]), cls |-> "lsdest/" \o kind \o "/" \o ToString(p[1]) \o "/" \o ToString(p[2])] >>])
  \o Cross2(PermittedDestPairs, << 0, 1, 2, 15, 16, 17 >>, LAMBDA p, n :
     [ops |-> << [op |-> "Read", fn |-> "ReadLeaseSet", in |-> LSEnc("key", p[1], p[2], n, n, n), cls |-> "ls-n" \o ToString(n)],
                 [op |-> "Sweep", fn |-> "ReadLeaseSet", in |-> LSEnc("key", p[1], p[2], n, n, n) \o << 5 >>, cls |-> "ls-n" \o ToString(n), from |-> (IF Thorough THEN 0 ELSE BlockLen)] >>])
  \o SeqMap(LAMBDA d : [ops |-> << [op |-> "Read", fn |-> "ReadLeaseSet", in |-> LSEnc("key", 7, 4, 2 + d, 2, 1), cls |-> "ls-count-mismatch"] >>], << -1, 1 >>)

(******************************* LeaseSet2 / Meta / Encrypted ***************)
Flags == << 0, 1, 2, 3, 4, 5, 6, 7, 8, 32768, 65535 >>
OffTypes == << 7, 11, 0, 1, 2, 8, 4 >>
KeyShapes == << << 4, 32, 32 >>, << 0, 256, 256 >>, << 5, 32, 32 >>, << 6, 32, 32 >>, << 7, 32, 32 >>, << 1, 64, 64 >>, << 65280, 7, 7 >>, << 4, 31, 31 >>, << 4, 33, 33 >>, << 0, 0, 0 >> >>
KeyEnc(ks, salt) == EncEncKey(ks[1], ks[2], Fill(ks[3], salt))
OffBlock(has, tst, dst, salt) == IF has THEN EncOffline(T4[6], tst, dst, salt) ELSE << >>

LS2Enc(kind, st, ct, pub4, exp2, flags, tst, opts, nkDecl, keyShapes, nlDecl, nlAct, salt) ==
  LET dst == IdentitySigType(kind, st)
      has == flags % 2 = 1
  IN EncLS2(EncIdentity(kind, st, ct, salt), pub4, exp2, flags, OffBlock(has, tst, dst, salt + 1), opts,
            nkDecl, [i \in 1..Len(keyShapes) |-> KeyEnc(keyShapes[i], salt + 2 + i)],
            nlDecl, [i \in 1..nlAct |-> EncLease2(salt + 20 + i, T4[(i % 6) + 1], T4[((i + 2) % 6) + 1])],
            IF has THEN tst ELSE dst, salt + 40)
LS2Default(salt) == LS2Enc("key", 7, 4, T4[6], << 2, 88 >>, 0, 7, OptSets[1], 1, << KeyShapes[1] >>, 1, 1, salt)
NKeys(n) == [i \in 1..n |-> KeyShapes[((i - 1) % 5) + 1]]
LS2Fns == << "ReadLeaseSet2" >>
LS2One(w, cls) == SessionSweep(LS2Fns, w, << >>, cls, IF Thorough THEN 0 ELSE BlockLen)
LS2Vecs ==
  << LS2One(LS2Default(1), "ls2-default") >>
  \o Cross2(RIKinds, DestPairs, LAMBDA kind, p :
       LS2One(LS2Enc(kind, p[1], p[2], T4[6], << 2, 88 >>, 0, 7, OptSets[1], 1, << KeyShapes[1] >>, 1, 1, p[1] + p[2]),
              "ls2/" \o kind \o "/" \o ToString(p[1]) \o "/" \o ToString(p[2])))
  \o SeqMap(LAMBDA f : LS2One(LS2Enc("key", 7, 4, T4[6], << 2, 88 >>, f, 7, OptSets[1], 1, << KeyShapes[1] >>, 1, 1, 2), "ls2-flags" \o ToString(f)), Flags)
  \o Cross2(OffTypes, << << 7, 4 >>, << 0, 0 >>, << 1, 0 >>, << 11, 4 >> >>, LAMBDA t, p :
       LS2One(LS2Enc("key", p[1], p[2], T4[6], << 2, 88 >>, 1, t, OptSets[3], 1, << KeyShapes[1] >>, 2, 2, 3), "ls2-offline/" \o ToString(t) \o "/" \o ToString(p[1])))
  \o SeqMap(LAMBDA ps : LS2One(LS2Enc("key", 7, 4, T4[6], << 2, 88 >>, 0, 7, ps, 1, << KeyShapes[1] >>, 1, 1, 4), "ls2-opts"), OptSets)
  \o SeqMap(LAMBDA p : LS2One(LS2Enc("key", p[1], p[2], T4[6], << 2, 88 >>, 1, 7, OptSets[1], 1, << KeyShapes[1] >>, 1, 1, p[1] + p[2] + 3), "ls2-offline-dest/" \o ToString(p[1]) \o "/" \o ToString(p[2])), DestPairs)
  \o SeqMap(LAMBDA n : LS2One(LS2Enc("key", 7, 4, T4[6], << 2, 88 >>, 0, 7, OptSets[1], n, NKeys(n), 1, 1, 5), "ls2-nk" \o ToString(n)), << 0, 1, 2, 3, 15, 16, 17 >>)
  \o SeqMap(LAMBDA ks : LS2One(LS2Enc("key", 7, 4, T4[6], << 2, 88 >>, 0, 7, OptSets[1], 1, << ks >>, 1, 1, 6), "ls2-key/" \o ToString(ks[1]) \o "/" \o ToString(ks[2])), KeyShapes)
  \o SeqMap(LAMBDA n : LS2One(LS2Enc("key", 7, 4, T4[6], << 2, 88 >>, 0, 7, OptSets[1], 1, << KeyShapes[1] >>, n, n, 7), "ls2-nl" \o ToString(n)), << 0, 1, 2, 15, 16, 17 >>)
  \o Cross2(T4, << << 0, 0 >>, << 0, 1 >>, << 255, 255 >> >>, LAMBDA pb, ex :
       Session(LS2Fns, LS2Enc("key", 7, 4, pb, ex, 0, 7, OptSets[1], 1, << KeyShapes[1] >>, 1, 1, 8), << >>, "ls2-times"))
  \o << LS2One(LS2Enc("null", 0, 0, T4[6], << 2, 88 >>, 0, 7, OptSets[1], 1, << KeyShapes[1] >>, 0, 0, 9), "ls2-small-dsa") >>
  \o [k \in 1..NRand |->
        LET p == Pick(PermittedDestPairs, 300 + k)  f == Pick(SubSeq(Flags, 1, 8), 301 + k)  nk == RndNat(Seed, 302 + k, 4) + 1
            nl == RndNat(Seed, 303 + k, 17) IN
        Session(LS2Fns, LS2Enc(Pick(RIKinds, 304 + k), p[1], p[2], Pick(T4, 305 + k), << RndNat(Seed, 306 + k, 256), RndNat(Seed, 307 + k, 256) >>,
                               f, Pick(SubSeq(OffTypes, 1, 5), 308 + k), Pick(OptSets, 309 + k), nk, NKeys(nk), nl, nl, k), << >>, "ls2-rnd")]

EntryEnc(i, type, opts) == EncMetaEntry(60 + i, type, T4[(i % 6) + 1], (i * 37) % 256, opts)
MetaEnc(kind, st, ct, flags, tst, opts, neDecl, neAct, etype, eopts, salt) ==
  LET dst == IdentitySigType(kind, st)  has == flags % 2 = 1 IN
  EncMeta(EncIdentity(kind, st, ct, salt), T4[6], << 2, 88 >>, flags, OffBlock(has, tst, dst, salt + 1), opts,
          neDecl, [i \in 1..neAct |-> EntryEnc(i, etype, eopts)], IF has THEN tst ELSE dst, salt + 40)
MetaFns == << "ReadMetaLeaseSet" >>
MetaOne(w, cls) == SessionSweep(MetaFns, w, << >>, cls, IF Thorough THEN 0 ELSE BlockLen)
MetaVecs ==
  << MetaOne(MetaEnc("key", 7, 4, 0, 7, OptSets[1], 2, 2, 3, OptSets[1], 1), "meta-default") >>
  \o Cross2(RIKinds, DestPairs, LAMBDA kind, p :
       MetaOne(MetaEnc(kind, p[1], p[2], 0, 7, OptSets[1], 2, 2, 3, OptSets[1], p[1] + p[2]), "meta/" \o kind \o "/" \o ToString(p[1]) \o "/" \o ToString(p[2])))
  \o SeqMap(LAMBDA f : MetaOne(MetaEnc("key", 7, 4, f, 7, OptSets[1], 1, 1, 3, OptSets[1], 2), "meta-flags" \o ToString(f)), Flags)
  \o SeqMap(LAMBDA t : MetaOne(MetaEnc("key", 7, 4, 1, t, OptSets[1], 1, 1, 3, OptSets[1], 3), "meta-offline/" \o ToString(t)), OffTypes)
  \o SeqMap(LAMBDA ps : MetaOne(MetaEnc("key", 7, 4, 0, 7, ps, 1, 1, 3, OptSets[1], 4), "meta-opts"), OptSets)
  \o SeqMap(LAMBDA ps : MetaOne(MetaEnc("key", 7, 4, 0, 7, OptSets[1], 2, 2, 1, ps, 5), "meta-entryprops"), OptSets)
  \o SeqMap(LAMBDA n : MetaOne(MetaEnc("key", 7, 4, 0, 7, OptSets[1], n, n, 5, OptSets[1], 6), "meta-ne" \o ToString(n)), << 0, 1, 2, 15, 16, 17 >>)
  \o SeqMap(LAMBDA t : MetaOne(MetaEnc("key", 7, 4, 0, 7, OptSets[1], 1, 1, t, OptSets[1], 7), "meta-etype" \o ToString(t)), << 0, 1, 2, 3, 4, 5, 7, 255 >>)
  \o << MetaOne(MetaEnc("null", 0, 0, 0, 7, OptSets[1], 1, 1, 3, OptSets[1], 8), "meta-small-dsa") >>
  \* the key-type policy does not depend on who signs: every destination pair again WITH offline keys
  \o SeqMap(LAMBDA p : MetaOne(MetaEnc("key", p[1], p[2], 1, 7, OptSets[1], 1, 1, 3, OptSets[1], p[1] + p[2] + 3), "meta-offline-dest/" \o ToString(p[1]) \o "/" \o ToString(p[2])), DestPairs)

ELSEnc(st, pub4, exp2, flags, tst, innerDecl, innerAct, salt) ==
  LET has == flags % 2 = 1 IN
  EncELS(st, pub4, exp2, flags, OffBlock(has, tst, st, salt + 1), innerDecl, Fill(innerAct, salt + 2), IF has THEN tst ELSE st, salt + 3)
ELSFns == << "ReadEncryptedLeaseSet" >>
ELSOne(w, cls) == SessionSweep(ELSFns, w, << >>, cls, 0)
ELSVecs ==
  SeqMap(LAMBDA st : ELSOne(ELSEnc(st, T4[6], << 2, 88 >>, 0, 7, 100, 100, st), "els-st" \o ToString(st)), << 11, 7, 0, 1, 2, 3, 4, 8, 9, 12, 65535 >>)
  \o SeqMap(LAMBDA f : ELSOne(ELSEnc(11, T4[6], << 2, 88 >>, f, 7, 100, 100, 2), "els-flags" \o ToString(f)), Flags)
  \o SeqMap(LAMBDA t : ELSOne(ELSEnc(11, T4[6], << 2, 88 >>, 1, t, 100, 100, 3), "els-offline/" \o ToString(t)), OffTypes)
  \o SeqMap(LAMBDA n : ELSOne(ELSEnc(11, T4[6], << 2, 88 >>, 0, 7, n, n, 4), "els-inner" \o ToString(n)), << 0, 1, 60, 61, 62, 255, 256, 1000 >>)
  \o SeqMap(LAMBDA d : ELSOne(ELSEnc(11, T4[6], << 2, 88 >>, 0, 7, 100 + d, 100, 5), "els-innermismatch"), << -1, 1 >>)
  \o Cross2(T4, << << 0, 0 >>, << 0, 1 >>, << 255, 255 >> >>, LAMBDA pb, ex : Session(ELSFns, ELSEnc(11, pb, ex, 0, 7, 100, 100, 6), << >>, "els-times"))

(******************************* primitive readers **************************)
PrimVecs ==
  << SessionSweep(<< "ReadDate", "NewDate" >>, Fill(8, 1), << >>, "date", 0),
     SessionSweep(<< "ReadHash" >>, Fill(32, 2), << >>, "hash", 0) >>
  \o SeqMap(LAMBDA d : SessionSweep(<< "ReadI2PString" >>, << d >> \o Fill(d, d), << >>, "string", 0), << 0, 1, 2, 17, 254, 255 >>)
  \o Cross3(<< "ReadInteger", "NewInteger" >>, << 1, 2, 4, 8 >>, << 0, 1, 7, 8, 9, 12 >>, LAMBDA fn, sz, n : [ops |-> << [op |-> "ReadInt", fn |-> fn, size |-> sz, in |-> Fill(n, sz)] >>])
  \o SeqMap(LAMBDA sz : SessionSweep(<< "ReadInteger", "NewInteger" >>, Fill(sz, sz), [size |-> sz], "integer", 0), << 1, 2, 3, 4, 5, 6, 7, 8 >>)

(******************************* serialisations kept by the caller ***********)
\* two different values of every structure are parsed and serialised one after the other; the serialisations are KEPT (and later
\* appended to / overwritten by the caller) while the following ones are produced (Chain op, kind "ser")
SerItem(fn, w, extra) == [fn |-> fn, in |-> w] @@ extra
SerChainItems ==
  << SerItem("ReadRouterInfo", RInfoEnc("key", 7, 4, D8[3], 1, 0, OptSets[4], 3), << >>), SerItem("ReadRouterInfo", RInfoEnc("key", 7, 4, D8[2], 2, 0, OptSets[3], 5), << >>),
     SerItem("ReadLeaseSet", LSEnc("key", 7, 4, 2, 2, 3), << >>), SerItem("ReadLeaseSet", LSEnc("key", 7, 4, 1, 1, 7), << >>),
     SerItem("ReadLeaseSet2", LS2Default(1), << >>), SerItem("ReadLeaseSet2", LS2Default(9), << >>),
     SerItem("ReadMetaLeaseSet", MetaEnc("key", 7, 4, 0, 7, OptSets[1], 2, 2, 3, OptSets[1], 1), << >>), SerItem("ReadMetaLeaseSet", MetaEnc("key", 7, 4, 0, 7, OptSets[3], 1, 1, 3, OptSets[1], 5), << >>),
     SerItem("ReadEncryptedLeaseSet", ELSEnc(11, T4[6], << 2, 88 >>, 0, 7, 100, 100, 2), << >>), SerItem("ReadEncryptedLeaseSet", ELSEnc(11, T4[6], << 2, 88 >>, 0, 7, 80, 80, 6), << >>),
     SerItem("ReadDestination", EncIdentity("key", 7, 4, 3), << >>), SerItem("ReadDestination", EncIdentity("key", 7, 4, 8), << >>),
     SerItem("ReadRouterIdentity", EncIdentity("key", 7, 4, 4), << >>), SerItem("ReadKeysAndCert", EncIdentity("null", 0, 0, 5), << >>), SerItem("ReadKeysAndCert", EncIdentity("key", 7, 0, 6), << >>),
     SerItem("ReadCertificate", << 5, 0, 4, 0, 7, 0, 4 >>, << >>), SerItem("ReadCertificate", << 1, 0, 3, 9, 8, 7 >>, << >>), SerItem("NewKeyCertificate", << 5, 0, 4, 0, 11, 0, 4 >>, << >>),
     SerItem("ReadRouterAddress", AddrEnc(3), << >>), SerItem("ReadRouterAddress", AddrEnc(8), << >>),
     SerItem("ReadMapping", SerMapping(OptSets[4]), << >>), SerItem("ReadMapping", SerMapping(OptSets[7]), << >>),
     SerItem("ReadLease", EncLease(5, T4[2], D8[3]), << >>), SerItem("ReadLease", EncLease(6, T4[3], D8[2]), << >>),
     SerItem("ReadLease2", EncLease2(6, T4[2], T4[3]), << >>), SerItem("ReadLease2", EncLease2(7, T4[4], T4[2]), << >>),
     SerItem("ReadOfflineSignature", EncOffline(T4[6], 7, 7, 3), [typ |-> 7]), SerItem("ReadOfflineSignature", EncOffline(T4[3], 11, 7, 4), [typ |-> 7]),
     SerItem("ReadSignature", Fill(64, 1), [typ |-> 7]), SerItem("ReadSignature", Fill(64, 2), [typ |-> 7]),
     SerItem("ReadI2PString", << 3, 97, 98, 99 >>, << >>), SerItem("ReadI2PString", << 2, 120, 121 >>, << >>), SerItem("ReadDate", D8[3], << >>), SerItem("ReadDate", D8[2], << >>) >>
SerChainVecs == << [ops |-> << [op |-> "Chain", fn |-> "Bytes", kind |-> "ser", items |-> SerChainItems, cls |-> "structures"] >>] >>

Vecs == CASE Fam = "serchain" -> SerChainVecs [] Fam = "prims" -> PrimVecs [] Fam = "lease" -> LeaseVecs \o SessionVecs [] Fam = "sig" -> SigVecs [] Fam = "offsig" -> OffVecs
          [] Fam = "raddr" -> RAddrVecs [] Fam = "rinfo" -> RInfoVecs [] Fam = "ls" -> LSVecs [] Fam = "ls2" -> LS2Vecs
          [] Fam = "meta" -> MetaVecs [] Fam = "els" -> ELSVecs [] Fam = "ricaps" -> RICapsVecs
          [] OTHER -> LeaseVecs \o SessionVecs \o SigVecs \o OffVecs \o RAddrVecs \o RInfoVecs \o LSVecs \o LS2Vecs \o MetaVecs \o ELSVecs

VARIABLE done
Init == done = FALSE
Next == ~done /\ ndJsonSerialize(OutFile, Vecs) /\ PrintT(<< "GENERATED", Len(Vecs) >>) /\ done' = TRUE
=============================================================================
