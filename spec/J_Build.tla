------------------------------ MODULE J_Build ------------------------------
(***************************************************************************)
(* Judging constructor calls ("Build" events): the bytes the library       *)
(* produces for a model value are decoded by the reference decoder and     *)
(* compared with the model (C02 direction 2); the constructor / Validate / *)
(* parser layers must agree (C14); identity policy (C09), layout (C10),    *)
(* hashes/addresses (C07), canonical mappings (C11), exact times (C15).    *)
(***************************************************************************)
EXTENDS J_Struct2

\* C14 lifecycle on any Build result
HasStab(r) == "stab" \in DOMAIN r /\ r.stab.done
LifecycleT(r, cls, timeOK) ==
  << R("C14", "constructor_ok_implies_validate_ok", r.ok /\ r.hasvalid /\ timeOK, r.validok, cls),
     R("C14", "valid_value_round_trips", r.ok /\ r.hasvalid /\ r.validok /\ r.rt.done,
       r.serok /\ r.rt.ok /\ r.rt.remlen = 0 /\ r.rt.same, cls),
     \* a constructed value is a value like a parsed one: asking it everything (all read-only methods, two passes) neither changes
     \* what it answers nor what it serialises to
     R("C14", "constructed_value_serialises_the_same_after_queries", r.ok /\ r.serok /\ HasStab(r) /\ r.stab.reser, r.stab.ser2 = r.ser, cls),
     R("C02", "constructed_value_accessors_stable_under_queries", r.ok /\ HasStab(r), Len(r.stab.unstable) = 0, cls),
     R("C07", "constructed_hash_and_address_queries_stable", r.ok /\ HasStab(r), \A i \in 1..Len(r.stab.unstable) : r.stab.unstable[i] \notin HashQueries, cls) >>
Lifecycle(r, cls) == LifecycleT(r, cls, TRUE)
\* Lease.Validate / Lease2.Validate consult the clock: only leases that end after 2097 (0xF0000000 s) are judged
FarFuture(sec) == ~LtBE(sec, << 240, 0, 0, 0 >>)


IdentityModelValid(m) ==
  /\ SigKnown(m.st) /\ CryptoKnown(m.ct) /\ LibSupportsPair(m.st, m.ct)
  /\ ~("nilpub" \in DOMAIN m /\ m.nilpub) /\ ~("nilspk" \in DOMAIN m /\ m.nilspk)
  /\ Len(m.pub) = CryptoPubLen(m.ct) /\ Len(m.spk) = SigPubLen(m.st)
  /\ Len(m.padding) = BlockLen - CryptoPubLen(m.ct) - SigPubLen(m.st)
IdentityDefect(m) ==    \* a documented structural defect (size mismatch) on otherwise known types
  /\ SigKnown(m.st) /\ CryptoKnown(m.ct)
  /\ \/ Len(m.pub) # CryptoPubLen(m.ct) \/ Len(m.spk) # SigPubLen(m.st)
     \/ Len(m.padding) # BlockLen - CryptoPubLen(m.ct) - SigPubLen(m.st)

JBuildIdentity(e, cls0) ==
  LET m == e.m  r == e.r
      cls == cls0 \o "/st=" \o ToString(m.st) \o "/ct=" \o ToString(m.ct)
      isDest == e.fn = "NewDestination"
      isRI == e.fn \in {"NewRouterIdentityFromKeysAndCert", "NewRouterIdentity"}
      permitted == IF isDest THEN ~DestProhibited(m.st, m.ct) ELSE IF isRI THEN ~RouterProhibited(m.st, m.ct) ELSE TRUE
      d == RefReadKAC(r.ser)
      hasAcc == r.ok /\ "acc" \in DOMAIN r /\ ~r.acc.nil
  IN
  << R("C02", "constructed_identity_decodes_to_model", r.ok /\ r.serok /\ IdentityModelValid(m),
       /\ d.ok /\ d.consumed = Len(r.ser) /\ d.st = m.st /\ d.ct = m.ct /\ d.cert.type = CertKey
       /\ KACPub(r.ser, 0, d) = m.pub /\ KACSpk(r.ser, 0, d) = m.spk /\ KACPadding(r.ser, 0, d) = m.padding, cls),
     R("C10", "constructed_block_layout", r.ok /\ r.serok /\ IdentityModelValid(m),
       /\ Take(r.ser, Len(m.pub)) = m.pub
       /\ Slice(r.ser, BlockLen - Len(m.spk), Len(m.spk)) = m.spk
       /\ Slice(r.ser, Len(m.pub), BlockLen - Len(m.pub) - Len(m.spk)) = m.padding
       /\ hasAcc /\ r.acc.publen = CryptoPubLen(m.ct) /\ r.acc.spklen = SigPubLen(m.st), cls),
     R("C09", "constructor_never_returns_prohibited", r.ok /\ (isDest \/ isRI) /\ r.serok /\ d.wf,
       IF isDest THEN ~DestProhibited(d.st, d.ct) ELSE ~RouterProhibited(d.st, d.ct), cls),
     R("C09", "constructor_rejects_prohibited", ~permitted, ~r.ok, cls),
     R("C09", "permitted_supported_accepted", permitted /\ IdentityModelValid(m), r.ok, cls),
     R("C14", "constructor_rejects_documented_defect", IdentityDefect(m) /\ "literal" \notin DOMAIN m, ~r.ok, cls),
     \* the padding is exactly the bytes between the keys and the keys have their declared lengths: anything else is refused, not trimmed or filled
     R("C10", "constructor_refuses_sizes_that_do_not_fill_the_block", IdentityDefect(m) /\ "literal" \notin DOMAIN m, ~r.ok, cls),
     R("C07", "constructed_hash_and_addresses", hasAcc /\ r.serok /\ "hash" \in DOMAIN r.acc /\ "sha" \in DOMAIN r,
       /\ r.acc.hash_ok /\ r.acc.hash = r.sha
       /\ r.acc.b32_ok /\ r.acc.b32 = B32Address(r.sha) /\ Len(r.acc.b32) = 60
       /\ r.acc.b64_ok /\ r.acc.b64 = B64(r.ser), cls) >>
  \o Lifecycle(r, cls)

SecToMs8(sec, ns) == PadTo(TimeToDate(sec, ns), 8)

JBuild(e) ==
  LET m == e.m  r == e.r  cls == e.fn \o "/" \o (IF "cls" \in DOMAIN e THEN e.cls ELSE "-") IN
  CASE e.fn = "NewCertificateWithType" ->
        << R("C02", "constructed_certificate_bytes", r.ok /\ CertCtorValid(m.type, m.payload), r.ser = SerCert(m.type, m.payload), cls),
           R("C14", "constructor_rejects_documented_defect", ~CertCtorValid(m.type, m.payload), ~r.ok, cls) >> \o Lifecycle(r, cls)
    [] e.fn = "CertificateBuilder" ->
        LET isKey == "st" \in DOMAIN m
            type == IF "type" \in DOMAIN m THEN m.type ELSE IF isKey THEN CertKey ELSE CertNull
            payload == IF isKey THEN KeyCertPayload(m.st, m.ct) ELSE IF "payload" \in DOMAIN m THEN m.payload ELSE << >> IN
        << R("C19", "builder_agrees_with_direct_constructor", r.ok /\ isKey /\ m.st \in 0..65535 /\ m.ct \in 0..65535
                    /\ ("payload" \notin DOMAIN m \/ ("payloadfirst" \in DOMAIN m /\ m.payloadfirst)),
             r.ser = SerCert(CertKey, KeyCertPayload(m.st, m.ct)), cls),
           R("C02", "builder_certificate_bytes", r.ok /\ CertCtorValid(type, payload) /\ (isKey => m.st \in 0..65535 /\ m.ct \in 0..65535 /\ ("payload" \notin DOMAIN m \/ ("payloadfirst" \in DOMAIN m /\ m.payloadfirst))),
             r.ser = SerCert(type, payload), cls),
           R("C14", "builder_build_ok_implies_validate_ok", r.ok, r.validok, cls) >>
        \o << R("C14", "valid_value_round_trips", r.ok /\ r.rt.done, r.serok /\ r.rt.ok /\ r.rt.remlen = 0 /\ r.rt.same, cls) >>
    [] e.fn = "BuildKeyTypePayload" ->
        << R("C19", "key_type_payload", r.ok, r.ser = KeyCertPayload(m.st, m.ct), cls) >>
    [] e.fn \in {"NewKeyCertificateWithTypes", "NewEd25519X25519KeyCertificate", "NewECDSAP256KeyCertificate", "NewECDSAP384KeyCertificate",
                 "NewDSAElGamalKeyCertificate", "NewRedDSAX25519KeyCertificate"} ->
        LET st == CASE e.fn = "NewKeyCertificateWithTypes" -> m.st [] e.fn = "NewEd25519X25519KeyCertificate" -> 7
                    [] e.fn = "NewECDSAP256KeyCertificate" -> 1 [] e.fn = "NewECDSAP384KeyCertificate" -> 2
                    [] e.fn = "NewDSAElGamalKeyCertificate" -> 0 [] OTHER -> 11
            ct == CASE e.fn = "NewKeyCertificateWithTypes" -> m.ct
                    [] e.fn \in {"NewEd25519X25519KeyCertificate", "NewRedDSAX25519KeyCertificate"} -> 4 [] OTHER -> 0
            known == SigKnown(st) /\ CryptoKnown(ct) IN
        << R("C02", "constructed_keycert_bytes", r.ok /\ known /\ ExcessFor(st, ct) = 0, r.ser = SerCert(CertKey, KeyCertPayload(st, ct)), cls),
           \* the convenience constructors and NewKeyCertificateWithTypes are two ways to the same certificate: both give the bytes the
           \* specification gives for the pair (whatever happened to certificates handed out earlier)
           R("C19", "keycert_constructors_agree_on_the_certificate", r.ok /\ known /\ ExcessFor(st, ct) = 0, r.ser = SerCert(CertKey, KeyCertPayload(st, ct)), cls),
           R("C10", "keycert_constructor_known_types", known /\ ExcessFor(st, ct) = 0, r.ok, cls),
           R("C10", "keycert_constructor_rejects_unknown", ~known, ~r.ok, cls),
           R("C10", "keycert_sizes_match_table", r.ok /\ known,
             r.acc.sigsize = SigLen(st) /\ r.acc.spksize = SigPubLen(st) /\ r.acc.cryptosize = CryptoPubLen(ct) /\ r.acc.cpksize = CryptoPubLen(ct), cls) >>
        \o Lifecycle(r, cls)
    [] e.fn \in {"NewKeysAndCert", "NewDestination", "NewRouterIdentityFromKeysAndCert", "NewRouterIdentity"} -> JBuildIdentity(e, cls)
    [] e.fn = "NewPrivateKeysAndCert" ->
        IF "nilencpriv" \in DOMAIN m \/ "nilsigpriv" \in DOMAIN m
        THEN << R("C14", "constructor_rejects_documented_defect", TRUE, ~r.ok, cls) >>
        ELSE JBuildIdentity(e, cls) \o << R("C14", "private_keys_kept", r.ok, r.privs, cls) >>
    [] e.fn = "NewCertificate" ->
        << R("C02", "constructed_certificate_bytes", TRUE, r.ok /\ r.ser = SerCert(CertNull, << >>), cls) >> \o Lifecycle(r, cls)
    [] e.fn = "NewRouterIdentityWithCompressiblePadding" ->
        LET valid == SigKnown(m.st) /\ CryptoKnown(m.ct) /\ LibSupportsPair(m.st, m.ct)
                     /\ Len(m.pub) = CryptoPubLen(m.ct) /\ Len(m.spk) = SigPubLen(m.st)
            padLen == BlockLen - Len(m.pub) - Len(m.spk)
            pad == Slice(r.ser, Len(m.pub), padLen)
            cl == cls \o "/st=" \o ToString(m.st) \o "/ct=" \o ToString(m.ct) IN
        << R("C09", "constructor_rejects_prohibited", RouterProhibited(m.st, m.ct), ~r.ok, cl),
           R("C09", "permitted_supported_accepted", ~RouterProhibited(m.st, m.ct) /\ valid, r.ok, cl),
           R("C14", "constructor_rejects_documented_defect", SigKnown(m.st) /\ CryptoKnown(m.ct) /\ (Len(m.pub) # CryptoPubLen(m.ct) \/ Len(m.spk) # SigPubLen(m.st)), ~r.ok, cl),
           R("C10", "constructed_block_layout", r.ok /\ r.serok /\ valid,
             Take(r.ser, Len(m.pub)) = m.pub /\ Slice(r.ser, BlockLen - Len(m.spk), Len(m.spk)) = m.spk, cl),
           R("C02", "constructed_identity_decodes_to_model", r.ok /\ r.serok /\ valid,
             LET d == RefReadKAC(r.ser) IN d.ok /\ d.consumed = Len(r.ser) /\ d.st = m.st /\ d.ct = m.ct, cl),
           \* Proposal 161: the padding the library generates repeats a 32-byte block
           R("X02", "generated_padding_is_compressible", r.ok /\ r.serok /\ valid, \A i \in 33..padLen : pad[i] = pad[i - 32], cl) >>
        \o Lifecycle(r, cl)
    [] e.fn = "NewRouterAddress" ->
        LET d == RefRouterAddress(r.ser)
            valid == Len(m.style) \in 1..255 /\ MapEncodable(m.pairs) /\ ~m.expneg IN
        << R("C02", "constructed_router_address_decodes_to_model", r.ok /\ r.serok /\ valid,
             /\ d.ok /\ d.consumed = Len(r.ser) /\ r.ser[1] = m.cost
             /\ Slice(r.ser, 9, d.styleEnd - 9) = EncString(m.style) /\ d.m.pairs = SortPairs(m.pairs), cls),
           \* the specification says the expiration of a router address "must be all zeros"; the constructor ignores its argument
           R("C02", "constructed_router_address_expiration_zero", r.ok /\ r.serok /\ valid, Slice(r.ser, 1, 8) = Zeros(8), cls),
           R("C14", "constructor_rejects_documented_defect", Len(m.style) = 0 \/ Len(m.style) > 255, ~r.ok, cls) >> \o Lifecycle(r, cls)
    [] e.fn = "NewLease" ->
        LET ms == TimeToDate(m.sec, m.ns)  valid == ~m.neg /\ FitsInt64(ms) IN
        << R("C02", "constructed_lease_bytes", r.ok /\ valid, r.ser = m.gw \o m.tid \o PadTo(ms, 8), cls),
           R("C15", "lease_end_date_exact", r.ok /\ valid, LeaseEnd(r.ser) = PadTo(ms, 8), cls),
           \* an instant whose millisecond count does not fit is refused, never stored as some wrapped date
           R("C15", "lease_never_stores_wrapped_date", r.ok /\ ~m.neg, FitsInt64(ms) /\ LeaseEnd(r.ser) = PadTo(ms, 8), cls) >> \o LifecycleT(r, cls, FarFuture(m.sec) /\ ~m.neg)
    [] e.fn = "NewLease2" ->
        LET inRange == ~m.neg /\ FitsIn(m.sec, 4) IN
        << R("C02", "constructed_lease2_bytes", r.ok /\ inRange, r.ser = m.gw \o m.tid \o PadTo(m.sec, 4), cls),
           R("C15", "lease2_rejects_out_of_range", ~inRange /\ (m.neg => ~AllZero(m.sec)), ~r.ok, cls),
           R("C15", "lease2_accepts_in_range", inRange, r.ok, cls) >> \o LifecycleT(r, cls, FarFuture(m.sec) /\ ~m.neg)
    [] e.fn = "NewOfflineSignature" ->
        LET known == SigKnown(m.tst) /\ SigKnown(m.dst)
            sized == known /\ Len(m.tkey) = SigPubLen(m.tst) /\ Len(m.sig) = SigLen(m.dst) IN
        << R("C02", "constructed_offline_signature_bytes", r.ok /\ sized, r.ser = m.expires \o BE16(m.tst) \o m.tkey \o m.sig, cls),
           R("C14", "constructor_rejects_documented_defect", ~sized, ~r.ok, cls) >> \o Lifecycle(r, "expires=" \o (IF AllZero(m.expires) THEN "0" ELSE "nz"))
    [] e.fn = "NewLeaseSet2" ->
        LET d == RefLeaseSet2(r.ser)
            destOK == IdentityModelValid(m.dest) /\ ~DestProhibited(m.dest.st, m.dest.ct)
            hasOff == "off" \in DOMAIN m
            flagOff == m.flags % 2 = 1
            keyLenOK == \A i \in 1..Len(m.keys) : m.keys[i].len = Len(m.keys[i].data)
                             /\ (CryptoKnown(m.keys[i].type) => m.keys[i].len = CryptoPubLen(m.keys[i].type))
            defect == \/ Len(m.keys) = 0 \/ Len(m.keys) > 16 \/ Len(m.leases) > 16 \/ hasOff # flagOff \/ ~keyLenOK \/ m.flags \div 8 # 0
            cls2 == IF ~keyLenOK THEN "keylen" ELSE IF m.flags \div 8 # 0 THEN "reservedflags" ELSE IF hasOff # flagOff THEN "offlineflag"
                    ELSE IF Len(m.keys) = 0 \/ Len(m.keys) > 16 THEN "keycount" ELSE IF Len(m.leases) > 16 THEN "leasecount" ELSE "valid"
            KeyEndOf(i) == IF i < d.nk THEN d.keyStarts[i + 1] ELSE d.leaseOff - 1
        IN
        << R("C02", "constructed_leaseset2_decodes_to_model", r.ok /\ r.serok /\ destOK /\ ~defect /\ "rawopts" \notin DOMAIN m,
             /\ d.ok /\ d.consumed = Len(r.ser)
             /\ KACPub(r.ser, 0, d.h.d) = m.dest.pub /\ KACSpk(r.ser, 0, d.h.d) = m.dest.spk /\ d.h.d.st = m.dest.st /\ d.h.d.ct = m.dest.ct
             /\ Slice(r.ser, d.h.d.consumed, 4) = m.published /\ U16(r.ser, d.h.d.consumed + 4) = m.expires /\ d.h.flags = m.flags
             /\ d.h.off = hasOff
             /\ (hasOff => Slice(r.ser, d.h.offOff, d.optOff - d.h.offOff) = m.off.expires \o BE16(m.off.tst) \o m.off.tkey \o m.off.sig)
             /\ d.optPairs = SortPairs(m.pairs)
             /\ d.nk = Len(m.keys) /\ \A i \in 1..d.nk : LET ks == d.keyStarts[i] IN
                   U16(r.ser, ks) = m.keys[i].type /\ U16(r.ser, ks + 2) = m.keys[i].len /\ Slice(r.ser, ks + 4, KeyEndOf(i) - ks - 4) = m.keys[i].data
             /\ d.nl = Len(m.leases) /\ \A i \in 1..d.nl : Slice(r.ser, d.leaseOff + (i - 1) * Lease2Len, Lease2Len) = m.leases[i], cls \o "/" \o cls2),
           R("C14", "constructor_rejects_documented_defect", destOK /\ defect /\ ~("desterr" \in DOMAIN r), ~r.ok, cls \o "/" \o cls2),
           \* the leaseset's own key-size validation agrees with the table for EVERY key of the set, wherever it stands
           R("C10", "leaseset_key_validation_agrees_with_table", destOK /\ ~keyLenOK /\ ~("desterr" \in DOMAIN r), ~r.ok, cls \o "/" \o cls2),
           \* (a key of the table's length is not the reason for a rejection: judged only on sets that differ from an accepted one in the keys alone)
           R("C10", "leaseset_keys_of_table_length_accepted", destOK /\ ~defect /\ ~("desterr" \in DOMAIN r) /\ "rawopts" \notin DOMAIN m
                    /\ Len(m.leases) >= 1 /\ ~hasOff /\ m.flags = 0, r.ok, cls \o "/" \o cls2) >>
        \o Lifecycle(r, cls \o "/" \o cls2)
    [] OTHER -> << R("X", "unknown_build_fn", TRUE, FALSE, e.fn) >>

JBuildMapping(e) ==
  LET r == e.r  enc == MapEncodable(e.pairs)
      cls == e.fn \o "/" \o (IF "cls" \in DOMAIN e THEN e.cls ELSE "-") IN
  << R("C11", "encodable_map_accepted", enc /\ DistinctKeys(e.pairs), r.ok, cls),
     R("C11", "over_limit_rejected_not_truncated", ~enc, ~r.ok, cls),
     R("C11", "encoding_is_canonical", enc /\ r.ok /\ DistinctKeys(e.pairs), r.ser = CanonicalSer(e.pairs), cls),
     R("C11", "encoding_is_deterministic", r.ok, r.same, cls),
     \* the bytes handed out belong to the caller: serialising other mappings afterwards does not change them
     R("C11", "serialisation_kept_by_caller_unchanged_by_later_serialisations", r.ok /\ "kept_same" \in DOMAIN r, r.kept_same, cls),
     R("C11", "size_field_counts_following_bytes", r.ok /\ Len(r.ser) >= 2, U16(r.ser, 0) = Len(r.ser) - 2, cls),
     R("C11", "bytes_parse_back_to_same_map", enc /\ r.ok /\ DistinctKeys(e.pairs),
       r.rt.nerr = 0 /\ r.rt.remlen = 0 /\ r.rt.mapeq /\ r.rt.ser2 = r.ser, cls),
     \* ... and still do after the caller has edited the Go map it was handed
     R("C11", "decoded_map_unaffected_by_caller_edits", enc /\ r.ok /\ DistinctKeys(e.pairs) /\ r.rt.mapeq, r.rt.mapeq_after_caller_edit, cls) >>
=============================================================================
