------------------------------ MODULE MC_Conc ------------------------------
(***************************************************************************)
(* Concurrent readers of one shared value (C18).  The shared value has a   *)
(* slice field `kind` (length 1) with capacity Cap; the serialiser Bytes() *)
(* is modelled as the code does it: read the slice header, then append the *)
(* length bytes - into the backing array if there is spare capacity (a     *)
(* write to shared memory), otherwise into a fresh private array.  Hash()  *)
(* and accessors only read.  Goroutines interleave at every step.          *)
(*  - ReadersDoNotWrite: no step of a read-only operation changes shared   *)
(*    memory (action property).                                            *)
(*  - SameAsSequential: every returned result equals the sequential one.   *)
(* With Cap = 1 (what NewCertificate/ReadCertificate produce, bound by the *)
(* verif hook) both hold for every interleaving; with Cap = 4 TLC exhibits *)
(* the racing interleaving (negative control).                             *)
(***************************************************************************)
EXTENDS Integers, Sequences, FiniteSets, TLC
CONSTANTS N, Cap, Ops
Procs == 1..N
VARIABLES backing,   \* backing array of `kind` : sequence of Cap cells (cell 1 is the type byte)
          pc, op, hdr, local, result
vars == << backing, pc, op, hdr, local, result >>
TypeByte == 5
LenBytes(g) == << 0, 4 >>          \* what Bytes() appends
SeqResult(o) == CASE o = "Bytes" -> << TypeByte, 0, 4 >> [] o = "Type" -> << TypeByte >> [] OTHER -> << TypeByte + 100 >>
Init == /\ backing = << TypeByte >> \o [i \in 1..(Cap - 1) |-> 0]
        /\ pc = [g \in Procs |-> "idle"] /\ op = [g \in Procs |-> "none"] /\ hdr = [g \in Procs |-> 0]
        /\ local = [g \in Procs |-> << >>] /\ result = [g \in Procs |-> << >>]
Start(g, o) == /\ pc[g] = "idle" /\ op' = [op EXCEPT ![g] = o] /\ pc' = [pc EXCEPT ![g] = "read"] /\ UNCHANGED << backing, hdr, local, result >>
\* step 1 of every op: read the slice header / the byte
ReadStep(g) ==
  /\ pc[g] = "read"
  /\ hdr' = [hdr EXCEPT ![g] = 1]      \* len(kind) = 1
  /\ local' = [local EXCEPT ![g] = << backing[1] >>]
  /\ pc' = [pc EXCEPT ![g] = IF op[g] = "Bytes" THEN "append1" ELSE "ret"]
  /\ UNCHANGED << backing, op, result >>
\* append of the two length bytes, one cell at a time
AppendStep(g, k) ==
  /\ pc[g] = (IF k = 1 THEN "append1" ELSE "append2")
  /\ IF Cap >= hdr[g] + k
       THEN backing' = [backing EXCEPT ![hdr[g] + k] = LenBytes(g)[k] + g * 0]    \* spare capacity: written in place (shared!)
       ELSE backing' = backing                                                     \* reallocated: private copy
  /\ local' = [local EXCEPT ![g] = Append(@, LenBytes(g)[k])]
  /\ pc' = [pc EXCEPT ![g] = IF k = 1 THEN "append2" ELSE "ret"]
  /\ UNCHANGED << op, hdr, result >>
Return(g) ==
  /\ pc[g] = "ret"
  /\ result' = [result EXCEPT ![g] = IF op[g] = "Hash" THEN << local[g][1] + 100 >> ELSE local[g]]
  /\ pc' = [pc EXCEPT ![g] = "done"] /\ UNCHANGED << backing, op, hdr, local >>
Next == \E g \in Procs : (\E o \in Ops : Start(g, o)) \/ ReadStep(g) \/ AppendStep(g, 1) \/ AppendStep(g, 2) \/ Return(g)
Spec == Init /\ [][Next]_vars
ReadersDoNotWrite == [][backing' = backing]_vars
SameAsSequential == \A g \in Procs : pc[g] = "done" => result[g] = SeqResult(op[g])
=============================================================================
