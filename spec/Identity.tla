------------------------------ MODULE Identity ------------------------------
(***************************************************************************)
(* KeysAndCert = Destination = RouterIdentity:                             *)
(*   key block (PubField + SpkField bytes) | certificate                   *)
(* The encryption key is aligned at the start of the block, the signing    *)
(* key at its end, the padding is exactly what lies between.  With a NULL  *)
(* certificate the types are ElGamal / DSA-SHA1 (codes 0 / 0).             *)
(***************************************************************************)
EXTENDS Cert

\* Reference reader at offset off: record with ok, short, consumed, and the fields as (offset, length) free values
RefKACAt(in, off) ==
  LET n == Len(in) - off IN
  IF n < BlockLen + 3
  THEN [ok |-> FALSE, short |-> TRUE, wf |-> FALSE, consumed |-> BlockLen + 3, st |-> 0, ct |-> 0, cert |-> RefCertAt(in, Len(in))]
  ELSE LET c == RefCertAt(in, off + BlockLen)
           isNull == c.type = CertNull
           isKey == c.type = CertKey /\ c.len >= 4
           st == IF c.ok /\ isKey THEN KeyCertSigType(c) ELSE 0
           ct == IF c.ok /\ isKey THEN KeyCertCryptoType(c) ELSE 0
           wf == c.ok /\ (isNull \/ isKey) /\ SigKnown(st) /\ CryptoKnown(ct) /\ c.len >= (IF isKey THEN 4 + ExcessFor(st, ct) ELSE 0)
       IN [ok |-> wf /\ LibSupportsPair(st, ct),    \* well-formed and within what the library implements
           wf |-> wf, short |-> c.short, consumed |-> BlockLen + c.consumed, st |-> st, ct |-> ct, cert |-> c]
RefReadKAC(in) == RefKACAt(in, 0)

\* field extraction for an accepted identity starting at off
KACPub(in, off, r) == Slice(in, off, CryptoPubLen(r.ct))
KACSpk(in, off, r) == Slice(in, off + BlockLen - SigPubLen(r.st), SigPubLen(r.st))
KACPadding(in, off, r) == Slice(in, off + CryptoPubLen(r.ct), BlockLen - CryptoPubLen(r.ct) - SigPubLen(r.st))
KACBytes(in, off, r) == Slice(in, off, r.consumed)

\* serialisation of a model identity
SerKAC(pub, padding, spk, certBytes) == pub \o padding \o spk \o certBytes

\* role policy on top of the generic structure
RefReadDestination(in) == LET r == RefReadKAC(in) IN [r EXCEPT !.ok = r.ok /\ ~DestProhibited(r.st, r.ct)]
RefReadRouterIdentity(in) == LET r == RefReadKAC(in) IN [r EXCEPT !.ok = r.ok /\ ~RouterProhibited(r.st, r.ct)]
=============================================================================
