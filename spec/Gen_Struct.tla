----------------------------- MODULE Gen_Struct -----------------------------
(***************************************************************************)
(* Behaviours replayed into the certificate / key certificate / identity / *)
(* mapping parsers: encodings computed from the reference layout for the   *)
(* whole shape space (type pairs x certificate kinds x declared-length     *)
(* deltas x tails), each parsed through every alternative entry point,     *)
(* with appended data and at every cut point.                              *)
(***************************************************************************)
EXTENDS Ref, GenUtil, TLC, Json

CONSTANTS Tier, Seed, OutFile, Fam

Thorough == Tier = "thorough"

(*************************** certificates ***********************************)
CertTypes == << 0, 1, 2, 3, 4, 5, 6, 255 >>
PayLens == << 0, 1, 3, 4, 5, 8, 40, 72, 100 >>
Deltas == << -1, 0, 1 >>      \* declared length = actual + delta  (+1: truncated, -1: excess payload)
CertTails == << << >>, << 0 >>, Fill(9, 3) >>
CertFns == << "ReadCertificate", "NewKeyCertificate", "KeyCertificateFromCertificate" >>
CertEnc(t, n, d) == << t >> \o BE16(Max(n + d, 0)) \o Fill(n, t + n)
CertVecs ==
  Cross4(CertTypes, PayLens, Deltas, CertTails, LAMBDA t, n, d, tail :
    [ops |-> << [op |-> "Twins", fns |-> CertFns, in |-> CertEnc(t, n, d) \o tail, cls |-> "cert"] >>])
  \o Cross2(CertTypes, << 0, 4, 7 >>, LAMBDA t, n :
    [ops |-> << [op |-> "Sweep", fn |-> "ReadCertificate", in |-> CertEnc(t, n, 0) \o << 1, 2 >>, cls |-> "cert"],
                [op |-> "Sweep", fn |-> "NewKeyCertificate", in |-> CertEnc(t, n, 0) \o << 1, 2 >>, cls |-> "cert"] >>])
  \* key certificates for every known type pair (and unknown representatives), with and without extra payload
  \o Cross3(<< 0, 1, 2, 3, 4, 5, 6, 7, 8, 9, 11, 12, 65535 >>, << 0, 1, 2, 3, 4, 5, 6, 7, 8, 255, 65535 >>, << 0, 1, 7 >>,
      LAMBDA st, ct, extra :
        LET pl == KeyCertPayload(st, ct) \o Fill(ExcessFor(st, ct) + extra, st + ct) IN
        [ops |-> << [op |-> "Twins", fns |-> CertFns, in |-> SerCert(CertKey, pl) \o << 9 >>, cls |-> "keycert"] >>])

(*************************** identities *************************************)
IdentityFns == << "ReadKeysAndCert", "ReadKeysAndCertElgAndEd25519", "ReadKeysAndCertX25519AndEd25519",
                  "ReadDestination", "NewDestinationFromBytes", "NewDestination(ReadKeysAndCert)", "ReadDestinationFromLeaseSet",
                  "ReadRouterIdentity", "NewRouterIdentityFromBytes", "NewRouterIdentityFromKeysAndCert(ReadKeysAndCert)" >>
KeyCertBytes(st, ct, extra) == SerCert(CertKey, KeyCertPayload(st, ct) \o Fill(Max(ExcessFor(st, ct), 0) + extra, st + 3 * ct))
CertOfKind(kind, st, ct) ==
  CASE kind = "null" -> << 0, 0, 0 >>
    [] kind = "nullpay" -> << 0, 0, 2, 9, 9 >>
    [] kind = "key" -> KeyCertBytes(st, ct, 0)
    [] kind = "keyx1" -> KeyCertBytes(st, ct, 1)
    [] kind = "keyx9" -> KeyCertBytes(st, ct, 9)
    \* declared payload lengths at the top of the two-byte range (65533, 65534, 65535 for types without excess key material)
    [] kind = "keyhuge3" -> KeyCertBytes(st, ct, 65529 - Max(ExcessFor(st, ct), 0))
    [] kind = "keyhuge4" -> KeyCertBytes(st, ct, 65530 - Max(ExcessFor(st, ct), 0))
    [] kind = "keyhuge5" -> KeyCertBytes(st, ct, 65531 - Max(ExcessFor(st, ct), 0))
    [] kind = "keyshort" -> << 5, 0, 3, 0, 7, 0 >>
    [] kind = "keytrunc" -> << 5, 0, 4, 0, 7 >>
    [] kind = "t1" -> << 1, 0, 5, 1, 2, 3, 4, 5 >>
    [] kind = "t2" -> << 2, 0, 0 >>
    [] kind = "t3" -> << 3, 0, 40 >> \o Fill(40, 5)
    [] kind = "t4" -> << 4, 0, 1, 7 >>
    [] kind = "t6" -> << 6, 0, 0 >>
    [] OTHER -> << 255, 0, 0 >>
IdentityEnc(kind, st, ct, salt) == Fill(BlockLen, salt) \o CertOfKind(kind, st, ct)

KnownSig == << 0, 1, 2, 3, 4, 5, 6, 7, 8, 11 >>
KnownCrypto == << 0, 1, 2, 3, 4, 5, 6, 7 >>
UnknownSig == << 9, 10, 12, 255, 256, 65279, 65280, 65535 >>
UnknownCrypto == << 8, 9, 255, 256, 65280, 65535 >>
RndCode(k) == RndNat(Seed, k, 65536)

Pairs ==
  Cross2(KnownSig, KnownCrypto, LAMBDA st, ct : << st, ct >>)
  \o Cross2(UnknownSig, << 0, 4 >>, LAMBDA st, ct : << st, ct >>)
  \o Cross2(<< 0, 7 >>, UnknownCrypto, LAMBDA st, ct : << st, ct >>)
  \o [k \in 1..(IF Thorough THEN 300 ELSE 16) |-> << RndCode(2 * k), RndCode(2 * k + 1) >>]
  \o [k \in 1..(IF Thorough THEN 100 ELSE 8) |-> << KnownSig[(k % 10) + 1], RndCode(5000 + k) >>]
  \o [k \in 1..(IF Thorough THEN 100 ELSE 8) |-> << RndCode(7000 + k), KnownCrypto[(k % 8) + 1] >>]
LibPairs == Cross2(<< 0, 1, 2, 7, 8, 11 >>, << 0, 4, 5, 6, 7 >>, LAMBDA st, ct : << st, ct >>)
OtherKinds == << "null", "nullpay", "keyshort", "keytrunc", "t1", "t2", "t3", "t4", "t6", "t255" >>
Tail40 == Fill(40, 11)

IdentitySession(kind, st, ct, salt, sweepFns, sweepFrom) ==
  LET w == IdentityEnc(kind, st, ct, salt)
      L == RefReadKAC(w).consumed
      cls == kind \o "/" \o ToString(st) \o "/" \o ToString(ct)
  IN [ops |-> << [op |-> "Twins", fns |-> IdentityFns, in |-> w, L |-> Min(L, Len(w)), cls |-> cls],
                 [op |-> "Twins", fns |-> IdentityFns, in |-> w \o Tail40, L |-> Min(L, Len(w) + 40), cls |-> cls \o "+tail"] >>
              \o [i \in 1..Len(sweepFns) |-> [op |-> "Sweep", fn |-> sweepFns[i], in |-> w \o << 0, 255 >>, from |-> sweepFrom, cls |-> cls]]]

\* the same twin session on given bytes
IdentityBytesSession(w, cls) ==
  LET L == RefReadKAC(w).consumed IN
  [ops |-> << [op |-> "Twins", fns |-> IdentityFns, in |-> w, L |-> Min(L, Len(w)), cls |-> cls],
              [op |-> "Twins", fns |-> IdentityFns, in |-> w \o Tail40, L |-> Min(L, Len(w) + 40), cls |-> cls \o "+tail"] >>]
\* extreme values of the encryption-key field (0, 1, all ones, a leading zero byte) and of the signing-key field: a reader that
\* validates the key as a number must not disagree with one that copies it
ExtremeKeyVecs ==
  Cross2(<< << 7, 0 >>, << 0, 0 >>, << 7, 4 >>, << 11, 4 >> >>,
         << << "y0", Zeros(256) >>, << "y1", Zeros(255) \o << 1 >> >>, << "yff", Rep(256, 255) >>, << "ylead0", << 0 >> \o Fill(255, 7) >>, << "ymid", Fill(256, 3) >> >>,
         LAMBDA p, y : IdentityBytesSession(y[2] \o Zeros(BlockLen - 256 - Max(SigPubLen(p[1]), 0)) \o Fill(Max(SigPubLen(p[1]), 0), 9) \o KeyCertBytes(p[1], p[2], 0),
                                            "extremekey-" \o y[1] \o "/" \o ToString(p[1]) \o "/" \o ToString(p[2])))
  \o SeqMap(LAMBDA y : IdentityBytesSession(Fill(256, 5) \o y[2] \o << 0, 0, 0 >>, "extremekey-null-" \o y[1]),
            << << "s0", Zeros(128) >>, << "sff", Rep(128, 255) >>, << "s1", Zeros(127) \o << 1 >> >> >>)
SweepFnsQuick == << "ReadKeysAndCert" >>
SweepFnsAll == << "ReadKeysAndCert", "ReadKeysAndCertElgAndEd25519", "ReadKeysAndCertX25519AndEd25519", "ReadDestination", "ReadRouterIdentity" >>
IdentVecs ==
  [k \in 1..Len(Pairs) |-> IdentitySession("key", Pairs[k][1], Pairs[k][2], k, IF Thorough THEN SweepFnsAll ELSE << >>, 0)]
  \o Cross2(LibPairs, << "keyx1", "keyx9" >>, LAMBDA p, kind :
       IdentitySession(kind, p[1], p[2], p[1] + p[2], IF Thorough THEN SweepFnsAll ELSE SweepFnsQuick, IF Thorough THEN 0 ELSE BlockLen - 2))
  \o SeqMap(LAMBDA kind : IdentitySession(kind, 0, 0, 77, SweepFnsAll, IF Thorough THEN 0 ELSE BlockLen - 2), OtherKinds)
  \o SeqMap(LAMBDA kind : LET w == IdentityEnc(kind, 7, 4, 31) IN
              [ops |-> << [op |-> "Twins", fns |-> << "ReadKeysAndCert", "ReadDestination", "ReadDestinationFromLeaseSet", "ReadRouterIdentity" >>, in |-> w \o << 1, 2, 3 >>,
                           L |-> Len(w), cls |-> kind \o "/7/4+tail"] >>], << "keyhuge3", "keyhuge5" >>)
  \o Cross2(LibPairs, << "key" >>, LAMBDA p, kind :
       IdentitySession(kind, p[1], p[2], 200 + p[1] + p[2], SweepFnsAll, IF Thorough THEN 0 ELSE BlockLen - 2))
  \o ExtremeKeyVecs

(*************************** mappings ***************************************)
S(str) == str   \* byte strings are written as tuples below
KeyA == << 97 >>   KeyB == << 98 >>   KeyAB == << 97, 98 >>   KeyCaps == << 99, 97, 112, 115 >>
ValX == << 120 >>  Val255 == Fill(255, 4)  Key255 == Fill(255, 9)
PairSets ==
  << << >>,
     << << KeyA, << >> >> >>,                                   \* a=""   (5-byte pair)
     << << << >>, << >> >> >>,                                  \* ""=""  (4-byte pair)
     << << << >>, ValX >> >>,
     << << KeyA, ValX >> >>,                                    \* 6-byte pair
     << << KeyAB, ValX >> >>,
     << << KeyA, ValX >>, << KeyB, << >> >> >>,                 \* short final pair after a normal one
     << << KeyB, ValX >>, << KeyA, ValX >> >>,                  \* unsorted
     << << KeyA, ValX >>, << KeyA, << 121 >> >> >>,             \* duplicate key
     << << KeyCaps, << 102, 82 >> >>, << << 118 >>, << 48, 46, 57 >> >> >>,
     << << Key255, Val255 >> >>,
     << << KeyA, << 61, 59 >> >>, << << 59, 61 >>, << 0, 255 >> >> >>,   \* delimiters and extreme bytes inside strings
     << << KeyA, ValX >>, << KeyB, ValX >>, << << 99 >>, ValX >> >>,
     CollisionPairs, PrefixPairs >>
MappingTails == << << >>, << 0 >>, Fill(7, 2) >>
Junk == << << >>, << 1 >>, << 1, 97 >>, << 1, 97, 61 >>, << 1, 97, 61, 0 >>, << 1, 97, 61, 1, 120 >>, << 0, 61, 0, 60 >>, << 1, 97, 61, 1, 120, 58 >>,
           << 5, 97 >> >>
MappingFns == << "ReadMapping", "NewMapping" >>
\* well-formed pairs followed by junk inside the declared size
MappingEnc(pairs, junk, sizeDelta) ==
  LET body == SerBody(pairs) \o junk IN BE16(Max(Len(body) + sizeDelta, 0)) \o body
MappingVecs ==
  Cross3(PairSets, Junk, MappingTails, LAMBDA ps, junk, tail :
    [ops |-> << [op |-> "Twins", fns |-> MappingFns, in |-> MappingEnc(ps, junk, 0) \o tail, cls |-> "mapping"] >>])
  \o Cross2(PairSets, << -1, 1 >>, LAMBDA ps, d :
    [ops |-> << [op |-> "Twins", fns |-> MappingFns, in |-> MappingEnc(ps, << >>, d), cls |-> "mapping-size" \o ToString(d)] >>])
  \o SeqMap(LAMBDA ps : [ops |-> << [op |-> "Sweep", fn |-> "ReadMapping", in |-> MappingEnc(ps, << >>, 0) \o << 3, 4 >>, cls |-> "mapping"] >>], PairSets)
  \* the parser's pair-count limit (MAX_MAPPING_PAIRS): 1000 pairs parse, the 1001st is an error
  \o (IF Thorough THEN SeqMap(LAMBDA n : [ops |-> << [op |-> "Twins", fns |-> MappingFns,
                                   in |-> MappingEnc([i \in 1..n |-> << BE16(i), ValX >>], << >>, 0), cls |-> "mapping-count" \o ToString(n)] >>],
                               << 999, 1000, 1001 >>) ELSE << >>)

Vecs == CASE Fam = "cert" -> CertVecs [] Fam = "ident" -> IdentVecs [] Fam = "mapping" -> MappingVecs
          [] OTHER -> CertVecs \o IdentVecs \o MappingVecs

VARIABLE done
Init == done = FALSE
Next == ~done /\ ndJsonSerialize(OutFile, Vecs) /\ PrintT(<< "GENERATED", Len(Vecs) >>) /\ done' = TRUE
=============================================================================
