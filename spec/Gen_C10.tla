------------------------------ MODULE Gen_C10 ------------------------------
(* All 65,536 type codes through every size lookup, in chunks. *)
EXTENDS Tables, GenUtil, TLC, Json
CONSTANTS Tier, Seed, OutFile
Vecs == [k \in 1..16 |-> [op |-> "Tables", fn |-> "lookups", from |-> (k - 1) * 4096, to |-> k * 4096 - 1]]
VARIABLE done
Init == done = FALSE
Next == ~done /\ ndJsonSerialize(OutFile, Vecs) /\ PrintT(<< "GENERATED", Len(Vecs) >>) /\ done' = TRUE
=============================================================================
