------------------------------- MODULE Crypto -------------------------------
(***************************************************************************)
(* Symbolic (Dolev-Yao) model of signing for the signed common structures. *)
(* Keys are atoms; Sig(k, m) is unforgeable: the only way to obtain it is  *)
(* to own k.  A signed structure is a record                               *)
(*   [kind, idkey, content, offline (none or [tkey, auth]), sig]           *)
(* where auth is the identity key's signature over the transient key and   *)
(* sig the closing signature over prefix(kind) ++ content.                 *)
(***************************************************************************)
EXTENDS Integers, Sequences, FiniteSets, TLC

Kinds == {"RouterInfo", "LeaseSet", "LeaseSet2", "MetaLeaseSet", "EncryptedLeaseSet"}
Prefix(kind) == CASE kind = "LeaseSet2" -> 3 [] kind = "MetaLeaseSet" -> 7 [] kind = "EncryptedLeaseSet" -> 5 [] OTHER -> 0   \* 0 = no prefix
HasOfflineOption(kind) == kind \in {"LeaseSet2", "MetaLeaseSet", "EncryptedLeaseSet"}
Sig(k, m) == << "sig", k, m >>
Msg(kind, idkey, content, offline) == << Prefix(kind), idkey, content, offline >>
AuthMsg(tkey) == << "offline", tkey >>
None == [present |-> FALSE, tkey |-> "-", auth |-> << "none" >>]

\* the contract: who must have signed what
Authentic(s) ==
  IF ~s.offline.present
  THEN s.sig = Sig(s.idkey, Msg(s.kind, s.idkey, s.content, s.offline))
  ELSE /\ s.sig = Sig(s.offline.tkey, Msg(s.kind, s.idkey, s.content, s.offline))
       /\ s.offline.auth = Sig(s.idkey, AuthMsg(s.offline.tkey))
\* the implementation-shaped verifier: picks the transient key when an offline block is present;
\* ChecksAuth says whether it also verifies the offline block against the identity key
ImplVerify(s, ChecksAuth) ==
  IF ~s.offline.present
  THEN s.sig = Sig(s.idkey, Msg(s.kind, s.idkey, s.content, s.offline))
  ELSE /\ s.sig = Sig(s.offline.tkey, Msg(s.kind, s.idkey, s.content, s.offline))
       /\ (ChecksAuth => s.offline.auth = Sig(s.idkey, AuthMsg(s.offline.tkey)))
=============================================================================
