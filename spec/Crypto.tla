------------------------------- MODULE Crypto -------------------------------
(***************************************************************************)
(* Symbolic (Dolev-Yao) model of signing for the signed common structures. *)
(* Keys are atoms; Sig(k, m) is unforgeable: the only way to obtain it is  *)
(* to own k.  A signed structure is a record                               *)
(*   [kind, idkey, revkey, content, offline (none or [tkey, expires,      *)
(*    auth]), sig]                                                         *)
(* where auth is the identity key's signature over the transient key and   *)
(* its expiry, sig the closing signature over prefix(kind) ++ content, and *)
(* revkey the structure's own signing_key field (the revocation key of a   *)
(* legacy LeaseSet: part of the content, never a key to verify with).      *)
(***************************************************************************)
EXTENDS Integers, Sequences, FiniteSets, TLC

Kinds == {"RouterInfo", "LeaseSet", "LeaseSet2", "MetaLeaseSet", "EncryptedLeaseSet"}
Prefix(kind) == CASE kind = "LeaseSet2" -> 3 [] kind = "MetaLeaseSet" -> 7 [] kind = "EncryptedLeaseSet" -> 5 [] OTHER -> 0   \* 0 = no prefix
HasOfflineOption(kind) == kind \in {"LeaseSet2", "MetaLeaseSet", "EncryptedLeaseSet"}
Sig(k, m) == << "sig", k, m >>
Msg(kind, idkey, revkey, content, offline) == << Prefix(kind), idkey, revkey, content, offline >>
AuthMsg(tkey, expires) == << "offline", tkey, expires >>      \* the identity authorises THIS transient key until THIS time
None == [present |-> FALSE, tkey |-> "-", expires |-> "-", auth |-> << "none" >>]
Expiries == {"e0", "e1"}

\* the contract: who must have signed what
Authentic(s) ==
  IF ~s.offline.present
  THEN s.sig = Sig(s.idkey, Msg(s.kind, s.idkey, s.revkey, s.content, s.offline))
  ELSE /\ s.sig = Sig(s.offline.tkey, Msg(s.kind, s.idkey, s.revkey, s.content, s.offline))
       /\ s.offline.auth = Sig(s.idkey, AuthMsg(s.offline.tkey, s.offline.expires))
\* the implementation-shaped verifier: picks the transient key when an offline block is present;
\* ChecksAuth says whether it also verifies the offline block against the identity key.  Flaw names a deviation:
\*   "cache-no-expiry"  the authorisation is looked up by (identity key, transient key, signature bytes) without the expiry it covers
\*   "accepts-revkey"   a legacy LeaseSet is also accepted when its signature verifies under its own signing_key field
ImplVerify(s, ChecksAuth, Flaw) ==
  IF ~s.offline.present
  THEN \/ s.sig = Sig(s.idkey, Msg(s.kind, s.idkey, s.revkey, s.content, s.offline))
       \/ (Flaw = "accepts-revkey" /\ s.kind = "LeaseSet" /\ s.sig = Sig(s.revkey, Msg(s.kind, s.idkey, s.revkey, s.content, s.offline)))
  ELSE /\ s.sig = Sig(s.offline.tkey, Msg(s.kind, s.idkey, s.revkey, s.content, s.offline))
       /\ (ChecksAuth => IF Flaw = "cache-no-expiry" THEN \E e \in Expiries : s.offline.auth = Sig(s.idkey, AuthMsg(s.offline.tkey, e))
                                                        ELSE s.offline.auth = Sig(s.idkey, AuthMsg(s.offline.tkey, s.offline.expires)))
=============================================================================
