------------------------------ MODULE Objects ------------------------------
(***************************************************************************)
(* The library's MUTABLE objects as state machines.  Everything else in    *)
(* the library is a value; these are the places where a history of calls   *)
(* matters:                                                                *)
(*   builder  certificate.CertificateBuilder  WithType / WithKeyTypes /    *)
(*            WithPayload in any order and number, Validate, Build         *)
(*   fixed    session_key.SessionKey, session_tag.SessionTag,              *)
(*            session_tag.ECIESSessionTag      SetBytes                    *)
(*   mvals    data.MappingValues               Add (returns the new list)  *)
(*   rinfo    router_info.RouterInfo           AddAddress                  *)
(* One abstract state per object, one action per exported mutator, and an  *)
(* observation function (what the public API shows of the state).          *)
(* ObjStep(s, c) = [s |-> next state, ok |-> the call reports success].    *)
(* Used three ways: MC_Objects explores every call sequence over small     *)
(* alphabets (invariants + negative control), Gen_Objects writes call      *)
(* sequences for replay, Trace.tla steps the machine along the recorded    *)
(* calls and compares result and observation after every step.             *)
(***************************************************************************)
EXTENDS Enc

(******************************* builder ***********************************)
\* src: which setter supplies the payload - the LAST of WithPayload / WithKeyTypes wins (builder.go documents both overrides)
BuilderInit == [kind |-> "builder", typ |-> CertNull, src |-> "none", p |-> << >>, st |-> 0, ct |-> 0]
BuilderPayload(s) == CASE s.src = "payload" -> s.p [] s.src = "keytypes" -> KeyCertPayload(s.st, s.ct) [] OTHER -> << >>
\* Build succeeds exactly when the direct constructor would, on (typ, payload); a KEY certificate needs a payload source
BuilderBuildOK(s) == ~(s.typ = CertKey /\ s.src = "none") /\ CertCtorValid(s.typ, BuilderPayload(s))
BuilderStep(s, c) ==
  CASE c.m = "WithType" ->
         IF c.t \in 0..5 THEN [s |-> [s EXCEPT !.typ = c.t], ok |-> TRUE] ELSE [s |-> s, ok |-> FALSE]
    [] c.m = "WithKeyTypes" ->
         \* (negative and, like the direct constructors BuildKeyTypePayload / NewKeyCertificateWithTypes, codes above 65535 are refused)
         IF c.st \in 0..65535 /\ c.ct \in 0..65535
         THEN [s |-> [s EXCEPT !.typ = CertKey, !.src = "keytypes", !.st = c.st, !.ct = c.ct], ok |-> TRUE]
         ELSE [s |-> s, ok |-> FALSE]
    [] c.m = "WithPayload" -> [s |-> [s EXCEPT !.src = "payload", !.p = c.p], ok |-> TRUE]
    [] c.m = "Validate" -> [s |-> s, ok |-> ~(s.typ = CertKey /\ s.src = "none")]
    [] c.m = "Build" -> [s |-> s, ok |-> BuilderBuildOK(s)]
    [] OTHER -> [s |-> s, ok |-> FALSE]
\* what Build() returns in state s (observation of the builder: it has no accessors)
BuilderObs(s) == [ok |-> BuilderBuildOK(s), ser |-> IF BuilderBuildOK(s) THEN SerCert(s.typ, BuilderPayload(s)) ELSE << >>]

(******************************* fixed-size values *************************)
FixedInit(n) == [kind |-> "fixed", n |-> n, b |-> Zeros(n)]
FixedStep(s, c) ==
  IF c.m = "SetBytes" /\ Len(c.b) = s.n THEN [s |-> [s EXCEPT !.b = c.b], ok |-> TRUE] ELSE [s |-> s, ok |-> FALSE]
FixedObs(s) == [ser |-> s.b]

(******************************* mapping values ****************************)
MValsInit == [kind |-> "mvals", pairs |-> << >>]
\* Add refuses an empty key and strings above 255 bytes; otherwise appends (duplicates are not its business)
MValsStep(s, c) ==
  IF c.m = "Add" /\ Len(c.k) \in 1..StringMax /\ Len(c.v) <= StringMax
  THEN [s |-> [s EXCEPT !.pairs = Append(@, << c.k, c.v >>)], ok |-> TRUE] ELSE [s |-> s, ok |-> FALSE]
MValsObs(s) == [pairs |-> s.pairs]

(******************************* router info *******************************)
\* the parts of a parsed RouterInfo; addrs: encoded addresses in order
RInfoInit(id, st, pub8, addrs, peers, opts, sig) ==
  [kind |-> "rinfo", id |-> id, st |-> st, pub8 |-> pub8, addrs |-> addrs, peers |-> peers, opts |-> opts, sig |-> sig]
MaxAddrs == IF Scale = "small" THEN 3 ELSE 255
\* AddAddress appends while the one-byte count allows it
RInfoStep(s, c) ==
  IF c.m = "AddAddress" /\ Len(s.addrs) < MaxAddrs THEN [s |-> [s EXCEPT !.addrs = Append(@, c.a)], ok |-> TRUE] ELSE [s |-> s, ok |-> FALSE]
RInfoObs(s) == [count |-> Len(s.addrs),
                ser |-> s.id \o s.pub8 \o << Len(s.addrs) >> \o Flatten(s.addrs) \o << s.peers >> \o SerMapping(s.opts) \o s.sig]

(******************************* dispatch **********************************)
ObjStep(s, c) == CASE s.kind = "builder" -> BuilderStep(s, c) [] s.kind = "fixed" -> FixedStep(s, c)
                   [] s.kind = "mvals" -> MValsStep(s, c) [] s.kind = "rinfo" -> RInfoStep(s, c)
ObjObs(s) == CASE s.kind = "builder" -> BuilderObs(s) [] s.kind = "fixed" -> FixedObs(s)
               [] s.kind = "mvals" -> MValsObs(s) [] s.kind = "rinfo" -> RInfoObs(s)
=============================================================================
