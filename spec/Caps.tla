-------------------------------- MODULE Caps --------------------------------
(***************************************************************************)
(* RouterInfo capability / version / transport queries: the meaning of     *)
(* the "caps" and "router.version" options and of the address styles,      *)
(* as functions of the decoded option values (byte strings).  Growth of    *)
(* the specification beyond the listed properties (extension family X01);  *)
(* only "the accessor exposes exactly the encoded option value" belongs to *)
(* a listed property (C02).                                                *)
(*   caps letters (I2P common structures / netdb):                         *)
(*     f floodfill, R reachable, U unreachable, D/E/G congestion,          *)
(*     K L M N O P X shared-bandwidth class (first one present wins)       *)
(***************************************************************************)
EXTENDS Net

KCaps == << 99, 97, 112, 115 >>
KVersion == << 114, 111, 117, 116, 101, 114, 46, 118, 101, 114, 115, 105, 111, 110 >>

\* value stored under key k (first match in wire order; << >> when absent)
OptVal(pairs, k) ==
  LET idx == { i \in 1..Len(pairs) : pairs[i][1] = k } IN
  IF idx = {} THEN << >> ELSE pairs[CHOOSE i \in idx : \A j \in idx : i <= j][2]

HasByte(s, c) == \E i \in 1..Len(s) : s[i] = c

IsFloodfill(c) == HasByte(c, 102)
IsMediumCongested(c) == HasByte(c, 68)
IsHighCongested(c) == HasByte(c, 69)
IsRejectingTunnels(c) == HasByte(c, 71)
UnCongested(c) == ~IsMediumCongested(c) /\ ~IsHighCongested(c) /\ ~IsRejectingTunnels(c)
Reachable(c) == HasByte(c, 82) /\ ~HasByte(c, 85)
BWLetters == { 75, 76, 77, 78, 79, 80, 88 }
BandwidthCategory(c) ==
  LET idx == { i \in 1..Len(c) : c[i] \in BWLetters } IN
  IF idx = {} THEN << >> ELSE << c[CHOOSE i \in idx : \A j \in idx : i <= j] >>

LowerByte(b) == IF b \in 65..90 THEN b + 32 ELSE b
Lower(s) == [i \in 1..Len(s) |-> LowerByte(s[i])]
ContainsSub(s, sub) == \E i \in 0..(Len(s) - Len(sub)) : \A j \in 1..Len(sub) : s[i + j] = sub[j]
NTCP2 == << 110, 116, 99, 112, 50 >>
SSU2 == << 115, 115, 117, 50 >>
SupportsStyle(styles, sub) == \E i \in 1..Len(styles) : ContainsSub(Lower(styles[i]), sub)

\* "0.9.N" with 58 <= N <= 99 (router_info/constants.go MIN/MAX_GOOD_VERSION); judged only for plain versions:
\* exactly three dot separated groups of 1..4 ASCII digits
DigitsOnly(s) == Len(s) \in 1..4 /\ \A i \in 1..Len(s) : IsDigit(s[i])
DecValue(s) == LET F[i \in 0..Len(s)] == IF i = 0 THEN 0 ELSE F[i - 1] * 10 + (s[i] - 48) IN F[Len(s)]
VersionParts(v) == Split(v, 46)
PlainVersion(v) == LET p == VersionParts(v) IN Len(p) = 3 /\ \A i \in 1..3 : DigitsOnly(p[i])
GoodVersion(v) == LET p == VersionParts(v) IN
  PlainVersion(v) /\ DecValue(p[1]) = 0 /\ DecValue(p[2]) = 9 /\ DecValue(p[3]) \in 58..99
=============================================================================
