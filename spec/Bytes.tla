------------------------------- MODULE Bytes -------------------------------
(***************************************************************************)
(* Byte strings, big-endian numbers and exact (limb) arithmetic.          *)
(*                                                                         *)
(* TLC integers are 32 bit and overflow is an error, so every quantity    *)
(* that can exceed 2^31-1 is kept as a big-endian base-256 limb sequence  *)
(* (which is also the wire representation of an I2P Integer).             *)
(* Offsets are 0-based (as in the implementation); TLA+ sequences are     *)
(* 1-based, the conversion happens only inside this module.               *)
(***************************************************************************)
EXTENDS Integers, Sequences, FiniteSets

\* "real" = the I2P sizes; "small" = the scaled instance for exhaustive model checking (see Tables)
CONSTANT Scale

Byte == 0..255
IsBytes(s) == \A i \in 1..Len(s) : s[i] \in Byte

Min(a, b) == IF a <= b THEN a ELSE b
Max(a, b) == IF a >= b THEN a ELSE b

\* first n bytes (total: n may exceed the length)
Take(s, n) == SubSeq(s, 1, Min(Max(n, 0), Len(s)))
\* all but the first n bytes (total)
Drop(s, n) == SubSeq(s, Min(Max(n, 0), Len(s)) + 1, Len(s))
\* n bytes at 0-based offset off; callers guarantee off+n <= Len(s)
Slice(s, off, n) == SubSeq(s, off + 1, off + n)
\* last n bytes
Last(s, n) == SubSeq(s, Len(s) - n + 1, Len(s))

Rep(n, b) == [i \in 1..n |-> b]
Zeros(n) == Rep(n, 0)
\* deterministic, position dependent fill: distinct salts give distinct neighbours
Fill(n, salt) == [i \in 1..n |-> ((i * 7 + salt * 13) % 251) + 1]

IsPrefix(p, s) == Len(p) <= Len(s) /\ \A i \in 1..Len(p) : p[i] = s[i]
IsSuffix(p, s) == Len(p) <= Len(s) /\ \A i \in 1..Len(p) : p[i] = s[Len(s) - Len(p) + i]
AllZero(s) == \A i \in 1..Len(s) : s[i] = 0

\* small big-endian numbers (safe below 2^31)
U8(s, off)  == s[off + 1]
U16(s, off) == s[off + 1] * 256 + s[off + 2]
U24(s, off) == s[off + 1] * 65536 + s[off + 2] * 256 + s[off + 3]
BE16(v) == << v \div 256, v % 256 >>
BE8(v) == << v >>

(***************************************************************************)
(* Limb arithmetic on big-endian base-256 sequences.                       *)
(***************************************************************************)
\* strip leading zero limbs (canonical form; zero = <<>>)
RECURSIVE Norm(_)
Norm(a) == IF Len(a) > 0 /\ a[1] = 0 THEN Norm(Tail(a)) ELSE a

\* left-pad with zeros to n limbs (caller guarantees Len(Norm(a)) <= n)
PadTo(a, n) == LET na == Norm(a) IN Zeros(n - Len(na)) \o na

\* does the number fit into n limbs
FitsIn(a, n) == Len(Norm(a)) <= n

\* comparison: -1, 0, 1
CmpBE(a, b) ==
  LET na == Norm(a)  nb == Norm(b) IN
  IF Len(na) # Len(nb) THEN (IF Len(na) < Len(nb) THEN -1 ELSE 1)
  ELSE IF na = nb THEN 0
  ELSE LET i == CHOOSE k \in 1..Len(na) : na[k] # nb[k] /\ \A j \in 1..(k-1) : na[j] = nb[j]
       IN IF na[i] < nb[i] THEN -1 ELSE 1
LeBE(a, b) == CmpBE(a, b) <= 0
LtBE(a, b) == CmpBE(a, b) < 0
EqBE(a, b) == Norm(a) = Norm(b)

\* a + b
RECURSIVE AddLimbs(_, _, _, _)
AddLimbs(a, b, i, carry) ==   \* a, b same length n; i from n down to 1; returns n+1 limbs
  IF i = 0 THEN << carry >>
  ELSE LET t == a[i] + b[i] + carry IN AddLimbs(a, b, i - 1, t \div 256) \o << t % 256 >>
AddBE(a, b) ==
  LET n == Max(Len(a), Len(b))
      pa == Zeros(n - Len(a)) \o a
      pb == Zeros(n - Len(b)) \o b
  IN Norm(AddLimbs(pa, pb, n, 0))

\* a - b for a >= b
RECURSIVE SubLimbs(_, _, _, _)
SubLimbs(a, b, i, borrow) ==
  IF i = 0 THEN << >>
  ELSE LET t == a[i] - b[i] - borrow IN
       IF t < 0 THEN SubLimbs(a, b, i - 1, 1) \o << t + 256 >>
                ELSE SubLimbs(a, b, i - 1, 0) \o << t >>
SubBE(a, b) ==
  LET n == Max(Len(a), Len(b))
      pa == Zeros(n - Len(a)) \o a
      pb == Zeros(n - Len(b)) \o b
  IN Norm(SubLimbs(pa, pb, n, 0))

\* a * k for 0 <= k < 2^22
RECURSIVE MulLimbs(_, _, _, _)
MulLimbs(a, k, i, carry) ==
  IF i = 0 THEN (IF carry = 0 THEN << >> ELSE MulLimbs(<< >>, k, 0, carry \div 256) \o << carry % 256 >>)
  ELSE LET t == a[i] * k + carry IN MulLimbs(a, k, i - 1, t \div 256) \o << t % 256 >>
MulSmallBE(a, k) == Norm(MulLimbs(a, k, Len(a), 0))

\* a div k and a mod k for 0 < k < 2^22 : <<quotient limbs, remainder>>
RECURSIVE DivLimbs(_, _, _, _, _)
DivLimbs(a, k, i, rem, acc) ==
  IF i > Len(a) THEN << Norm(acc), rem >>
  ELSE LET t == rem * 256 + a[i] IN DivLimbs(a, k, i + 1, t % k, Append(acc, t \div k))
DivModSmallBE(a, k) == DivLimbs(a, k, 1, 0, << >>)

\* small natural -> limbs
RECURSIVE NatLimbs(_)
NatLimbs(v) == IF v = 0 THEN << >> ELSE NatLimbs(v \div 256) \o << v % 256 >>
\* limbs -> small natural (caller guarantees < 2^31)
RECURSIVE LimbsNat(_)
LimbsNat(a) == IF Len(a) = 0 THEN 0 ELSE LimbsNat(SubSeq(a, 1, Len(a) - 1)) * 256 + a[Len(a)]

\* 2^(8n) as limbs
Pow256(n) == << 1 >> \o Zeros(n)

(***************************************************************************)
(* Lexicographic order on byte strings and sorting.                        *)
(***************************************************************************)
LexLess(a, b) ==
  \E k \in 0..Min(Len(a), Len(b)) :
     /\ \A j \in 1..k : a[j] = b[j]
     /\ \/ (k = Len(a) /\ k < Len(b))
        \/ (k < Len(a) /\ k < Len(b) /\ a[k + 1] < b[k + 1])
LexLeq(a, b) == a = b \/ LexLess(a, b)

Flatten(ss) == LET F[i \in 0..Len(ss)] == IF i = 0 THEN << >> ELSE F[i - 1] \o ss[i] IN F[Len(ss)]
=============================================================================
