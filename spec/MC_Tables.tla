------------------------------ MODULE MC_Tables ------------------------------
(***************************************************************************)
(* The specification's own tables, checked for every 16-bit code (one      *)
(* state per code): well-formedness of the table, fit of every library-    *)
(* supported key pair into the key block (so that "padding = exactly the   *)
(* bytes between the keys" is meaningful), policy sets inside known sets.  *)
(***************************************************************************)
EXTENDS Tables, TLC
VARIABLE c
Init == c = 0
Next == c < 65535 /\ c' = c + 1

TableShape ==
  /\ SigKnown(c) <=> c \in KnownSigTypes
  /\ CryptoKnown(c) <=> c \in KnownCryptoTypes
  /\ SigKnown(c) => SigPubLen(c) > 0 /\ SigLen(c) > 0
  /\ ~SigKnown(c) => SigLen(c) = -1
  /\ CryptoKnown(c) => CryptoPubLen(c) > 0
BlockFits ==
  /\ c \in LibSigTypes => SigKnown(c) /\ SigPubLen(c) <= SpkField
  /\ c \in LibCryptoTypes => CryptoKnown(c) /\ CryptoPubLen(c) <= PubField
  /\ \A ct \in LibCryptoTypes : c \in LibSigTypes => CryptoPubLen(ct) + SigPubLen(c) <= BlockLen
PolicyShape ==
  /\ ProhibitedCryptoForIdentity \subseteq KnownCryptoTypes
  /\ ProhibitedSigForDestination \subseteq ProhibitedSigForRouter
  /\ ProhibitedSigForRouter \subseteq KnownSigTypes
  /\ (DestProhibited(c, 0) => RouterProhibited(c, 0))
  /\ \E st \in LibSigTypes, ct \in LibCryptoTypes : ~RouterProhibited(st, ct)
=============================================================================
