------------------------------ MODULE Mapping ------------------------------
(***************************************************************************)
(* I2P Mapping: 2-byte size, then size bytes of  String '=' String ';'     *)
(* pairs.  Position based reference parser, canonical serialisation        *)
(* (sorted by key, stable), and the limits.                                *)
(***************************************************************************)
EXTENDS Prims

EqualsByte == 61
SemiByte == 59
MappingMaxSize == 65535
\* the library's own documented third limit (data/constants.go MAX_MAPPING_PAIRS): its parser refuses the 1001st pair,
\* so "the limits" of C11 include it: a map with more pairs has to be rejected by the constructors, never emitted
MappingMaxPairs == 1000

\* one pair at 0-based position pos of body b; [ok, next, k, v] (k, v = content bytes)
PairAt(b, pos) ==
  LET n == Len(b) IN
  IF pos + 1 > n THEN [ok |-> FALSE, next |-> pos, k |-> << >>, v |-> << >>]
  ELSE LET kl == b[pos + 1]
           eq == pos + 1 + kl IN          \* offset of '='
       IF eq + 2 > n \/ b[eq + 1] # EqualsByte THEN [ok |-> FALSE, next |-> pos, k |-> << >>, v |-> << >>]
       ELSE LET vl == b[eq + 2]
                sc == eq + 2 + vl IN      \* offset of ';'
            IF sc + 1 > n \/ b[sc + 1] # SemiByte THEN [ok |-> FALSE, next |-> pos, k |-> << >>, v |-> << >>]
            ELSE [ok |-> TRUE, next |-> sc + 1, k |-> Slice(b, pos + 1, kl), v |-> Slice(b, eq + 2, vl)]

\* all pairs of a body: [ok, pairs, stop] ; ok iff the body is exactly a sequence of pairs
RECURSIVE PairsFrom(_, _, _)
PairsFrom(b, pos, acc) ==
  IF pos = Len(b) THEN [ok |-> TRUE, pairs |-> acc, stop |-> pos]
  ELSE LET p == PairAt(b, pos) IN
       IF p.ok THEN PairsFrom(b, p.next, Append(acc, << p.k, p.v >>))
       ELSE [ok |-> FALSE, pairs |-> acc, stop |-> pos]
ParseBody(b) == PairsFrom(b, 0, << >>)

DistinctKeys(pairs) == \A i, j \in 1..Len(pairs) : i # j => pairs[i][1] # pairs[j][1]

\* Reference reader: [ok, consumed, pairs, short, framed, tail]
\*  framed: the size field and that many bytes are present (the extent is known)
\*  ok: framed and the body is exactly a sequence of pairs with distinct keys
RefReadMapping(in) ==
  IF Len(in) < 2 THEN [ok |-> FALSE, consumed |-> 0, pairs |-> << >>, short |-> TRUE, framed |-> FALSE, stop |-> 0]
  ELSE LET size == U16(in, 0) IN
       IF Len(in) < 2 + size THEN [ok |-> FALSE, consumed |-> 2 + size, pairs |-> << >>, short |-> TRUE, framed |-> FALSE, stop |-> 0]
       ELSE LET pb == ParseBody(Slice(in, 2, size)) IN
            [ok |-> pb.ok /\ DistinctKeys(pb.pairs) /\ Len(pb.pairs) <= MappingMaxPairs, consumed |-> 2 + size, pairs |-> pb.pairs, short |-> FALSE,
             framed |-> TRUE, stop |-> pb.stop]

SerPair(p) == << Len(p[1]) >> \o p[1] \o << EqualsByte >> \o << Len(p[2]) >> \o p[2] \o << SemiByte >>
SerBody(pairs) == LET F[i \in 0..Len(pairs)] == IF i = 0 THEN << >> ELSE F[i - 1] \o SerPair(pairs[i]) IN F[Len(pairs)]
BodySize(pairs) == LET F[i \in 0..Len(pairs)] == IF i = 0 THEN 0 ELSE F[i - 1] + 4 + Len(pairs[i][1]) + Len(pairs[i][2]) IN F[Len(pairs)]
\* serialisation in the given order
SerMapping(pairs) == BE16(BodySize(pairs)) \o SerBody(pairs)

\* insertion sort by key (lexicographic on bytes), stable
RECURSIVE InsertPair(_, _)
InsertPair(sorted, p) ==
  IF Len(sorted) = 0 THEN << p >>
  ELSE IF LexLess(p[1], sorted[1][1]) THEN << p >> \o sorted
  ELSE << sorted[1] >> \o InsertPair(Tail(sorted), p)
RECURSIVE SortPairs(_)
SortPairs(pairs) == IF Len(pairs) = 0 THEN << >> ELSE InsertPair(SortPairs(SubSeq(pairs, 1, Len(pairs) - 1)), pairs[Len(pairs)])
IsSortedPairs(pairs) == \A i \in 1..(Len(pairs) - 1) : LexLeq(pairs[i][1], pairs[i + 1][1])

\* a Go map (set of pairs with distinct keys) is encodable iff strings <= 255, the body <= 65535 and at most 1000 pairs
MapEncodable(pairs) == /\ \A i \in 1..Len(pairs) : Len(pairs[i][1]) <= StringMax /\ Len(pairs[i][2]) <= StringMax
                       /\ BodySize(pairs) <= MappingMaxSize
                       /\ Len(pairs) <= MappingMaxPairs
\* (a stable sort leaves sorted input alone; the shortcut keeps 1000-pair vectors affordable)
CanonicalSer(pairs) == SerMapping(IF IsSortedPairs(pairs) THEN pairs ELSE SortPairs(pairs))

\* distinct keys that collide under common 32-bit string hashes (FNV-1a, FNV-1, CRC-32, djb2, sdbm, Java hashCode, Adler-32) and two keys whose
\* byte order and UTF-16 code-unit order differ: any structure that fingerprints or orders keys by something other than their bytes trips here
CollisionKeys == << << 65, 97 >>,
                   << 66, 66 >>,
                   << 97, 97, 99, 97 >>,
                   << 97, 98, 97, 98 >>,
                   << 97, 111, 110, 120 >>,
                   << 98, 105, 104, 99, 97, 108, 117 >>,
                   << 98, 105, 112, 108, 112, 98, 100 >>,
                   << 98, 122, 120, 112 >>,
                   << 99, 111, 115, 116, 97, 114, 114, 105, 110, 103 >>,
                   << 100, 97, 108, 98 >>,
                   << 101, 100, 113, 106 >>,
                   << 103, 104, 107, 106, 104, 117, 101 >>,
                   << 105, 115, 106, 97, 97, 106, 105, 119 >>,
                   << 108, 105, 113, 117, 105, 100 >>,
                   << 110, 112, 110, 97 >>,
                   << 111, 112, 110, 121 >>,
                   << 116, 106, 117, 115, 118, 113, 101, 107 >>,
                   << 121, 116, 109, 121, 119, 119, 114 >>,
                   << 239, 172, 129, 108, 101 >>,
                   << 240, 159, 152, 128, 115, 109, 105, 108, 101 >> >>
\* keys that are proper prefixes of other keys, continued by bytes below and above '=' and ';' (an order computed on "key=value" or on
\* joined strings differs from the order of the keys)
PrefixKeys == << << 102, 97, 109, 105, 108, 121 >>, << 102, 97, 109, 105, 108, 121, 46, 107, 101, 121 >>, << 102, 97, 109, 105, 108, 121, 46, 115, 105, 103 >>, << 107, 49 >>, << 107, 49, 48 >>, << 97 >>, << 97, 45 >>, << 97, 46 >>, << 97, 61 >>, << 97, 59, 98 >>, << 110, 101, 116 >>, << 110, 101, 116, 73, 100 >>, << 110, 101, 116, 46, 120 >> >>
PrefixPairs == [i \in 1..Len(PrefixKeys) |-> << PrefixKeys[i], << 49 + (i % 9) >> >>]
CollisionPairs == [i \in 1..Len(CollisionKeys) |-> << CollisionKeys[i], << 48 + (i % 10) >> >>]

\* class of a mapping body for known-finding keys: which leniency of the implementation's loop it meets
\*   "exact"  : body is exactly pairs
\*   "tail<6" : pairs, then 1..5 bytes that are themselves a complete short pair (k="" or v="" forms)
\*   "junk<6" : pairs, then 1..5 bytes that are not a pair
\*   "bad"    : anything else
BodyClass(b) ==
  LET pb == ParseBody(b) IN
  IF pb.ok THEN (IF Len(pb.pairs) > 0 /\ Len(SerPair(pb.pairs[Len(pb.pairs)])) < 6 THEN "shortfinalpair" ELSE "exact")
  ELSE IF Len(b) - pb.stop < 6 THEN "junk<6" ELSE "bad"
=============================================================================
