------------------------------ MODULE MC_Crypto ------------------------------
(***************************************************************************)
(* Adversary session over one signed structure (C05): the owner publishes  *)
(* an authentic structure; the adversary, who owns only its own keys, may  *)
(* edit content, replace the closing signature, swap the identity key,     *)
(* attach a forged or a transplanted offline block, or re-sign with its    *)
(* own keys - any sequence up to MaxSteps.  Invariant: whenever the        *)
(* implementation-shaped verifier accepts, the structure is authentic      *)
(* under the contained identity's key.  With ChecksAuth = FALSE (the tree  *)
(* before the repair) TLC finds the forged-offline attack.                 *)
(***************************************************************************)
EXTENDS Crypto
CONSTANTS ChecksAuth, MaxSteps
OwnerKeys == {"idA", "tA"}          \* identity and transient key of the owner
AdvKeys == {"idE", "tE"}            \* adversary's identity and transient key
Contents == {"c0", "c1"}
VARIABLES s, steps
vars == << s, steps >>
Publish(kind, off) ==
  LET o == IF off THEN [present |-> TRUE, tkey |-> "tA", auth |-> Sig("idA", AuthMsg("tA"))] ELSE None
      signer == IF off THEN "tA" ELSE "idA" IN
  [kind |-> kind, idkey |-> "idA", content |-> "c0", offline |-> o, sig |-> Sig(signer, Msg(kind, "idA", "c0", o))]
Init == /\ \E kind \in Kinds, off \in BOOLEAN : (off => HasOfflineOption(kind)) /\ s = Publish(kind, off)
        /\ steps = 0
\* signatures the adversary can produce: only with its own keys (over anything), or replay ones it has seen
AdvSig(m) == { Sig(k, m) : k \in AdvKeys }
Seen == { s.sig } \cup (IF ~s.offline.present THEN {} ELSE { s.offline.auth })
         \cup { Sig("idA", AuthMsg("tA")) }          \* an authentic authorisation published elsewhere
AdvOffline == { [present |-> TRUE, tkey |-> t, auth |-> a] : t \in {"tA", "tE"}, a \in Seen \cup AdvSig(AuthMsg("tE")) \cup AdvSig(AuthMsg("tA")) \cup { << "junk" >> } }
Edit == \E c \in Contents : s' = [s EXCEPT !.content = c]
ReplaceSig == \E x \in AdvSig(Msg(s.kind, s.idkey, s.content, s.offline)) \cup Seen \cup { << "junk" >> } : s' = [s EXCEPT !.sig = x]
SwapKey == \E k \in {"idA", "idE"} : s' = [s EXCEPT !.idkey = k]
SetOffline == HasOfflineOption(s.kind) /\ \E o \in AdvOffline \cup { None } : s' = [s EXCEPT !.offline = o]
Next == steps < MaxSteps /\ steps' = steps + 1 /\ (Edit \/ ReplaceSig \/ SwapKey \/ SetOffline)
\* authenticity is relative to the identity the structure claims; a structure wholly re-made by the adversary
\* under its OWN identity key is authentic for that identity and not an attack
VerifyImpliesAuthentic == ImplVerify(s, ChecksAuth) => Authentic(s)
\* C06 at design level: what the owner publishes is authentic and is accepted (checked in the initial states and whenever untouched)
PublishedIsAccepted == steps = 0 => (Authentic(s) /\ ImplVerify(s, ChecksAuth))
OwnerNeverImpersonated == (ImplVerify(s, ChecksAuth) /\ s.idkey = "idA") => (Authentic(s) /\ (s.offline.present => s.offline.tkey = "tA") /\ s.content = "c0")
=============================================================================
