------------------------------ MODULE MC_Crypto ------------------------------
(***************************************************************************)
(* Adversary session over one signed structure (C05): the owner publishes  *)
(* an authentic structure; the adversary, who owns only its own keys, may  *)
(* edit content, replace the closing signature, swap the identity key,     *)
(* attach a forged or a transplanted offline block, or re-sign with its    *)
(* own keys - any sequence up to MaxSteps.  Invariant: whenever the        *)
(* implementation-shaped verifier accepts, the structure is authentic      *)
(* under the contained identity's key.  With ChecksAuth = FALSE (the tree  *)
(* before the repair) TLC finds the forged-offline attack.  Leaked = TRUE  *)
(* hands the adversary the owner's TRANSIENT key (the case offline keys    *)
(* exist for): it may then sign content, but only under the block the      *)
(* identity authorised - a verifier that forgets the expiry (Flaw =        *)
(* "cache-no-expiry") is refuted.  Flaw = "accepts-revkey": a legacy       *)
(* LeaseSet verified under its own signing_key field is refuted too.       *)
(***************************************************************************)
EXTENDS Crypto
CONSTANTS ChecksAuth, MaxSteps, Flaw, Leaked
OwnerKeys == {"idA", "tA"}          \* identity and transient key of the owner
AdvKeys == {"idE", "tE"} \cup (IF Leaked THEN {"tA"} ELSE {})           \* adversary's identity and transient key (and a leaked transient key)
Contents == {"c0", "c1"}
VARIABLES s, steps
vars == << s, steps >>
Publish(kind, off) ==
  LET o == IF off THEN [present |-> TRUE, tkey |-> "tA", expires |-> "e0", auth |-> Sig("idA", AuthMsg("tA", "e0"))] ELSE None
      signer == IF off THEN "tA" ELSE "idA" IN
  [kind |-> kind, idkey |-> "idA", revkey |-> "idA", content |-> "c0", offline |-> o, sig |-> Sig(signer, Msg(kind, "idA", "idA", "c0", o))]
Init == /\ \E kind \in Kinds, off \in BOOLEAN : (off => HasOfflineOption(kind)) /\ s = Publish(kind, off)
        /\ steps = 0
\* signatures the adversary can produce: only with its own keys (over anything), or replay ones it has seen
AdvSig(m) == { Sig(k, m) : k \in AdvKeys }
Seen == { s.sig } \cup (IF ~s.offline.present THEN {} ELSE { s.offline.auth })
         \cup { Sig("idA", AuthMsg("tA", "e0")) }          \* an authentic authorisation published elsewhere
AdvOffline == UNION { { [present |-> TRUE, tkey |-> t, expires |-> e, auth |-> a] : t \in {"tA", "tE"},
                          a \in Seen \cup AdvSig(AuthMsg("tE", e)) \cup AdvSig(AuthMsg("tA", e)) \cup { << "junk" >> } } : e \in Expiries }
Edit == \E c \in Contents : s' = [s EXCEPT !.content = c]
ReplaceSig == \E x \in AdvSig(Msg(s.kind, s.idkey, s.revkey, s.content, s.offline)) \cup Seen \cup { << "junk" >> } : s' = [s EXCEPT !.sig = x]
SwapKey == \E k \in {"idA", "idE"} : s' = [s EXCEPT !.idkey = k]
SetRevKey == \E k \in {"idA", "idE"} : s' = [s EXCEPT !.revkey = k]
SetOffline == HasOfflineOption(s.kind) /\ \E o \in AdvOffline \cup { None } : s' = [s EXCEPT !.offline = o]
Next == steps < MaxSteps /\ steps' = steps + 1 /\ (Edit \/ ReplaceSig \/ SwapKey \/ SetRevKey \/ SetOffline)
\* authenticity is relative to the identity the structure claims; a structure wholly re-made by the adversary
\* under its OWN identity key is authentic for that identity and not an attack
VerifyImpliesAuthentic == ImplVerify(s, ChecksAuth, Flaw) => Authentic(s)
\* C06 at design level: what the owner publishes is authentic and is accepted (checked in the initial states and whenever untouched)
PublishedIsAccepted == steps = 0 => (Authentic(s) /\ ImplVerify(s, ChecksAuth, Flaw))
OwnerNeverImpersonated == (ImplVerify(s, ChecksAuth, Flaw) /\ s.idkey = "idA") => (Authentic(s) /\ (s.offline.present => s.offline.tkey = "tA") /\ s.content = "c0")
=============================================================================
