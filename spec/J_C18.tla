------------------------------- MODULE J_C18 -------------------------------
(* C18: concurrent read-only calls on one shared value: no data race, same results as sequentially, nothing mutated. *)
EXTENDS Judge, Sequences, TLC
JConcurrent(e) ==
  LET cls == e.fn \o "/" \o (IF "cls" \in DOMAIN e THEN e.cls ELSE "-")  r == e.r IN
  << R("C18", "shared_value_obtained", TRUE, r.parsed, cls),
     R("C18", "no_data_race_reported", r.parsed, ~r.race, cls),
     R("C18", "concurrent_results_equal_sequential", r.parsed, Len(r.mismatches) = 0 /\ r.panics = 0, cls),
     R("C18", "receiver_not_mutated", r.parsed, r.value_unchanged, cls),
     \* field level, unexported fields included: the queried value still equals a value freshly parsed from the same bytes
     R("C18", "receiver_fields_not_mutated", r.parsed /\ "deep_control" \in DOMAIN r /\ r.deep_control, r.deep_unchanged, cls),
     R("C18", "package_tables_not_mutated", r.parsed, r.tables_unchanged, cls),
     R("C18", "serialiser_slices_have_no_spare_capacity", r.parsed /\ Len(r.caps) = 6, r.caps_tight, cls) >>

\* ConcurrentVerify: distinct values (one genuine, one tampered, same length) verified at the same time
JConcurrentVerify(e) ==
  LET cls == e.fn \o "/distinct/" \o (IF "cls" \in DOMAIN e THEN e.cls ELSE "-")  r == e.r IN
  << R("C05", "probe_set_up", TRUE, r.setup, cls),
     R("C05", "verification_success_implies_authentic", r.setup /\ r.tampered_parses, r.false_accepts = 0 /\ ~r.seq_tampered, cls),
     R("C18", "shared_value_obtained", TRUE, r.setup, cls),
     R("C18", "concurrent_results_equal_sequential", r.setup /\ r.tampered_parses, r.false_accepts = 0 /\ r.false_rejects = 0 /\ r.panics = 0 /\ r.seq_genuine, cls),
     R("C18", "no_data_race_reported", r.setup /\ r.tampered_parses, ~r.race, cls) >>
=============================================================================
