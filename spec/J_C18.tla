------------------------------- MODULE J_C18 -------------------------------
(* C18: concurrent read-only calls on one shared value: no data race, same results as sequentially, nothing mutated. *)
EXTENDS Judge, Sequences, TLC
JConcurrent(e) ==
  LET cls == e.fn \o "/" \o (IF "cls" \in DOMAIN e THEN e.cls ELSE "-")  r == e.r IN
  << R("C18", "shared_value_obtained", TRUE, r.parsed, cls),
     R("C18", "no_data_race_reported", r.parsed, ~r.race, cls),
     R("C18", "concurrent_results_equal_sequential", r.parsed, Len(r.mismatches) = 0 /\ r.panics = 0, cls),
     R("C18", "receiver_not_mutated", r.parsed, r.value_unchanged, cls),
     \* field level, unexported fields included: the queried value still equals a value freshly parsed from the same bytes
     R("C18", "receiver_fields_not_mutated", r.parsed /\ "deep_control" \in DOMAIN r /\ r.deep_control, r.deep_unchanged, cls),
     R("C18", "package_tables_not_mutated", r.parsed, r.tables_unchanged, cls),
     R("C18", "serialiser_slices_have_no_spare_capacity", r.parsed /\ Len(r.caps) = 6, r.caps_tight, cls) >>
=============================================================================
