------------------------------ MODULE MC_Cache ------------------------------
(***************************************************************************)
(* "A value is a function of its fields" (family X06; C07, C10, C17 for    *)
(* hashes, serialisations and address queries) as a state machine.         *)
(*   fields   what a caller can assign through the public API              *)
(*   memo     what an implementation may keep between calls: per query     *)
(*            either nothing or an answer computed earlier                 *)
(* Actions: Assign(f, x) (the caller writes a field), Query(q) (the caller *)
(* asks; the implementation answers from memo when it has one, computes    *)
(* and - depending on Variant - stores otherwise), Copy (a struct copy is  *)
(* taken and becomes the value in use, carrying the memo with it).         *)
(* Variants:                                                               *)
(*   "none"        nothing is memoised                    -> invariant holds*)
(*   "invalidate"  memoised, every Assign clears the memo -> invariant holds*)
(*   "memo"        memoised, never cleared                -> TLC refutes    *)
(*   "at-birth"    computed once when the value is made   -> TLC refutes    *)
(* The invariant is the judge's predicate: the last answer to every query  *)
(* is the answer a fresh computation on the CURRENT fields gives - which   *)
(* is what WarmEdit compares (query-then-assign against assign-then-query).*)
(***************************************************************************)
EXTENDS Integers, FiniteSets, TLC
CONSTANTS Variant, MaxSteps
Fields == {"key", "padding", "options"}
Queries == {"hash", "ser", "family"}
Vals == {0, 1}
\* what each query depends on (a hash and a serialisation on everything, the address family on the options only)
Deps(q) == IF q = "family" THEN {"options"} ELSE Fields
Compute(q, fl) == [f \in Deps(q) |-> fl[f]]          \* an injective summary of the fields the query reads
None == [none |-> TRUE]
VARIABLES fields, memo, last, steps
vars == << fields, memo, last, steps >>
Born(fl) == IF Variant = "at-birth" THEN [q \in Queries |-> Compute(q, fl)] ELSE [q \in Queries |-> None]
Init == /\ fields \in [Fields -> Vals] /\ memo = Born(fields) /\ last = [q \in Queries |-> None] /\ steps = 0
Assign(f, x) ==
  /\ steps < MaxSteps /\ fields' = [fields EXCEPT ![f] = x]
  /\ memo' = IF Variant = "invalidate" THEN [q \in Queries |-> None] ELSE memo
  /\ last' = [q \in Queries |-> None]          \* answers given before the assignment are history, not claims about the new fields
  /\ steps' = steps + 1
Query(q) ==
  /\ steps < MaxSteps
  /\ LET ans == IF memo[q] # None THEN memo[q] ELSE Compute(q, fields) IN
       /\ last' = [last EXCEPT ![q] = ans]
       /\ memo' = IF Variant \in {"memo", "invalidate", "at-birth"} THEN [memo EXCEPT ![q] = ans] ELSE memo
  /\ steps' = steps + 1 /\ UNCHANGED fields
Next == (\E f \in Fields, x \in Vals : Assign(f, x)) \/ (\E q \in Queries : Query(q))
\* every answer on record is the answer the current fields give
AnswersFollowFields == \A q \in Queries : last[q] # None => last[q] = Compute(q, fields)
=============================================================================
