------------------------------ MODULE Gen_C17 ------------------------------
(* Option maps for the router-address accessors: host and port corpora, key near-misses, s/i lengths; constructor and parser path. *)
EXTENDS Enc, Net, GenUtil, TLC, Json
CONSTANTS Tier, Seed, OutFile
Thorough == Tier = "thorough"
A(str) == str
\* host corpus as byte strings (ASCII)
D(n) == Digits(n)
Dot == << 46 >>  Col == << 58 >>
V4(a, b, c, d) == D(a) \o Dot \o D(b) \o Dot \o D(c) \o Dot \o D(d)
Hosts ==
  << V4(1, 2, 3, 4), V4(0, 0, 0, 0), V4(255, 255, 255, 255), V4(256, 1, 1, 1), V4(1, 2, 3, 4) \o Dot, << 49, 46, 50, 46, 51 >>, << 48, 49, 46, 50, 46, 51, 46, 52 >>,
     << 58, 58 >>, << 58, 58, 49 >>, << 49, 58, 58 >>, << 50, 48, 48, 49, 58, 100, 98, 56, 58, 58, 49 >>,
     << 49, 58, 50, 58, 51, 58, 52, 58, 53, 58, 54, 58, 55, 58, 56 >>, << 49, 58, 50, 58, 51, 58, 52, 58, 53, 58, 54, 58, 55 >>,
     << 49, 58, 50, 58, 51, 58, 52, 58, 53, 58, 54, 58, 55, 58, 56, 58, 57 >>, << 49, 58, 50, 58, 51, 58, 52, 58, 53, 58, 54, 58, 55, 58, 58 >>,
     << 58, 58, 102, 102, 102, 102, 58 >> \o V4(1, 2, 3, 4), << 58, 58 >> \o V4(1, 2, 3, 4), << 49, 58, 50, 58, 51, 58, 52, 58, 53, 58, 54, 58 >> \o V4(1, 2, 3, 4),
     << 70, 69, 56, 48, 58, 58, 49 >>, << 102, 101, 56, 48, 58, 58, 49, 37, 101, 116, 104, 48 >>, << 49, 50, 51, 52, 53, 58, 58, 49 >>, << 103, 58, 58, 49 >>,
     << 58, 58, 58, 49 >>, << 49, 58, 58, 50, 58, 58, 51 >>, << 58, 49, 58, 58 >>,
     << 91, 58, 58, 49, 93 >>, V4(1, 2, 3, 4) \o << 58, 56, 48 >>, << 32 >> \o V4(1, 2, 3, 4), V4(1, 2, 3, 4) \o << 32 >>, V4(1, 2, 3, 4) \o << 10 >>,
     << 108, 111, 99, 97, 108, 104, 111, 115, 116 >>, << 101, 120, 97, 109, 112, 108, 101, 46, 99, 111, 109 >>, << 105, 50, 112 >>, << 120, 110, 45, 45, 97 >>,
     << 195, 169, 46, 99, 111, 109 >>, << >>, << 49 >>, << 49, 50, 55, 46, 49 >>, << 48, 120, 55, 102, 46, 48, 46, 48, 46, 49 >>, << 49, 50, 55, 46, 48, 46, 48, 46, 48, 49 >> >>
Ports ==
  << D(1), D(80), D(65535), D(65536), D(0), << 43, 56, 48 >>, << 45, 56, 48 >>, << 45, 48 >>, << 48, 56, 48 >>, << 48, 48, 48, 48, 48, 56, 48 >>, << 56, 48, 32 >>, << 32, 56, 48 >>,
     << 56, 48, 120 >>, << 48, 120, 53, 48 >>, << 57, 50, 50, 51, 51, 55, 50, 48, 51, 54, 56, 53, 52, 55, 55, 53, 56, 48, 56 >>, << 49, 95, 48 >>, << >>, << 43 >>, << 56, 46, 48 >>,
     << 49, 101, 51 >> >>
KHost == << 104, 111, 115, 116 >>  KPort == << 112, 111, 114, 116 >>
NearKeys == << << 104, 111, 115 >>, << 104, 111, 115, 116, 120 >>, << 72, 111, 115, 116 >>, << 112, 111, 114 >>, << 112, 111, 114, 116, 115 >>, << 115 >>, << 105 >>, << 99, 97, 112, 115 >>, << 118 >>,
              << 115, 115 >>, << 73 >>, KHost, KPort >>
Keys == NearKeys
Vec(pairs, cls) ==
  [ops |-> << [op |-> "RAddrAccess", fn |-> "accessors", via |-> "ctor", pairs |-> pairs, keys |-> Keys, intronums |-> << -1, 0, 1, 2, 3, 10 >>, cls |-> cls],
              [op |-> "RAddrAccess", fn |-> "accessors", via |-> "parse", pairs |-> pairs, keys |-> Keys, intronums |-> << -1, 0, 1, 2, 3, 10 >>, cls |-> cls,
               in |-> EncRouterAddress(5, Zeros(8), << 78, 84, 67, 80, 50 >>, SortPairs(pairs))],
              \* the parser keeps the received order: the same options in the order given here (usually unsorted) and reversed
              [op |-> "RAddrAccess", fn |-> "accessors", via |-> "parse", pairs |-> pairs, keys |-> Keys, intronums |-> << -1, 0, 1, 2, 3, 10 >>, cls |-> cls \o "/wire-order",
               in |-> EncRouterAddress(5, Zeros(8), << 78, 84, 67, 80, 50 >>, pairs)],
              [op |-> "RAddrAccess", fn |-> "accessors", via |-> "parse", pairs |-> pairs, keys |-> Keys, intronums |-> << -1, 0, 1, 2, 3, 10 >>, cls |-> cls \o "/reversed",
               in |-> EncRouterAddress(5, Zeros(8), << 78, 84, 67, 80, 50 >>, [i \in 1..Len(pairs) |-> pairs[Len(pairs) + 1 - i]])] >>]
HostVecs == SeqMap(LAMBDA h : Vec(<< << KHost, h >>, << KPort, D(8080) >> >>, "host"), Hosts)
PortVecs == SeqMap(LAMBDA p : Vec(<< << KHost, V4(10, 0, 0, 1) >>, << KPort, p >> >>, "port"), Ports)
OrderVecs ==
  << Vec(<< << << 118 >>, << 50 >> >>, << KPort, D(4567) >>, << KHost, V4(192, 0, 2, 7) >> >>, "order-v-port-host"),
     Vec(<< << << 122, 122 >>, << 49 >> >>, << KHost, V4(10, 1, 1, 1) >>, << << 97 >>, << 49 >> >>, << KPort, D(9) >>, << << 105 >>, Fill(16, 2) >>, << << 115 >>, Fill(32, 3) >> >>, "order-mixed") >>
NearVecs ==
  SeqMap(LAMBDA k : Vec(<< << k, V4(1, 2, 3, 4) >> >>, "nearkey"), NearKeys)
  \o << Vec(<< << << 104, 111, 115 >>, V4(1, 1, 1, 1) >>, << << 104, 111, 115, 116, 120 >>, V4(2, 2, 2, 2) >> >>, "prefix-and-extension-only"),
        Vec(<< << << 104, 111, 115 >>, V4(1, 1, 1, 1) >>, << KHost, V4(3, 3, 3, 3) >>, << << 104, 111, 115, 116, 120 >>, V4(2, 2, 2, 2) >> >>, "prefix-exact-extension"),
        Vec(<< >>, "empty") >>
SILens == << 0, 1, 15, 16, 17, 31, 32, 33, 64, 255 >>
SIVecs == SeqMap(LAMBDA n : Vec(<< << << 115 >>, Fill(n, 3) >>, << << 105 >>, Fill(n, 4) >> >>, "s-i-len" \o ToString(n)), SILens)
RndVecs == [k \in 1..(IF Thorough THEN 200 ELSE 20) |-> Vec(<< << KHost, Hosts[RndNat(Seed, k, Len(Hosts)) + 1] >>, << KPort, Ports[RndNat(Seed, k + 500, Len(Ports)) + 1] >> >>, "rnd")]
\* introducer options: exact keys ih0..ih2 / iexpN / itagN, near misses (ih, ih3, ih00, IH0) and a wire order that is not sorted
KS(str) == str
IntroVecs ==
  << Vec(<< << << 105, 104, 48 >>, Fill(32, 1) >>, << << 105, 104, 49 >>, Fill(32, 2) >>, << << 105, 104, 50 >>, Fill(32, 3) >>,
            << << 105, 101, 120, 112, 48 >>, << 49 >> >>, << << 105, 101, 120, 112, 50 >>, << 51 >> >>,
            << << 105, 116, 97, 103, 49 >>, << 55 >> >>, << KHost, V4(10, 0, 0, 2) >> >>, "intro"),
     Vec(<< << << 105, 104 >>, << 1 >> >>, << << 105, 104, 51 >>, << 2 >> >>, << << 105, 104, 48, 48 >>, << 3 >> >>, << << 73, 72, 48 >>, << 4 >> >>,
            << << 105, 116, 97, 103 >>, << 5 >> >>, << << 105, 101, 120, 112, 49, 48 >>, << 6 >> >> >>, "intro-nearmiss"),
     Vec(<< << << 105, 116, 97, 103, 50 >>, << 9 >> >>, << << 105, 104, 49 >>, << 8 >> >> >>, "intro-partial") >>
Vecs == IntroVecs \o HostVecs \o PortVecs \o OrderVecs \o NearVecs \o SIVecs \o RndVecs
VARIABLE done
Init == done = FALSE
Next == ~done /\ ndJsonSerialize(OutFile, Vecs) /\ PrintT(<< "GENERATED", Len(Vecs) >>) /\ done' = TRUE
=============================================================================
