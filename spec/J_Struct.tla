------------------------------ MODULE J_Struct ------------------------------
(***************************************************************************)
(* Judging the accessor projection of accepted certificates, key           *)
(* certificates, identities and mappings against the reference decoder     *)
(* (C02 direction 1), the key block layout and size lookups seen through   *)
(* the returned keys (C10), the key-type policy (C09), identity hash and   *)
(* addresses (C07), and agreement of alternative entry points (C19).       *)
(***************************************************************************)
EXTENDS J_Read

HasAcc(rr) == rr.ok /\ "nil" \in DOMAIN rr.acc /\ ~rr.acc.nil

JCertAcc(fn, in, rr, cls) ==
  LET c == RefReadCert(in)  a == rr.acc IN
  << R("C02", "cert_fields", c.ok /\ HasAcc(rr),
       a.type_ok /\ a.type = c.type /\ a.len_ok /\ a.len = c.len /\ a.data_ok /\ a.data = c.payload
       /\ a.bytes = Take(in, c.consumed) /\ a.valid, cls),
     \* the package-level getters expose the key types of a KEY certificate (payload >= 4) and refuse anything else
     R("C02", "certificate_type_getters", c.ok /\ HasAcc(rr) /\ "getsig_ok" \in DOMAIN a,
       /\ a.getsig_ok = IsKeyCert(c) /\ a.getcrypto_ok = IsKeyCert(c)
       /\ (IsKeyCert(c) => a.getsig = KeyCertSigType(c) /\ a.getcrypto = KeyCertCryptoType(c)), cls) >>

JKeyCertAcc(fn, in, rr, cls) ==
  LET c == RefReadCert(in)  a == rr.acc
      good == IsKeyCert(c) /\ HasAcc(rr)
      st == KeyCertSigType(c)  ct == KeyCertCryptoType(c) IN
  << R("C02", "keycert_fields", good,
       a.type = CertKey /\ a.len = c.len /\ a.data = c.payload /\ a.st = st /\ a.ct = ct, cls),
     R("C10", "keycert_sizes_match_table", good,
       /\ a.sigsize = (IF SigKnown(st) THEN SigLen(st) ELSE 0)
       /\ a.spksize = (IF SigKnown(st) THEN SigPubLen(st) ELSE 0)
       /\ a.cryptosize = (IF CryptoKnown(ct) THEN CryptoPubLen(ct) ELSE 0)
       /\ a.cpksize_ok = CryptoKnown(ct) /\ (CryptoKnown(ct) => a.cpksize = CryptoPubLen(ct)), cls),
     \* keys constructed through the key certificate: the encryption key is the START of the 256-byte field, a signing key the END
     \* of the 128-byte field (or the exact-size key itself); the lengths returned are the declared ones; short data is refused
     R("C10", "constructed_keys_have_declared_length_and_alignment", good /\ "cpk_ok" \in DOMAIN a,
       /\ (ct \in {0, 4} => a.cpk_ok /\ a.cpk = Take(a.field256, CryptoPubLen(ct)))
       /\ (a.cpk_ok /\ CryptoKnown(ct) /\ ct \in {0, 4} => Len(a.cpk) = CryptoPubLen(ct))
       /\ a.cpk_short_rejected
       /\ (st \in {0, 1, 2} => a.cspk128_ok /\ a.cspk128 = Drop(a.field128, 128 - SigPubLen(st)))
       /\ ((st \in LibSigTypes /\ SigPubLen(st) <= 128) => a.cspk_exact_ok /\ a.cspk_exact = Take(a.field128, SigPubLen(st)))
       /\ (SigKnown(st) => a.cspk_short_rejected), cls) >>

JIdentityAcc(fn, in, rr, e, cls) ==
  LET r == RefIdentity(fn, in)
      a == rr.acc
      has == HasAcc(rr)
      good == r.ok /\ FastPathApplies(fn, r) /\ has
      isDest == fn \in DestReaders
      isRI == fn \in RIReaders
      hasHash == has /\ "hash" \in DOMAIN a /\ "L" \in DOMAIN e /\ "sha" \in DOMAIN e.r
  IN
  << R("C02", "identity_fields", good,
       /\ a.st = r.st /\ a.ct = r.ct
       /\ a.pub_ok /\ a.pub = KACPub(in, 0, r)
       /\ a.spk_ok /\ a.spk = KACSpk(in, 0, r)
       /\ a.padding = KACPadding(in, 0, r)
       /\ a.cert = Slice(in, BlockLen, r.cert.consumed)
       /\ a.certtype = r.cert.type, cls),
     \* layout seen from the implementation's own outputs: key at the start, signing key at the end, padding between
     R("C10", "block_layout", has /\ rr.serok /\ a.pub_ok /\ a.spk_ok /\ SigKnown(a.st) /\ CryptoKnown(a.ct),
       /\ Len(a.pub) = CryptoPubLen(a.ct) /\ Len(a.spk) = SigPubLen(a.st)
       /\ Len(rr.ser) >= BlockLen
       /\ Take(rr.ser, Len(a.pub)) = a.pub
       /\ Slice(rr.ser, BlockLen - Len(a.spk), Len(a.spk)) = a.spk
       /\ Slice(rr.ser, Len(a.pub), BlockLen - Len(a.pub) - Len(a.spk)) = a.padding
       /\ Drop(rr.ser, BlockLen) = a.cert, cls),
     R("C09", "no_prohibited_destination", has /\ isDest, ~DestProhibited(a.st, a.ct), cls),
     R("C09", "no_prohibited_router_identity", has /\ isRI, ~RouterProhibited(a.st, a.ct), cls),
     R("C09", "permitted_supported_accepted", (isDest \/ isRI) /\ r.ok, rr.ok, cls),
     R("C07", "hash_is_sha256_of_wire_bytes", hasHash /\ r.ok /\ e.L = r.consumed,
       a.hash_ok /\ a.hash = e.r.sha, cls),
     R("C07", "b32_address", hasHash /\ r.ok /\ e.L = r.consumed,
       a.b32_ok /\ a.b32 = B32Address(e.r.sha) /\ Len(a.b32) = 60, cls),
     R("C07", "b64_decodes_to_wire_bytes", hasHash /\ r.ok,
       a.b64_ok /\ a.b64 = B64(Take(in, r.consumed)) /\ B64Decode(a.b64).bytes = Take(in, r.consumed), cls) >>

PairsOf(a) == [i \in 1..Len(a.pairs) |-> << a.pairs[i][1], a.pairs[i][2] >>]
JMappingAcc(fn, in, rr, cls0) ==
  LET m == RefReadMapping(in)
      a == rr.acc
      has == "pairs" \in DOMAIN a
      body == IF m.framed THEN Slice(in, 2, m.consumed - 2) ELSE << >>
      cls == fn \o "/" \o (IF m.framed THEN BodyClass(body) ELSE "unframed")
  IN
  << R("C02", "mapping_pairs", m.ok /\ rr.ok /\ has,
       Len(a.pairs) = Len(m.pairs) /\ \A i \in 1..Len(m.pairs) :
          a.pairs[i][1] = EncString(m.pairs[i][1]) /\ a.pairs[i][2] = EncString(m.pairs[i][2]), cls),
     R("C11", "parsed_without_error_reserialises_to_input", has /\ rr.ok /\ a.nerr = 0 /\ rr.serok,
       rr.ser = Take(in, Len(in) - Len(rr.rem)), cls),
     \* ... also after every query of the mapping (duplicate check, validation, lookups ...) has been called on it
     R("C11", "parsed_mapping_reserialises_to_input_after_queries", has /\ rr.ok /\ a.nerr = 0 /\ rr.serok /\ "stab" \in DOMAIN rr /\ rr.stab.done /\ rr.stab.reser,
       rr.stab.ser2 = Take(in, Len(in) - Len(rr.rem)) /\ Len(rr.stab.unstable) = 0, cls),
     R("C11", "wellformed_mapping_no_errors", m.ok /\ m.consumed = Len(in) /\ has, a.nerr = 0, cls),
     R("C11", "malformed_mapping_reports_error", m.framed /\ ~m.ok /\ has /\ m.consumed = Len(in), a.nerr > 0, cls) >>

\* per entry point accessor judgement
JAccOne(fn, in, rr, e) ==
  LET cls == fn \o "/" \o (IF "cls" \in DOMAIN e THEN e.cls ELSE "-") IN
  CASE fn = "ReadCertificate" -> JCertAcc(fn, in, rr, cls)
    [] fn \in {"NewKeyCertificate", "KeyCertificateFromCertificate"} -> JKeyCertAcc(fn, in, rr, cls)
    [] fn \in IdentityReaders -> JIdentityAcc(fn, in, rr, e, cls)
    [] fn \in {"ReadMapping", "NewMapping"} -> JMappingAcc(fn, in, rr, cls)
    [] OTHER -> << >>

(***************************************************************************)
(* Twins: several entry points on the same input (C19) - each is also      *)
(* judged on its own (C01/C02/C03/...).                                    *)
(***************************************************************************)
TwinApplies(fn, in) == IF fn \in KACReaders THEN FastPathApplies(fn, RefReadKAC(in)) ELSE TRUE
\* entry points that must agree: same group name
TwinGroup(fn) ==
  CASE fn \in KACReaders -> "kac" [] fn \in DestReaders -> "dest" [] fn \in RIReaders -> "ri"
    [] fn \in {"NewKeyCertificate", "KeyCertificateFromCertificate"} -> "keycert"
    [] fn \in {"ReadMapping", "NewMapping"} -> "mapping"
    [] fn \in {"ReadDate", "NewDate"} -> "date"
    [] fn \in {"ReadLease", "NewLeaseFromBytes"} -> "lease"
    [] fn \in {"ReadLease2", "NewLease2FromBytes"} -> "lease2"
    [] fn \in {"ReadSignature", "NewSignature"} -> "signature"
    [] fn \in {"ReadSessionKey", "NewSessionKey"} -> "sessionkey"
    [] fn \in {"ReadSessionTag", "NewSessionTag"} -> "sessiontag"
    [] fn \in {"ReadECIESSessionTag", "NewECIESSessionTag"} -> "eciestag"
    [] fn \in {"ReadInteger", "NewInteger"} -> "integer"
    [] OTHER -> fn

JTwinsWith(e, Acc2(_, _, _, _)) ==
  LET in == e["in"]
      rs == e.r.results
      n == Len(rs)
      cls == IF "cls" \in DOMAIN e THEN e.cls ELSE "-"
      Agree(i, j) == /\ rs[i].ok = rs[j].ok
                     /\ (rs[i].ok => rs[i].ser = rs[j].ser /\ rs[i].rem = rs[j].rem)
      each == [i \in 1..n |-> JReadOne(rs[i].fn, in, rs[i], e) \o JAccOne(rs[i].fn, in, rs[i], e) \o Acc2(rs[i].fn, in, rs[i], e)]
      flat == LET F[i \in 0..n] == IF i = 0 THEN << >> ELSE F[i - 1] \o each[i] IN F[n]
      tw == [k \in 1..(n * n) |->
               LET i == ((k - 1) \div n) + 1  j == ((k - 1) % n) + 1 IN
               R("C19", "twins_agree",
                 i < j /\ TwinGroup(rs[i].fn) = TwinGroup(rs[j].fn) /\ TwinApplies(rs[i].fn, in) /\ TwinApplies(rs[j].fn, in),
                 Agree(i, j), rs[i].fn \o "~" \o rs[j].fn \o "/" \o cls)]
  IN flat \o tw
=============================================================================
