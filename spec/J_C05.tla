------------------------------- MODULE J_C05 -------------------------------
(***************************************************************************)
(* C05: when the library reports successful verification of a (possibly    *)
(* adversarially derived) structure, the independent decision on the raw   *)
(* bytes must agree: the closing signature is valid under the key the      *)
(* contract selects, over prefix ++ received bytes, and a transient key is *)
(* authorised by the identity key.  The layout of the mutated bytes is     *)
(* recomputed by the reference decoder; the event is judged only when the  *)
(* slots the driver used are the slots of the bytes actually verified.     *)
(***************************************************************************)
EXTENDS Ref, Judge

\* slots of a signed structure according to the reference decoder: [ok, idoff, idlen, sigoff, siglen, off, keyoff, keylen, osigoff, osiglen, from, to]
NoSlots == [ok |-> FALSE, idoff |-> 0, idlen |-> 0, sigoff |-> 0, siglen |-> 0, off |-> FALSE, keyoff |-> 0, keylen |-> 0, osigoff |-> 0, osiglen |-> 0, from |-> 0, to |-> 0]
HeaderSlots(h, sigoff) ==
  LET st == h.d.st
      ko == h.offOff + 6
      kl == IF h.off THEN SigPubLen(h.tst) ELSE 0 IN
  [ok |-> TRUE, idoff |-> BlockLen - SigPubLen(st), idlen |-> SigPubLen(st), sigoff |-> sigoff, siglen |-> SigLen(ClosingSigType(h)),
   off |-> h.off, keyoff |-> IF h.off THEN ko ELSE 0, keylen |-> kl, osigoff |-> IF h.off THEN ko + kl ELSE 0,
   osiglen |-> IF h.off THEN SigLen(st) ELSE 0, from |-> IF h.off THEN h.offOff ELSE 0, to |-> IF h.off THEN ko + kl ELSE 0]
SlotsOf(fn, b, typ) ==
  CASE fn = "ReadLeaseSet2" -> (LET r == RefLeaseSet2(b) IN IF r.ok THEN HeaderSlots(r.h, r.sigOff) ELSE NoSlots)
    [] fn = "ReadMetaLeaseSet" -> (LET r == RefMetaLeaseSet(b) IN IF r.ok THEN HeaderSlots(r.h, r.sigOff) ELSE NoSlots)
    [] fn = "ReadLeaseSet" -> (LET r == RefLeaseSet(b) IN IF r.ok THEN
          [NoSlots EXCEPT !.ok = TRUE, !.idoff = BlockLen - SigPubLen(r.d.st), !.idlen = SigPubLen(r.d.st), !.sigoff = r.sigOff, !.siglen = SigLen(r.d.st)] ELSE NoSlots)
    [] fn = "ReadRouterInfo" -> (LET r == RefRouterInfo(b) IN IF "laidOut" \in DOMAIN r /\ r.laidOut THEN
          [NoSlots EXCEPT !.ok = TRUE, !.idoff = BlockLen - SigPubLen(r.id.st), !.idlen = SigPubLen(r.id.st), !.sigoff = r.sigOff, !.siglen = SigLen(r.id.st)] ELSE NoSlots)
    [] fn = "ReadEncryptedLeaseSet" -> (LET r == RefEncryptedLeaseSet(b) IN IF r.ok THEN
          LET ko == r.offOff + 6  kl == IF r.off THEN SigPubLen(r.tst) ELSE 0 IN
          [ok |-> TRUE, idoff |-> 2, idlen |-> SigPubLen(r.st), sigoff |-> r.sigOff, siglen |-> SigLen(r.cst), off |-> r.off,
           keyoff |-> IF r.off THEN ko ELSE 0, keylen |-> kl, osigoff |-> IF r.off THEN ko + kl ELSE 0, osiglen |-> IF r.off THEN SigLen(r.st) ELSE 0,
           from |-> IF r.off THEN r.offOff ELSE 0, to |-> IF r.off THEN ko + kl ELSE 0] ELSE NoSlots)
    [] fn = "ReadOfflineSignature" -> (LET r == RefOfflineSig(b, typ) IN IF r.ok THEN
          [NoSlots EXCEPT !.ok = TRUE, !.sigoff = 6 + SigPubLen(r.tst), !.siglen = SigLen(typ)] ELSE NoSlots)
    [] OTHER -> NoSlots
\* the slots the driver was given, in the same shape
EventSlots(e) ==
  LET o == IF "offline" \in DOMAIN e THEN e.offline ELSE [keyoff |-> 0, keylen |-> 0, sigoff |-> 0, siglen |-> 0, from |-> 0, to |-> 0] IN
  [ok |-> TRUE, idoff |-> e.idkey.off, idlen |-> e.idkey.len, sigoff |-> e.sig.off, siglen |-> e.sig.len, off |-> "offline" \in DOMAIN e,
   keyoff |-> o.keyoff, keylen |-> o.keylen, osigoff |-> o.sigoff, osiglen |-> o.siglen, from |-> o.from, to |-> o.to]
\* offsets of the count / length / flag / type fields of a structure (always among the flipped positions)
StructuralOffsets(fn, b, typ) ==
  CASE fn = "ReadRouterInfo" -> (LET r == RefRouterInfo(b) IN IF "laidOut" \in DOMAIN r THEN
          << r.pubOff, r.pubOff + 7, r.pubOff + 8, r.peerOff, r.optOff, r.optOff + 1, BlockLen, BlockLen + 1, BlockLen + 2, BlockLen + 4, BlockLen + 6 >> ELSE << >>)
    [] fn = "ReadLeaseSet2" -> (LET r == RefLeaseSet2(b) IN IF r.ok THEN
          LET p == r.h.d.consumed IN << p, p + 3, p + 4, p + 5, p + 6, p + 7, r.optOff, r.optOff + 1, r.keyStarts[1] - 1, r.keyStarts[1], r.keyStarts[1] + 1,
                                        r.keyStarts[1] + 2, r.keyStarts[1] + 3, r.leaseOff - 1, r.leaseOff, BlockLen, BlockLen + 2, BlockLen + 4, BlockLen + 6 >> ELSE << >>)
    [] fn = "ReadMetaLeaseSet" -> (LET r == RefMetaLeaseSet(b) IN IF r.ok THEN
          LET p == r.h.d.consumed IN << p, p + 4, p + 5, p + 6, p + 7, r.optOff, r.optOff + 1, r.entryStarts[1] - 1, r.entryStarts[1] + HashLen, r.entryStarts[1] + HashLen + 4,
                                        r.entryStarts[1] + HashLen + 5, r.entryStarts[1] + HashLen + 6, r.entryStarts[1] + HashLen + 7, BlockLen + 4, BlockLen + 6 >> ELSE << >>)
    [] fn = "ReadLeaseSet" -> (LET r == RefLeaseSet(b) IN IF r.ok THEN << r.encOff, r.spkOff, r.leaseOff - 1, r.leaseOff, r.leaseOff + HashLen, r.leaseOff + HashLen + 4, BlockLen + 2, BlockLen + 4 >> ELSE << >>)
    [] fn = "ReadEncryptedLeaseSet" -> (LET r == RefEncryptedLeaseSet(b) IN IF r.ok THEN << 0, 1, r.hdrOff, r.hdrOff + 4, r.hdrOff + 5, r.hdrOff + 6, r.hdrOff + 7, r.lenOff, r.lenOff + 1, r.lenOff + 2 >> ELSE << >>)
    [] OTHER -> << 0, 3, 4, 5 >>
\* adjacent option pairs that an adversary can exchange as whole pairs (the mapping stays well formed, the layout stays the same):
\* sequence of [off, la, lb] - pair 1 occupies [off, off+la), pair 2 the next lb bytes
PairSwaps(fn, b, typ) ==
  LET Sw(optOff, pairs) == IF Len(pairs) >= 2 THEN << [off |-> optOff + 2, la |-> Len(SerPair(pairs[1])), lb |-> Len(SerPair(pairs[2]))] >> ELSE << >> IN
  CASE fn = "ReadRouterInfo" -> (LET r == RefRouterInfo(b) IN IF r.ok THEN Sw(r.optOff, r.optPairs) ELSE << >>)
    [] fn = "ReadLeaseSet2" -> (LET r == RefLeaseSet2(b) IN IF r.ok THEN Sw(r.optOff, r.optPairs) ELSE << >>)
    [] fn = "ReadMetaLeaseSet" -> (LET r == RefMetaLeaseSet(b) IN IF r.ok THEN Sw(r.optOff, r.optPairs) ELSE << >>)
    [] OTHER -> << >>
\* layout-preserving multi-byte defects: the key of the second option pair overwritten with the key of the first (a duplicate key),
\* when both keys have the same length.  Sequence of [off, bytes].
DefectPatches(fn, b, typ) ==
  LET Dup(optOff, pairs) ==
        IF Len(pairs) >= 2 /\ Len(pairs[1][1]) = Len(pairs[2][1]) /\ Len(pairs[1][1]) >= 1
        THEN << [off |-> optOff + 2 + Len(SerPair(pairs[1])) + 1, bytes |-> pairs[1][1]] >> ELSE << >> IN
  CASE fn = "ReadRouterInfo" -> (LET r == RefRouterInfo(b) IN IF r.ok THEN Dup(r.optOff, r.optPairs) ELSE << >>)
    [] fn = "ReadLeaseSet2" -> (LET r == RefLeaseSet2(b) IN IF r.ok THEN Dup(r.optOff, r.optPairs) ELSE << >>)
    [] fn = "ReadMetaLeaseSet" -> (LET r == RefMetaLeaseSet(b) IN IF r.ok THEN Dup(r.optOff, r.optPairs) ELSE << >>)
    [] OTHER -> << >>
\* offsets of plain content bytes inside the covered region (flipping one keeps the structure parseable): published / date fields, a key byte
ContentOffsets(fn, b, typ) ==
  CASE fn = "ReadRouterInfo" -> (LET r == RefRouterInfo(b) IN IF r.ok THEN << r.pubOff + 7, r.pubOff + 3 >> ELSE << >>)
    [] fn = "ReadLeaseSet2" -> (LET r == RefLeaseSet2(b) IN IF r.ok THEN << r.h.d.consumed + 3, r.keyStarts[1] + 6 >> ELSE << >>)
    [] fn = "ReadMetaLeaseSet" -> (LET r == RefMetaLeaseSet(b) IN IF r.ok THEN << r.h.d.consumed + 3, r.entryStarts[1] + 5 >> ELSE << >>)
    [] fn = "ReadLeaseSet" -> (LET r == RefLeaseSet(b) IN IF r.ok THEN << r.encOff + 9, r.leaseOff + 5 >> ELSE << >>)
    [] fn = "ReadEncryptedLeaseSet" -> (LET r == RefEncryptedLeaseSet(b) IN IF r.ok THEN << r.hdrOff + 3, r.lenOff + 9 >> ELSE << >>)
    [] OTHER -> << 3 >>
\* insertions into regions a lenient parser skips: the payload of the identity's certificate grows by four bytes (NULL certificates
\* with a payload are accepted with a warning; KEY certificates may carry more than the two type codes).  [at, lenoff, newlen, bytes]
Insertions(fn, b, typ) ==
  IF fn \in {"ReadRouterInfo", "ReadLeaseSet", "ReadLeaseSet2", "ReadMetaLeaseSet"} /\ Len(b) >= BlockLen + 3
  THEN LET n == b[BlockLen + 2] * 256 + b[BlockLen + 3] IN
       << [kind |-> "insert", at |-> BlockLen + 3 + n, lenoff |-> BlockLen + 1, newlen |-> n + 4, bytes |-> << 222, 173, 190, 239 >>] >>
  ELSE << >>
\* legacy LeaseSet: the structure carries a signing_key field of its own (the revocation key) next to the identity's key
RevocationForgery(fn, b, st) ==
  IF fn = "ReadLeaseSet" THEN LET r == RefLeaseSet(b) IN
       IF r.ok /\ SigPubLen(st) > 0 THEN << [kind |-> "forge_with_revocation_key", off |-> r.spkOff, len |-> SigPubLen(st)] >> ELSE << >>
  ELSE << >>
ShiftSlots(sl, at, n) ==
  LET Sh(x) == IF x >= at THEN x + n ELSE x IN
  [sl EXCEPT !.sigoff = Sh(@), !.keyoff = Sh(@), !.osigoff = Sh(@), !.from = Sh(@), !.to = Sh(@)]
StoreTypePrefix(fn) == CASE fn = "ReadLeaseSet2" -> << 3 >> [] fn = "ReadMetaLeaseSet" -> << 7 >> [] fn = "ReadEncryptedLeaseSet" -> << 5 >> [] OTHER -> << >>

\* where the library can verify at all: not the ECDSA types (the dependency's verifier refuses I2P's raw X||Y keys - known finding
\* KF-C06-ecdsa-verifier), and not offline blocks under a DSA-SHA1 identity (refused by the library, by design)
\* RouterInfo.VerifySignature supports Ed25519 router identities only (documented there)
LibVerifies(fn, st, tst) == st \notin {1, 2} /\ tst \notin {1, 2} /\ ~(st = 0 /\ tst >= 0) /\ (fn = "ReadRouterInfo" => st = 7)
JSignedProbe(e) ==
  LET r == e.r
      typ == IF "typ" \in DOMAIN e THEN e.typ ELSE 0
      tst == IF "offline" \in DOMAIN e THEN e.offline.tst ELSE -1
      cls == e.fn \o "/" \o e.adv.kind \o "/st=" \o ToString(e.st) \o (IF tst >= 0 THEN "/tst=" \o ToString(tst) ELSE "")
      sameLayout == r.setup /\ SlotsOf(e.fn, r.mut, typ) = (IF e.adv.kind = "insert" THEN ShiftSlots(EventSlots(e), e.adv.at, Len(e.adv.bytes)) ELSE EventSlots(e))
  IN
  << R("C05", "probe_set_up", TRUE, r.setup, cls),
     \* the specification's own consistency: the slots handed to the driver are the reference layout of the signed bytes, with the prescribed prefix
     R("C05", "slots_are_reference_layout", r.setup, SlotsOf(e.fn, r.signed, typ) = EventSlots(e) /\ e.prefix = StoreTypePrefix(e.fn), cls),
     R("C05", "verification_success_implies_authentic", r.setup /\ r.post.parse_ok /\ r.post.verify_ok /\ sameLayout,
       r.indep.sig_ok /\ r.indep.off_ok, cls),
     \* C01's last sentence: signatures are computed over the re-serialised bytes, and those are the consumed bytes - so a structure that
     \* parses and carries a genuine signature over the bytes it was parsed from verifies
     R("C01", "genuine_signature_over_consumed_bytes_verifies", r.setup /\ e.adv.kind = "none" /\ r.pre.parse_ok /\ r.indep.sig_ok /\ r.indep.off_ok /\ LibVerifies(e.fn, e.st, tst),
       r.pre.verify_ok, cls),
     \* the value itself, after it was verified once: a byte reachable through its public surface is changed in place; when the value's own
     \* serialisation changed and the signature is not valid over it (independent decision), Verify() on the value must not succeed any more
     R("C05", "verification_follows_edits_made_to_the_verified_value", r.setup /\ e.adv.kind = "edit_value_after_verify" /\ "edit" \in DOMAIN r /\ r.edit.done /\ r.edit.neffective > 0,
       Len(r.edit.stale) = 0, cls),
     \* calibration (counts only): honest structures that the library verifies; without them the adversarial steps would be vacuous
     R("C05", "honest_structure_verified_by_library", r.setup /\ e.adv.kind = "none" /\ r.pre.verify_ok, r.indep.sig_ok /\ r.indep.off_ok, cls) >>
\* a reference skeleton together with its slots: the driver puts real keys and signatures there (buildSigned), so the structure verifies
SignedShape(fn, base, st, typ) ==
  LET sl == SlotsOf(fn, base, typ) IN
  [fn |-> fn, in |-> base, base |-> base, st |-> st, typ |-> typ, prefix |-> StoreTypePrefix(fn), signed |-> TRUE, stream |-> 7,
   idkey |-> [off |-> sl.idoff, len |-> sl.idlen], sig |-> [off |-> sl.sigoff, len |-> sl.siglen]]
  @@ (IF sl.off THEN [offline |-> [keyoff |-> sl.keyoff, keylen |-> sl.keylen, tst |-> (IF fn = "ReadEncryptedLeaseSet" THEN RefEncryptedLeaseSet(base).tst
                                                                                        ELSE IF fn = "ReadLeaseSet2" THEN RefLeaseSet2(base).h.tst ELSE RefMetaLeaseSet(base).h.tst),
                                   sigoff |-> sl.osigoff, siglen |-> sl.osiglen, from |-> sl.from, to |-> sl.to]] ELSE << >>)
=============================================================================
