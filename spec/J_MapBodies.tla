---------------------------- MODULE J_MapBodies ----------------------------
(***************************************************************************)
(* Exhaustive small-scope equivalence of ReadMapping with the mapping      *)
(* grammar: every body over the alphabet of a given length (optionally     *)
(* with a fixed first character), in enumeration order.                    *)
(***************************************************************************)
EXTENDS Mapping, Judge, TLC
RECURSIVE PowN(_, _)
PowN(b, x) == IF x = 0 THEN 1 ELSE b * PowN(b, x - 1)
\* k-th (1-based) string of length n over alphabet al (a sequence), lexicographic in alphabet order
NthString(al, n, k) == [j \in 1..n |-> al[(((k - 1) \div PowN(Len(al), n - j)) % Len(al)) + 1]]
BodyOK(body) == LET r == RefReadMapping(BE16(Len(body)) \o body) IN r.ok /\ r.consumed = Len(body) + 2
JMappingBodies(e) ==
  LET al == e.alphabet
      free == IF e.first >= 0 /\ e.len >= 1 THEN e.len - 1 ELSE e.len
      count == PowN(Len(al), free)
      Body(k) == IF e.first >= 0 /\ e.len >= 1 THEN << al[e.first + 1] >> \o NthString(al, free, k) ELSE NthString(al, free, k)
      bad == { k \in 1..count : (e.r.accepted[k] = 1) # BodyOK(Body(k)) }
      cls == "len=" \o ToString(e.len) \o (IF bad = {} THEN "" ELSE "/first-mismatch=" \o ToString(CHOOSE k \in bad : \A j \in bad : k <= j))
  IN
  << R("C04", "mapping_bodies_no_panic", TRUE, e.r.npanic = 0 /\ e.r.n = count, "len=" \o ToString(e.len)),
     R("C11", "mapping_parser_accepts_exactly_the_grammar", e.r.n = count, bad = {}, cls),
     R("C11", "accepted_mapping_reserialises_to_input", e.r.n = count, \A k \in 1..count : e.r.accepted[k] = e.r.same[k], "len=" \o ToString(e.len)),
     R("C01", "accepted_mapping_reserialises_to_input", e.r.n = count, \A k \in 1..count : e.r.accepted[k] = e.r.same[k], "ReadMapping/bodies-len=" \o ToString(e.len)) >>
=============================================================================
