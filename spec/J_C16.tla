------------------------------- MODULE J_C16 -------------------------------
(* C16: encrypted leaseset round trip / rejection, and blinding (determinism per UTC day, preserved regions, the library's own check). *)
EXTENDS Ref, Civil, Judge

JEncDec(e) ==
  LET r == e.r  cls == "keyform=" \o ToString(e.keyform) IN
  << R("C16", "probe_set_up", TRUE, r.setup /\ r.enc_ok, cls),
     R("C16", "ciphertext_layout", r.setup /\ r.enc_ok, r.plainlen = Len(e["in"]) /\ r.ctlen = 32 + 12 + r.plainlen + 16, cls),
     R("C16", "decrypt_of_encrypt_is_identity", r.setup /\ r.enc_ok, r.dec_ok /\ r.dec_same /\ r.second_same, cls),
     \* interoperability: what an independent implementation of the layout sealed for the recipient decrypts to the same LeaseSet2
     R("C16", "independently_sealed_data_decrypts", r.setup /\ r.enc_ok /\ r.dec_ok /\ Len(r.craft) > 0, r.indep_sealed_decrypts, cls),
     \* plaintext chosen by the peer (bytes after the LeaseSet2): DecryptInnerData on an accepted value returns normally, whatever it decides
     R("C04", "decrypt_of_peer_chosen_plaintext_returns_normally", r.setup /\ r.enc_ok /\ Len(r.craft) > 0, \A i \in 1..Len(r.craft) : ~r.craft[i].panicked, cls),
     \* a history of calls on ONE value: decrypt, decrypt again, a refused attempt with another key, decrypt again
     R("C16", "decrypt_is_repeatable_on_one_value", r.setup /\ r.enc_ok /\ r.dec_ok /\ r.history_done, r.history_decrypts /\ r.history_reparsed_decrypts, cls),
     R("C16", "decrypt_leaves_value_and_caller_slice_alone", r.setup /\ r.enc_ok /\ r.dec_ok /\ r.history_done, r.history_value_unchanged /\ r.history_caller_slice_unchanged, cls),
     \* the same observation under the properties it also belongs to: the value still serialises to the bytes it had (C01) and the structure the
     \* signing constructor produced still verifies (C06)
     R("C01", "ser_unchanged_by_decryption", r.setup /\ r.enc_ok /\ r.dec_ok /\ r.history_done, r.history_value_unchanged, cls),
     R("C06", "still_verifies_after_decryption", r.setup /\ r.enc_ok /\ r.dec_ok /\ r.history_done, r.history_value_unchanged /\ r.history_reparsed_decrypts, cls),
     R("C16", "matching_key_decrypts_in_every_documented_form", r.setup /\ r.enc_ok /\ r.dec_ok, r.dec_forms_same, cls),
     R("C16", "wrong_private_key_rejected", r.setup /\ r.enc_ok, r.wrongkey_rejected /\ r.wrongkey_bytes_rejected, cls),
     R("C16", "modified_ciphertext_rejected", r.setup /\ r.enc_ok /\ r.nmods >= 1, Len(r.accepted_mods) = 0, cls),
     R("C16", "encryption_is_randomised", r.setup /\ r.enc_ok, r.second_differs, cls),
     R("C16", "kept_ciphertext_unaffected_by_next_encryption", r.setup /\ r.enc_ok, r.first_kept_unchanged, cls) >>

\* regions of an identity encoding
SameOutside(a, b, off, n) == Len(a) = Len(b) /\ \A i \in 1..Len(a) : (i <= off \/ i > off + n) => a[i] = b[i]
JBlind(e) ==
  LET r == e.r
      outs == r.outs
      n == Len(outs)
      ins == e.instants
      off == e.idkey.off
      klen == e.idkey.len
      secretOK == Len(e.secret) >= 32
      cls == "st=" \o ToString(e.st) \o "/secret=" \o ToString(Len(e.secret))
      Day(i) == DayString(ins[i].sec)
  IN
  << R("C16", "probe_set_up", TRUE, r.setup, cls),
     \* the specification's own UTC day is what the vector carried (self-consistency of the generator)
     R("C16", "utc_day_is_reference_day", r.setup, \A i \in 1..n : ins[i].day = Day(i), cls),
     R("C16", "blinding_accepts_long_secret", r.setup /\ secretOK /\ e.st \in {7, 11}, \A i \in 1..n : outs[i].ok, cls),
     R("C16", "blinding_rejects_short_secret", r.setup /\ ~secretOK, \A i \in 1..n : ~outs[i].ok, cls),
     R("C16", "blinding_is_function_of_utc_day", r.setup /\ secretOK /\ \A i \in 1..n : outs[i].ok,
       \A i, j \in 1..n : (Day(i) = Day(j)) <=> (outs[i].ser = outs[j].ser), cls),
     R("C16", "blinding_keeps_everything_but_signing_key", r.setup /\ secretOK /\ \A i \in 1..n : outs[i].ok,
       \A i \in 1..n : SameOutside(outs[i].ser, r.orig, off, klen) /\ Slice(outs[i].ser, off, klen) # Slice(r.orig, off, klen), cls),
     R("C16", "own_check_passes_with_derived_factor", r.setup /\ secretOK /\ \A i \in 1..n : outs[i].ok, \A i \in 1..n : outs[i].check, cls),
     R("C16", "own_check_fails_with_other_factor", r.setup /\ secretOK /\ \A i \in 1..n : outs[i].ok,
       \A i \in 1..n : ~outs[i].check_random /\ ~outs[i].check_equivalent /\ (ins[i].otherday # ins[i].day => ~outs[i].check_other), cls) >>
=============================================================================
