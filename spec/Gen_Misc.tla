------------------------------ MODULE Gen_Misc ------------------------------
(* Vectors of the extension family X02. *)
EXTENDS Bytes, GenUtil, TLC, Json
CONSTANTS Tier, Seed, OutFile
Thorough == Tier = "thorough"
M(fn, extra, cls) == [ops |-> << [op |-> "Misc", fn |-> fn, cls |-> cls] @@ extra >>]
Lens == << 0, 1, 7, 8, 9, 31, 32, 33, 55, 56, 63, 64, 65, 119, 120, 128, 1000 >>
Vecs ==
  SeqMap(LAMBDA n : M("HashFns", [in |-> Rnd(Seed, n, n)], "len" \o ToString(n)), Lens)
  \o SeqMap(LAMBDA n : M("FromArray", [in |-> Rnd(Seed, n, n + 1)], "len" \o ToString(n)), << 0, 8, 32, 40 >>)
  \o SeqMap(LAMBDA n : M("CompressiblePadding", [in |-> << >>, size |-> n], "size"), << -1, 0, 1, 31, 32, 33, 64, 95, 96, 320, 352, 384, 1000 >>)
  \o Cross2(<< 0, 1, 7, 11, 65535 >>, << 0, 40, 64, 65 >>, LAMBDA t, n : M("ValidatePtr", [in |-> Fill(n, t), typ |-> t], "sig"))
VARIABLE done
Init == done = FALSE
Next == ~done /\ ndJsonSerialize(OutFile, Vecs) /\ PrintT(<< "GENERATED", Len(Vecs) >>) /\ done' = TRUE
=============================================================================
