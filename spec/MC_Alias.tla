------------------------------ MODULE MC_Alias ------------------------------
(***************************************************************************)
(* The memory-sharing hazard of C08 as a state machine: a caller-owned     *)
(* buffer of regions, a parsed value whose fields are either copies or     *)
(* still point into the buffer (named constant AliasedFields), caller      *)
(* overwrites, observations.  With AliasedFields = {} the invariant holds  *)
(* in every reachable state; with a non-empty set TLC produces the         *)
(* overwrite history that changes an observation (negative control that    *)
(* the check is not vacuous and explains what the trace judge looks for).  *)
(***************************************************************************)
EXTENDS Integers, FiniteSets, TLC
CONSTANTS AliasedFields, MaxWrites
Regions == {"pub", "padding", "spk", "cert"}
VARIABLES buf, val, snap, pc, writes
vars == << buf, val, snap, pc, writes >>
Obs(v, b) == [f \in Regions |-> IF v[f].alias THEN b[f] ELSE v[f].v]
Init == /\ buf \in [Regions -> {0, 1}] /\ pc = "loaded" /\ writes = 0
        /\ val = [f \in Regions |-> [alias |-> FALSE, v |-> 0]] /\ snap = [f \in Regions |-> 0]
Read == /\ pc = "loaded"
        /\ val' = [f \in Regions |-> IF f \in AliasedFields THEN [alias |-> TRUE, v |-> 0] ELSE [alias |-> FALSE, v |-> buf[f]]]
        /\ snap' = buf          \* what the parser saw
        /\ pc' = "parsed" /\ UNCHANGED << buf, writes >>
Scribble(r) == /\ pc = "parsed" /\ writes < MaxWrites
               /\ buf' = [buf EXCEPT ![r] = 1 - @] /\ writes' = writes + 1 /\ UNCHANGED << val, snap, pc >>
Next == Read \/ \E r \in Regions : Scribble(r)
NoSharing == pc = "parsed" => Obs(val, buf) = snap
=============================================================================
